#!/usr/bin/env python3
"""Fail-closed translator for the PNG serializer of /repo/segno/writers.py -> Gallina (build/gen/SrcPng.v:
src_write_png = write_png as it stands under its decorator (write_png.__wrapped__, which takes the colormap dict), with its
nested helpers png_color / chunk / scanline; src_write_png_colorful = the wrapper that @colorful(dark='#000', light='#fff')
puts around it, i.e. write_png as the user calls it).

Built on gen/translate.py (Tr), translate_utils.py (TrU), translate_writers.py (TrW: output streams, str / bytes, one-shot
iterators as lists, reduce, zip_longest grouper, nested functions) and translate_colors.py (TrC: floats, the @colorful
wrapper); nothing of those files or of the existing theories/Base/PySem*.v is edited.  This file adds, in the subclass TrP and
with the support library theories/Base/PySemPng.v:

* struct.pack with a literal big-endian format over the codes B H I L (py_struct_pack), also with a starred slice and with
  arguments that may be None (struct.error);
* `zlib.crc32(b)` and `zlib.compress(b, level)` (C code) as the PARAMETERS ext_crc32 / ext_compress of the generated
  definitions; the iteration order of `set(xs)` (CPython's hash table layout) as the parameter ext_set_order; `_color_to_rgb_or_rgba` as the parameter ext__color_to_rgb_or_rgba (typed "returns a tuple of ints", as for the
  writers of translate_writers.py; theories/Tie/TiePng.v instantiates it with the translated function);
* bytes / bytearray: `b * n` on a bytearray, `x += y` on a bytearray without a second reference, `bytearray(b)` of a
  bytes-like object (a copy), a variable that is b'' on one path and a bytearray / a list of ints on another;
* nested functions that read variables of the enclosing function which are (re)bound after the `def` (png_color reads
  `transparent`, scanline reads `png_bit_depth`): the definition is moved behind the last top-level statement that binds or
  changes one of them, accepted only if the function is not mentioned before;
* a shift count / divisor that is a local all of whose bindings are int literals (`x << png_bit_depth`, `8 // png_bit_depth`:
  the possible values {1, 2, 4} are read off the assignments; a possible 0 / negative value is refused);
* `zip_longest(*[iter(row)] * n, fillvalue=c)` with a run-time n (py_grouper; no group for n <= 0, as Python);
* dicts with int keys: `{k: f(d[k]) for k in d}`, `{k: f(v) for k, v in d.items() if c}` (the keys are kept), dict literals whose
  values may raise, `d.update(e)`, `d.values()`, `d.items()` in comprehensions (tuple targets), `_NAME2RGB.values()`;
* `sorted(set(xs), key=itemgetter(i, j, k))`, `xs.sort(key=len, reverse=True)`, `xs.index(t)` and `xs[i] = t` for a list of
  tuples, `t1 == t2` / `!=` on tuples of ints, `(*t, 0)`;
* `next(<generator expression>)`, `any(<generator expression whose items may raise>)` (item by item, stops at the first true);
* iterators: `iter(xs)`, a generator expression over a not yet started generator (kept unevaluated: `miter = (f(r) for r in
  miter)` does not run matrix_iter_verbose), `chain(a, g, b)` with such a g, `chain(*(..))` of a consumed one, and a flow
  sensitive replacement of translate_writers.check_one_shot: a one-shot iterator variable may be rebound (`it = f(it)`), every
  binding is consumed at most once on every path and never inside a loop / comprehension element / nested function it was
  created outside of; a generator expression kept in a variable must not read a variable that is rebound or changed later;
* `int // float` (py_float_floordiv: CPython's float_floor_div with an exact fmod), `if` statements whose branches fall through
  or raise joined as in translate_seg.py.

Nothing here decides a property: it regenerates Coq text which coqc checks against Model/Png.v through the bridge theorems
theories/Tie/TiePng.v.

Usage: translate_png.py <repo> <outdir>      (prints a JSON status report on stdout)
"""
import ast
import functools
import importlib
import inspect
import itertools
import json
import operator
import os
import re
import struct
import sys
import zlib

sys.path.insert(0, os.path.dirname(os.path.abspath(__file__)))
import translate as T                                                    # noqa: E402
import translate_utils as TU                                             # noqa: E402
import translate_writers as TW                                           # noqa: E402
import translate_colors as TC                                            # noqa: E402
from translate import Tr, Ctx, Untranslatable, write_if_changed, contains, is_list, z, lst  # noqa: E402
from translate_utils import _Done, _Wrap                                 # noqa: E402
from translate_writers import bts, find_top, is_gen, _Iter               # noqa: E402
from translate_colors import TrC, ctype                                  # noqa: E402

# ------------------------------------------------------------------ types added to the fragment
# 'intseq': an iterable of ints that is a bytes object on one path and a list / tuple / bytearray on another: only iterated.
# ('set', T): the result of set(..), only as the argument of sorted().
T.SCALAR_COQ.update({'intseq': 'list Z'})
T.COQ_RESERVED.update({'SrcPng', 'PySemPng', 'ext_crc32', 'ext_compress', 'ext_set_order', 'ext__color_to_rgb_or_rgba', 'combine', 'fold_left',
                       'kv_', 'xs_', 'k_', 'v_'})
BYTESLIKE = ('bytes', 'buf')
INTSEQ = ('bytes', 'buf', 'intseq', ('list', 'Z'))
COLOR = ('list', 'Z')                 # a colour as png_color returns it: (R, G, B) or (R, G, B, A)

_merge_types0 = T.merge_types


def _merge_types(a, b):
    """translate.merge_types, plus: bytes / bytearray join to bytearray (the stricter discipline: no second reference), bytes
    and a list of ints join to 'intseq' (an iterable of ints, nothing else)."""
    if a != b and a in BYTESLIKE and b in BYTESLIKE:
        return 'buf'
    if a != b and a in INTSEQ and b in INTSEQ:
        return 'intseq'
    return _merge_types0(a, b)


T.merge_types = _merge_types

HEADER_P = ('(* GENERATED by gen/translate_png.py from the current /repo working tree -- do not edit. *)\n'
            'From Coq Require Import String.\n'
            'From Coq Require Import ZArith QArith List Bool PrimFloat.\n'
            'Import ListNotations.\n'
            'Open Scope Z_scope.\n'
            'From Segno Require Import Base.PyLite Base.PySem Base.PySemExt Base.PySemGen Base.PySemIO Base.PySemColor Base.PySemPng.\n'
            'From SegnoSrc Require SrcTables.\n')

PACK_FMT = re.compile(rb'^>(\d*[BHIL])+$')
EXT_SIG = ('(ext__color_to_rgb_or_rgba : option py_color -> bool -> res (list (Z))) (ext_crc32 : list Z -> Z) '
           '(ext_compress : list Z -> Z -> list Z) (ext_set_order : list (list Z) -> list (list Z))')
MUTATING = ('append', 'extend', 'pop', 'insert', 'remove', 'sort', 'reverse', 'clear', 'add', 'update', 'setdefault', 'discard',
            'popitem')


def names_loaded(node):
    return set(n.id for n in ast.walk(node) if isinstance(n, ast.Name) and isinstance(n.ctx, ast.Load))


def changes(stmts):
    """Names bound, rebound or changed in place (item stores, augmented assignments, mutating methods) by the statements,
    nested definitions included."""
    out = set()
    for st in stmts:
        for n in ast.walk(st):
            if isinstance(n, ast.Name) and isinstance(n.ctx, (ast.Store, ast.Del)):
                out.add(n.id)
            elif isinstance(n, (ast.Subscript, ast.Attribute)) and isinstance(n.ctx, (ast.Store, ast.Del)):
                b = n
                while isinstance(b, (ast.Subscript, ast.Attribute)):
                    b = b.value
                if isinstance(b, ast.Name):
                    out.add(b.id)
            elif isinstance(n, ast.Call) and isinstance(n.func, ast.Attribute) and n.func.attr in MUTATING:
                b = n.func.value
                while isinstance(b, (ast.Subscript, ast.Attribute)):
                    b = b.value
                if isinstance(b, ast.Name):
                    out.add(b.id)
            elif isinstance(n, (ast.FunctionDef, ast.ClassDef)):
                out.add(n.name)
    return out


def literal_values(fn):
    """name -> the set of int values it can hold, for the locals of fn all of whose bindings are plain assignments of int
    literals (or conditional expressions over int literals) and that no nested function binds."""
    def lits(v):
        if isinstance(v, ast.Constant) and isinstance(v.value, int) and not isinstance(v.value, bool):
            return {v.value}
        if isinstance(v, ast.IfExp):
            a, b = lits(v.body), lits(v.orelse)
            return None if a is None or b is None else a | b
        return None
    vals, bad = {}, set()
    params = set(a.arg for n in ast.walk(fn) if isinstance(n, (ast.FunctionDef, ast.Lambda)) for a in
                 n.args.args + n.args.kwonlyargs + ([n.args.vararg] if n.args.vararg else []) + ([n.args.kwarg] if n.args.kwarg else []))
    plain = {}
    for n in ast.walk(fn):
        if isinstance(n, ast.Assign) and len(n.targets) == 1 and isinstance(n.targets[0], ast.Name):
            plain[id(n.targets[0])] = n.value
    for n in ast.walk(fn):
        if isinstance(n, ast.Name) and isinstance(n.ctx, (ast.Store, ast.Del)):
            v = lits(plain[id(n)]) if id(n) in plain else None
            if v is None:
                bad.add(n.id)
            else:
                vals.setdefault(n.id, set()).update(v)
    for nme in changes([fn]) - set(vals):
        bad.add(nme)
    return dict((k, v) for k, v in vals.items() if k not in bad and k not in params)


# ------------------------------------------------------------------ one-shot iterators: flow-sensitive linearity check
ONE_SHOT_CALLS = TW.ONE_SHOT_CALLS + ('next',)


def one_shot_value(v, gens=()):
    if isinstance(v, ast.GeneratorExp):
        return True
    if isinstance(v, ast.IfExp):
        return one_shot_value(v.body, gens) or one_shot_value(v.orelse, gens)
    if isinstance(v, ast.BinOp) and isinstance(v.op, ast.Mult) and isinstance(v.left, ast.List) and len(v.left.elts) == 1:
        return one_shot_value(v.left.elts[0], gens)
    if isinstance(v, ast.Call) and isinstance(v.func, ast.Name) and v.func.id != 'next' \
            and (v.func.id in ONE_SHOT_CALLS or v.func.id in gens):
        return True
    return False


def nested_one_shot_value(v):
    """a generator expression whose items are themselves one-shot iterators"""
    if isinstance(v, ast.IfExp):
        return nested_one_shot_value(v.body) or nested_one_shot_value(v.orelse)
    return isinstance(v, ast.GeneratorExp) and one_shot_value(v.elt)


def own_statements(body):
    """ast.walk over the statements of one function scope (not entering nested function definitions / lambdas)"""
    return T.walk_no_defs(body)


def check_linear(fn):
    """Every one-shot iterator is consumed at most once.  A variable is one-shot if some assignment binds it to a generator
    expression / an itertools object / a generator call; the loop variable of a `for` (or comprehension) over a variable that
    holds a generator of generators is one-shot too; so is a parameter of a nested function that some call passes a one-shot
    value.  Flow-sensitive: a load consumes the current binding, a second load without a new binding in between is refused
    (the two branches of an `if` count separately); a load inside a loop body, a comprehension element or condition, a lambda
    or a nested function of a binding made outside of it is refused (only the outermost iterable of a comprehension and the
    iterable of a `for` are evaluated once).  A generator expression that is kept in a variable must not read a variable that
    is bound or changed after it (it would see the later value)."""
    local_gens = set(d.name for d in ast.walk(fn) if isinstance(d, ast.FunctionDef) and d is not fn
                     and any(isinstance(r, ast.Return) and isinstance(r.value, ast.GeneratorExp) for r in ast.walk(d)))
    defs = dict((d.name, d) for d in ast.walk(fn) if isinstance(d, ast.FunctionDef) and d is not fn)
    # parameters of nested functions that receive one-shot values
    one_params = dict((nme, set()) for nme in defs)
    for c in ast.walk(fn):
        if isinstance(c, ast.Call) and isinstance(c.func, ast.Name) and c.func.id in defs:
            d = defs[c.func.id]
            pn = [a.arg for a in d.args.args]
            for k, a in enumerate(c.args):
                if k < len(pn) and (one_shot_value(a, local_gens) or isinstance(a, ast.Name)):
                    if one_shot_value(a, local_gens):
                        one_params[d.name].add(pn[k])
            for kw in c.keywords:
                if kw.arg in pn and one_shot_value(kw.value, local_gens):
                    one_params[d.name].add(kw.arg)

    def scope(body, params_one, fname):
        ones, nested = set(params_one), set()
        for st in own_statements(body):
            if isinstance(st, ast.Assign) and one_shot_value(st.value, local_gens):
                for t in st.targets:
                    if isinstance(t, (ast.Tuple, ast.List)) and all(isinstance(x, ast.Name) for x in t.elts):
                        continue           # unpacking consumes the iterator at once
                    if not isinstance(t, ast.Name):
                        raise Untranslatable('one-shot iterator bound to ' + ast.dump(t)[:40])
                    ones.add(t.id)
                    if nested_one_shot_value(st.value):
                        nested.add(t.id)
        # loop variables over generators of generators
        for st in own_statements(body):
            its = []
            if isinstance(st, ast.For):
                its.append((st.target, st.iter))
            if isinstance(st, (ast.GeneratorExp, ast.ListComp, ast.SetComp, ast.DictComp)):
                its += [(g.target, g.iter) for g in st.generators]
            for tgt, it in its:
                if isinstance(it, ast.Name) and it.id in nested:
                    if not isinstance(tgt, ast.Name):
                        raise Untranslatable('unpacking of a one-shot iterator in a loop target')
                    ones.add(tgt.id)
        # a name passed on to a nested function in a one-shot position
        for c in own_statements(body):
            if isinstance(c, ast.Call) and isinstance(c.func, ast.Name) and c.func.id in defs:
                d = defs[c.func.id]
                pn = [a.arg for a in d.args.args]
                for k, a in enumerate(c.args):
                    if isinstance(a, ast.Name) and a.id in ones and k < len(pn):
                        one_params[d.name].add(pn[k])

        def fail(msg, nme):
            raise Untranslatable('the iterator %s %s' % (nme, msg))

        def merge(a, b):
            out = dict(a)
            for k, v in b.items():
                if v == 'used' or out.get(k) == 'used':
                    out[k] = 'used'
                else:
                    out[k] = v
            return out

        def ex(e, st, local):
            """evaluate e once: st maps the one-shot names to 'fresh' / 'used'; local = the names bound at this repetition level"""
            if e is None:
                return
            if isinstance(e, ast.Name):
                if isinstance(e.ctx, ast.Load) and e.id in ones:
                    if e.id not in local:
                        fail('is used inside a loop / function it was created outside of', e.id)
                    if st.get(e.id) == 'used':
                        fail('is consumed twice', e.id)
                    st[e.id] = 'used'
                return
            if isinstance(e, (ast.GeneratorExp, ast.ListComp, ast.SetComp, ast.DictComp)):
                g0 = e.generators[0]
                ex(g0.iter, st, local)
                inner = set(n.id for n in ast.walk(g0.target) if isinstance(n, ast.Name) and n.id in ones)
                ist = dict((k, 'fresh') for k in inner)
                for c in g0.ifs:
                    ex(c, ist, inner)
                for g in e.generators[1:]:
                    ex(g.iter, ist, inner)
                    more = set(n.id for n in ast.walk(g.target) if isinstance(n, ast.Name) and n.id in ones)
                    inner = set(more)
                    ist = dict((k, 'fresh') for k in inner)
                    for c in g.ifs:
                        ex(c, ist, inner)
                if isinstance(e, ast.DictComp):
                    ex(e.key, ist, inner)
                    ex(e.value, ist, inner)
                else:
                    ex(e.elt, ist, inner)
                return
            if isinstance(e, ast.Lambda):
                ex(e.body, {}, set())
                return
            if isinstance(e, ast.IfExp):
                ex(e.test, st, local)
                a, b = dict(st), dict(st)
                ex(e.body, a, local)
                ex(e.orelse, b, local)
                st.clear()
                st.update(merge(a, b))
                return
            for c in ast.iter_child_nodes(e):
                if isinstance(c, (ast.expr, ast.keyword, ast.comprehension, ast.Starred)):
                    ex(c, st, local)

        def lazy_capture(stmt, value, later, loops):
            """a generator expression kept in a variable: what it reads (its outermost iterable aside, which is evaluated
            at once) must not be bound or changed afterwards"""
            for g in ast.walk(value):
                if not isinstance(g, ast.GeneratorExp):
                    continue
                own = set(n.id for n in ast.walk(g) if isinstance(n, ast.Name) and isinstance(n.ctx, ast.Store))
                reads = set()
                for part in [g.elt] + [c for gg in g.generators for c in gg.ifs] + [gg.iter for gg in g.generators[1:]]:
                    reads |= names_loaded(part)
                reads -= own
                bad = reads & (changes(later) | changes(loops))
                if bad:
                    raise Untranslatable('a generator expression kept in a variable reads %s, which is bound or changed later'
                                         % ', '.join(sorted(bad)))

        def block(ss, st, local, loops):
            for k, s in enumerate(ss):
                later = ss[k + 1:]
                if isinstance(s, ast.FunctionDef):
                    scope(s.body, one_params.get(s.name, set()), s.name)
                    continue
                if isinstance(s, ast.Assign):
                    ex(s.value, st, local)
                    if one_shot_value(s.value, local_gens):
                        lazy_capture(s, s.value, later + block.tail, loops)
                    for t in s.targets:
                        for n in ast.walk(t):
                            if isinstance(n, ast.Name) and isinstance(n.ctx, ast.Store) and n.id in ones:
                                st[n.id] = 'fresh'
                                local.add(n.id)
                            elif isinstance(n, ast.Name) and isinstance(n.ctx, ast.Load):
                                ex(n, st, local)
                    continue
                if isinstance(s, ast.AugAssign):
                    ex(s.value, st, local)
                    continue
                if isinstance(s, (ast.Expr, ast.Return)):
                    ex(s.value, st, local)
                    continue
                if isinstance(s, ast.Raise):
                    ex(s.exc, st, local)
                    continue
                if isinstance(s, ast.Assert):
                    ex(s.test, st, local)
                    continue
                if isinstance(s, ast.Pass):
                    continue
                if isinstance(s, ast.If):
                    ex(s.test, st, local)
                    a, b = dict(st), dict(st)
                    la, lb = set(local), set(local)
                    saved = block.tail
                    block.tail = later + saved
                    block(s.body, a, la, loops)
                    block(s.orelse, b, lb, loops)
                    block.tail = saved
                    st.clear()
                    st.update(merge(a, b))
                    local |= (la & lb)
                    continue
                if isinstance(s, ast.For):
                    ex(s.iter, st, local)
                    inner = set(n.id for n in ast.walk(s.target) if isinstance(n, ast.Name) and n.id in ones)
                    ist = dict((nme, 'fresh') for nme in inner)
                    saved = block.tail
                    block.tail = []
                    block(s.body, ist, set(inner), loops + [s])
                    block.tail = saved
                    if s.orelse:
                        raise Untranslatable('for ... else')
                    continue
                if isinstance(s, ast.With):
                    for it in s.items:
                        ex(it.context_expr, st, local)
                    saved = block.tail
                    block.tail = later + saved
                    block(s.body, st, local, loops)
                    block.tail = saved
                    continue
                raise Untranslatable('statement %s in a function with one-shot iterators' % type(s).__name__)
        block.tail = []
        st0 = dict((p, 'fresh') for p in params_one)
        block(list(body), st0, set(params_one), [])
    scope(fn.body, set(), fn.name)


def check_in_place(fn, ptypes):
    """What the function changes in place.  Accepted: item stores / .sort() on a local list, .update() on a local dict, `+=` on a
    local (the bytearray idat), .write on the stream.  Such an object must have no second reference: its name is never the
    plain right-hand side of an assignment, an element of a display, an argument of a nested function, and no nested
    function mentions it.  (The tuples inside the lists are immutable: no other store is accepted.)"""
    changed = set()
    for n in ast.walk(fn):
        if isinstance(n, ast.Attribute) and not isinstance(n.ctx, ast.Load):
            raise Untranslatable('store into an attribute')
        if isinstance(n, ast.Subscript) and not isinstance(n.ctx, ast.Load):
            if not isinstance(n.value, ast.Name) or isinstance(n.slice, ast.Slice) or isinstance(n.ctx, ast.Del):
                raise Untranslatable('store into ' + ast.dump(n)[:60])
            changed.add(n.value.id)
        if isinstance(n, ast.Call) and isinstance(n.func, ast.Attribute) and n.func.attr in MUTATING:
            if not isinstance(n.func.value, ast.Name) or n.func.attr not in ('sort', 'update'):
                raise Untranslatable('call of the mutating method .%s' % n.func.attr)
            changed.add(n.func.value.id)
        if isinstance(n, ast.AugAssign):
            if not isinstance(n.target, ast.Name):
                raise Untranslatable('augmented assignment to ' + ast.dump(n.target)[:40])
            changed.add(n.target.id)
    for nme in sorted(changed & set(ptypes)):
        raise Untranslatable('the parameter %s is changed in place' % nme)
    for n in ast.walk(fn):
        if isinstance(n, ast.FunctionDef) and n is not fn:
            bad = changed & (names_loaded(n) | set(a.arg for a in n.args.args))
            if bad:
                raise Untranslatable('a nested function mentions %s, which is changed in place' % sorted(bad)[0])
        if isinstance(n, ast.Assign) and isinstance(n.value, ast.Name) and n.value.id in changed:
            raise Untranslatable('second reference to %s, which is changed in place' % n.value.id)
        if isinstance(n, (ast.List, ast.Tuple, ast.Set)) and isinstance(getattr(n, 'ctx', ast.Load()), ast.Load):
            for x in n.elts:
                if isinstance(x, ast.Name) and x.id in changed:
                    raise Untranslatable('%s, which is changed in place, is stored in a display' % x.id)
        if isinstance(n, ast.Dict):
            for x in n.values:
                if isinstance(x, ast.Name) and x.id in changed:
                    raise Untranslatable('%s, which is changed in place, is stored in a display' % x.id)
        if isinstance(n, ast.Lambda) and changed & names_loaded(n):
            raise Untranslatable('a lambda mentions an object that is changed in place')
    return changed


class TrP(TrC):
    def __init__(self, *args, **kw):
        self.lit = dict(kw.pop('lit', None) or {})          # locals that only ever hold these int literals
        TrC.__init__(self, *args, **kw)

    # ---------------------------------------------------------------- helpers
    def writers_obj(self, name, obj):
        return name not in self.env and name not in self.funs and getattr(self.writers, name, None) is obj

    def lit_name(self, e):
        return isinstance(e, ast.Name) and e.id in self.lit and self.env.get(e.id) == 'Z'

    def dict_of(self, e):
        """(term, value type) if e is a local dict with int keys"""
        t, ty = self.expr(e)
        if not (isinstance(ty, tuple) and ty[0] == 'dictZ'):
            raise Untranslatable('dict expected, got %r' % (ty,))
        return t, ty[1]

    # ---------------------------------------------------------------- types
    def join(self, a, ta, b, tb):
        if ta == tb:
            return ta
        if is_list(ta) and is_gen(tb) and tb[0] == 'gen' and ta[1] == tb[1]:
            return tb
        if is_list(tb) and is_gen(ta) and ta[0] == 'gen' and ta[1] == tb[1]:
            return ta
        return TrC.join(self, a, ta, b, tb)

    def coerce(self, term, frm, to):
        if frm == to:
            return term
        if is_list(frm) and is_gen(to) and to[0] == 'gen' and frm[1] == to[1]:
            return term                        # a sequence used as the iterator over its items
        if is_gen(frm) and frm[0] == 'gen' and is_list(to) and frm[1] == to[1]:
            return term                        # an iterator whose items cannot raise, consumed by the callee
        if is_gen(frm) and frm[0] == 'lazygen' and is_list(to) and frm[1] == to[1]:
            return self.bind(term, to)[0]      # ... whose production may raise: it raises when the callee consumes it
        if frm in INTSEQ and to == ('list', 'Z'):
            return term
        if frm in BYTESLIKE and to in BYTESLIKE:
            return term
        return TrC.coerce(self, term, frm, to)

    # ---------------------------------------------------------------- expressions
    def expr(self, e):
        if not self.monadic:
            return TrC.expr(self, e)
        if isinstance(e, _Done):
            return (e.term, e.ty)
        if isinstance(e, ast.Constant) and isinstance(e.value, bytes):
            return (bts(e.value), 'bytes')
        if isinstance(e, ast.Tuple) and any(isinstance(x, ast.Starred) for x in e.elts):
            parts, et = [], None
            for x in e.elts:
                if isinstance(x, ast.Starred):
                    t, ty = self.expr(x.value)
                    if not is_list(ty):
                        raise Untranslatable('*%r in a tuple display' % (ty,))
                    parts.append(t)
                    it = ty[1]
                else:
                    t, it = self.expr(x)
                    parts.append('[%s]' % t)
                if et is not None and it != et:
                    raise Untranslatable('tuple display of %r and %r' % (et, it))
                et = it
            return ('(%s)' % ' ++ '.join(parts), ('list', et))
        if isinstance(e, ast.BinOp) and isinstance(e.op, ast.Mult):
            a, ta = self.expr(e.left)
            b, tb = self.expr(e.right)
            if ta == 'buf' and tb == 'Z':
                return ('(py_repeat %s %s)' % (a, b), 'buf')
            return TrC.expr(self, ast.BinOp(left=_Done(a, ta), op=e.op, right=_Wrap(e.right, b, tb)))
        if isinstance(e, ast.BinOp) and isinstance(e.op, ast.FloorDiv):
            a, ta = self.expr(e.left)
            b, tb = self.expr(e.right)
            if 'float' in (ta, tb):
                fa = self.float_operand(a, ta, e.left)
                fb = self.float_operand(b, tb, e.right)
                self.partial += 1                 # ZeroDivisionError / non-finite operands are not modelled
                return self.bind('(py_float_floordiv %s %s)' % (fa, fb), 'float')
            if ta == 'Z' and tb == 'Z' and self.lit_name(e.right):
                if 0 in self.lit[e.right.id]:
                    raise Untranslatable('division by %s, which may be 0' % e.right.id)
                return ('(Z.div %s %s)' % (a, b), 'Z')
            return TrC.expr(self, ast.BinOp(left=_Done(a, ta), op=e.op, right=_Wrap(e.right, b, tb)))
        if isinstance(e, ast.BinOp) and isinstance(e.op, (ast.LShift, ast.RShift)) and self.lit_name(e.right):
            a, ta = self.expr(e.left)
            b, tb = self.expr(e.right)
            if ta != 'Z' or min(self.lit[e.right.id]) < 0:
                raise Untranslatable('shift of %r by %s' % (ta, e.right.id))
            return ('(%s %s %s)' % ('Z.shiftl' if isinstance(e.op, ast.LShift) else 'Z.shiftr', a, b), 'Z')
        if isinstance(e, ast.Dict) and e.keys and all(k is not None for k in e.keys) \
                and not any(isinstance(k, ast.Tuple) for k in e.keys):
            return self.int_dict(e)
        if isinstance(e, ast.DictComp):
            return self.dict_comp(e)
        if isinstance(e, ast.GeneratorExp):
            lz = self.lazy_genexp(e)
            if lz is not None:
                return lz
        return TrC.expr(self, e)

    def lazy_genexp(self, e):
        """(elt for x in it) over a variable `it` that holds an iterator whose production may raise / has not started: the
        result is such an iterator too (nothing is evaluated now).  An element that is itself an iterator and whose
        construction may raise is kept as an iterator whose production may raise (it raises when it is consumed)."""
        if len(e.generators) != 1:
            return None
        g = e.generators[0]
        if not (isinstance(g.iter, ast.Name) and isinstance(self.env.get(g.iter.id), tuple) and self.env[g.iter.id][0] == 'lazygen'
                and isinstance(g.target, ast.Name) and not g.is_async):
            return None
        src, et = self.n(g.iter.id), self.env[g.iter.id][1]
        x = g.target.id
        saved = dict(self.env)
        self.env[x] = et
        self.nonneg.discard(x)
        self.depth += 1
        try:
            conds = [self.pure(lambda c=c: self.as_bool(c), 'a comprehension condition') for c in g.ifs]
            (el, te), be = self.isolated(lambda: self.expr(e.elt))
        finally:
            self.env = saved
            self.depth -= 1
        xs = "xs_'%d" % self.next_id()
        src_items = xs
        if conds:
            c = conds[-1]
            for p in reversed(conds[:-1]):
                c = '(andb %s %s)' % (p, c)
            src_items = '(filter (fun %s => %s) %s)' % (self.n(x), c, xs)
        if not be:
            return ('(do %s <- %s; Ok (map (fun %s => %s) %s))' % (xs, src, self.n(x), el, src_items), ('lazygen', te))
        if is_gen(te):
            item = self.wrap(be, el if te[0] == 'lazygen' else '(Ok %s)' % el)
            return ('(do %s <- %s; Ok (map (fun %s => %s) %s))' % (xs, src, self.n(x), item, src_items), ('lazygen', ('lazygen', te[1])))
        item = self.wrap(be, '(Ok %s)' % el)
        return ('(do %s <- %s; py_seq_res (map (fun %s => %s) %s))' % (xs, src, self.n(x), item, src_items), ('lazygen', te))

    def next_id(self):
        self.counter += 1
        return self.counter

    def int_dict(self, e):
        """{K1: v1, ...}: int keys (distinct constants, or any int expression for a single entry); the values may raise"""
        items, keys, vt = [], [], None
        for k, v in zip(e.keys, e.values):
            kt, kty = self.expr(k)
            if kty != 'Z':
                raise Untranslatable('dict key of type %r' % (kty,))
            kv = k.value if isinstance(k, ast.Constant) else getattr(self.consts, k.attr, None) \
                if isinstance(k, ast.Attribute) and isinstance(k.value, ast.Name) and k.value.id == 'consts' else None
            if len(e.keys) > 1 and (not isinstance(kv, int) or isinstance(kv, bool) or kv in keys):
                raise Untranslatable('dict key is not a distinct int constant')
            keys.append(kv)
            t, ty = self.expr(v)
            items.append((kt, t, ty))
            vt = ty if vt is None else self.join('', vt, t, ty)
        return (lst('(%s, %s)' % (kt, self.coerce(t, ty, vt)) for kt, t, ty in items), ('dictZ', vt))

    def dict_comp(self, e):
        """{k: V for k in d [if c]} / {k: V for k, v in d.items() [if c]}: the key is the key of d, so the keys stay distinct
        and in order; V may raise (the first exception wins)"""
        if len(e.generators) != 1 or e.generators[0].is_async:
            raise Untranslatable('dict comprehension shape')
        g = e.generators[0]
        if isinstance(g.target, ast.Name) and isinstance(g.iter, ast.Name):
            d, vt = self.dict_of(g.iter)
            k, v = g.target.id, None
            xs, pat = '(py_dict_keys %s)' % d, None
        elif isinstance(g.target, ast.Tuple) and len(g.target.elts) == 2 and all(isinstance(x, ast.Name) for x in g.target.elts) \
                and isinstance(g.iter, ast.Call) and isinstance(g.iter.func, ast.Attribute) and g.iter.func.attr == 'items' \
                and not g.iter.args and not g.iter.keywords:
            d, vt = self.dict_of(g.iter.func.value)
            k, v = g.target.elts[0].id, g.target.elts[1].id
            xs = d
        else:
            raise Untranslatable('dict comprehension shape')
        if not (isinstance(e.key, ast.Name) and e.key.id == k) or k == v or k in self.env or (v is not None and v in self.env):
            raise Untranslatable('dict comprehension: the key is not the key of the dict iterated over')
        pat = self.n(k) if v is None else "'(%s, %s)" % (self.n(k), self.n(v))
        saved = dict(self.env)
        self.env[k] = 'Z'
        if v is not None:
            self.env[v] = vt
        self.depth += 1
        try:
            conds = [self.pure(lambda c=c: self.as_bool(c), 'a comprehension condition') for c in g.ifs]
            (val, tv), bv = self.isolated(lambda: self.expr(e.value))
        finally:
            self.env = saved
            self.depth -= 1
        if conds:
            c = conds[-1]
            for p in reversed(conds[:-1]):
                c = '(andb %s %s)' % (p, c)
            xs = '(filter (fun %s => %s) %s)' % (pat, c, xs)
        if bv:
            item = self.wrap(bv, '(Ok (%s, %s))' % (self.n(k), val))
            return self.bind('(py_seq_res (map (fun %s => %s) %s))' % (pat, item, xs), ('dictZ', tv))
        return ('(map (fun %s => (%s, %s)) %s)' % (pat, self.n(k), val, xs), ('dictZ', tv))

    def comprehension(self, e):
        """as TrW.comprehension; also `for k, v in d.items()` over a local dict with int keys"""
        if len(e.generators) == 1 and not e.generators[0].is_async and isinstance(e.generators[0].target, ast.Tuple):
            g = e.generators[0]
            if len(g.target.elts) == 2 and all(isinstance(x, ast.Name) for x in g.target.elts) and isinstance(g.iter, ast.Call) \
                    and isinstance(g.iter.func, ast.Attribute) and g.iter.func.attr == 'items' and not g.iter.args \
                    and not g.iter.keywords:
                d, vt = self.dict_of(g.iter.func.value)
                k, v = g.target.elts[0].id, g.target.elts[1].id
                if k == v or k in self.env or v in self.env:
                    raise Untranslatable('comprehension variable shadows a local')
                pat = "'(%s, %s)" % (self.n(k), self.n(v))
                saved = dict(self.env)
                self.env[k], self.env[v] = 'Z', vt
                self.depth += 1
                try:
                    conds = [self.pure(lambda c=c: self.as_bool(c), 'a comprehension condition') for c in g.ifs]
                    (el, te), be = self.isolated(lambda: self.expr(e.elt))
                finally:
                    self.env = saved
                    self.depth -= 1
                xs = d
                if conds:
                    c = conds[-1]
                    for p in reversed(conds[:-1]):
                        c = '(andb %s %s)' % (p, c)
                    xs = '(filter (fun %s => %s) %s)' % (pat, c, xs)
                if be:
                    return ('(map (fun %s => %s) %s)' % (pat, self.wrap(be, '(Ok %s)' % el), xs), ('reslist', te))
                return ('(map (fun %s => %s) %s)' % (pat, el, xs), ('list', te))
        return TrC.comprehension(self, e)

    def seq(self, e):
        if not isinstance(e, (ast.GeneratorExp, ast.ListComp)):
            t, ty = self.expr(e)
            if ty in INTSEQ:
                return (t, ('list', 'Z'))
            if isinstance(ty, tuple) and ty[0] == 'set':
                raise Untranslatable('iteration over a set (the order is an implementation detail)')
            e = _Done(t, ty)
        return TrC.seq(self, e)

    def grouper(self, e):
        """zip_longest(*[iter(X)] * N, fillvalue=C) with an int expression N"""
        if isinstance(e, ast.Call) and isinstance(e.func, ast.Name) and e.func.id == 'zip_longest' \
                and self.wname('zip_longest', itertools.zip_longest) and len(e.args) == 1 and isinstance(e.args[0], ast.Starred) \
                and len(e.keywords) == 1 and e.keywords[0].arg == 'fillvalue':
            v, fill = e.args[0].value, e.keywords[0].value
            if isinstance(v, ast.BinOp) and isinstance(v.op, ast.Mult) and isinstance(v.left, ast.List) and len(v.left.elts) == 1 \
                    and not (isinstance(v.right, ast.Constant)) and isinstance(fill, ast.Constant) \
                    and isinstance(fill.value, int) and not isinstance(fill.value, bool):
                it = v.left.elts[0]
                if isinstance(it, ast.Call) and isinstance(it.func, ast.Name) and it.func.id == 'iter' and self.builtin('iter') \
                        and len(it.args) == 1 and not it.keywords:
                    xs, tx = self.seq(it.args[0])          # iter(X) is evaluated first
                    n, tn = self.expr(v.right)
                    if tx != ('list', 'Z') or tn != 'Z':
                        raise Untranslatable('zip_longest over %r, %r references' % (tx, tn))
                    return ('(py_grouper %s %s %s)' % (n, z(fill.value), xs), ('gen', ('list', 'Z')))
        return TrC.grouper(self, e)

    def pack_call(self, e):
        fmt = e.args[0]
        if not (isinstance(fmt, ast.Constant) and isinstance(fmt.value, bytes) and PACK_FMT.match(fmt.value)):
            raise Untranslatable('pack with a format other than a literal b\'>..\' over the codes B H I L')
        rest = e.args[1:]
        if len(rest) == 1 and isinstance(rest[0], ast.Starred):
            vals, tv = self.expr(rest[0].value)
            if tv != ('list', 'Z'):
                raise Untranslatable('pack(*%r)' % (tv,))
        elif not any(isinstance(a, ast.Starred) for a in rest):
            items = []
            for a in rest:
                t, ty = self.expr(a)
                if ty == 'oZ' and t != 'None':
                    t, ty = self.bind('(py_struct_int %s)' % t, 'Z')      # None: struct.error
                if ty != 'Z':
                    raise Untranslatable('pack of %r' % (ty,))
                items.append(t)
            vals = lst(items)
        else:
            raise Untranslatable('pack arguments')
        return self.bind('(py_struct_pack %s %s)' % (bts(fmt.value), vals), 'bytes')

    def sort_key(self, k, et):
        """the key function of sorted / list.sort on items of type et: (Coq key : et -> res K, Coq ltb on K)"""
        if isinstance(k, ast.Name) and k.id == 'len' and self.builtin('len') and (is_list(et) or et in BYTESLIKE):
            return 'py_len_key', 'Z.ltb'
        if isinstance(k, ast.Call) and isinstance(k.func, ast.Name) and k.func.id == 'itemgetter' \
                and self.wname('itemgetter', operator.itemgetter) and len(k.args) == 3 and not k.keywords \
                and all(isinstance(a, ast.Constant) and isinstance(a.value, int) and not isinstance(a.value, bool) for a in k.args) \
                and et == ('list', 'Z'):
            return '(py_itemgetter3 %s)' % ' '.join(z(a.value) for a in k.args), 'py_list_ltb'
        raise Untranslatable('sort key ' + ast.dump(k)[:60])

    def sort_args(self, keywords, et):
        kw = dict((k.arg, k.value) for k in keywords)
        if None in kw or not set(kw) <= {'key', 'reverse'} or 'key' not in kw or len(kw) != len(keywords):
            raise Untranslatable('sort without key / with other keywords')     # ordering of tuples of different kinds
        key, ltb = self.sort_key(kw['key'], et)
        if 'reverse' in kw:
            r = kw['reverse']
            if not (isinstance(r, ast.Constant) and isinstance(r.value, bool)):
                raise Untranslatable('reverse is not a literal')
            if r.value:
                ltb = '(py_reversed_ltb %s)' % ltb
        return key, ltb

    def call(self, e):
        f = e.func
        if not self.monadic:
            return TrC.call(self, e)
        if isinstance(f, ast.Name) and f.id not in self.env:
            name = f.id
            if name == 'pack' and self.wname('pack', struct.pack) and len(e.args) >= 1 and not e.keywords:
                return self.pack_call(e)
            if name == 'iter' and self.builtin('iter') and len(e.args) == 1 and not e.keywords:
                xs, tx = self.expr(e.args[0])
                if not is_list(tx):
                    raise Untranslatable('iter of %r' % (tx,))
                # an iterator over a sequence; typed like a generator whose production may raise (it never does) so that
                # it joins with the generators it is an alternative to
                return ('(Ok %s)' % xs, ('lazygen', tx[1]))
            if name == 'next' and self.builtin('next') and len(e.args) == 1 and not e.keywords \
                    and isinstance(e.args[0], ast.GeneratorExp):
                xs, tx = self.seq(e.args[0])
                return self.bind('(py_next_first %s)' % xs, tx[1])
            if name == 'any' and self.builtin('any') and len(e.args) == 1 and not e.keywords \
                    and isinstance(e.args[0], (ast.GeneratorExp, ast.ListComp)):
                term, ty = self.comprehension(e.args[0])
                if ty == ('list', 'bool'):
                    return ('(existsb (fun b_ => b_) %s)' % term, 'bool')
                if ty == ('reslist', 'bool') and isinstance(e.args[0], ast.GeneratorExp):
                    return self.bind('(py_any_res %s)' % term, 'bool')       # item by item; stops at the first true
                raise Untranslatable('any over %r' % (ty,))
            if name == 'set' and self.builtin('set') and len(e.args) == 1 and not e.keywords:
                xs, tx = self.seq(e.args[0])
                if tx != ('list', COLOR):
                    raise Untranslatable('set of %r' % (tx,))
                # the distinct items, in the order in which CPython iterates over the set (the hash table layout: C code,
                # a parameter of the generated definition); the only accepted use is as the argument of sorted()
                return ('(ext_set_order %s)' % xs, ('set', COLOR))
            if name == 'sorted' and self.builtin('sorted') and len(e.args) == 1:
                xs, tx = self.expr(e.args[0])
                if isinstance(tx, tuple) and tx[0] == 'set':
                    tx = ('list', tx[1])
                elif is_gen(tx):
                    xs, tx = self.consume(xs, tx)
                if not is_list(tx):
                    raise Untranslatable('sorted of %r' % (tx,))
                key, ltb = self.sort_args(e.keywords, tx[1])
                return self.bind('(py_sorted_by_key %s %s %s)' % (ltb, key, xs), tx)
            if name == 'bytearray' and self.builtin('bytearray') and len(e.args) == 1 and not e.keywords:
                t, ty = self.expr(e.args[0])
                if ty in BYTESLIKE:
                    return (t, 'buf')              # a copy of a bytes-like object: its items are bytes already
                if is_gen(ty):
                    t, ty = self.consume(t, ty)
                return TrC.call(self, ast.Call(func=f, args=[_Done(t, ty)], keywords=[]))
            if name == 'len' and self.builtin('len') and len(e.args) == 1 and not e.keywords:
                t, ty = self.expr(e.args[0])
                if ty in INTSEQ:
                    return ('(lenZ %s)' % t, 'Z')
                return TrC.call(self, ast.Call(func=f, args=[_Done(t, ty)], keywords=[]))
            if name == 'repeat' and self.wname('repeat', itertools.repeat) and len(e.args) == 2 and not e.keywords:
                a, ta = self.expr(e.args[0])
                n, tn = self.expr(e.args[1])
                if tn != 'Z' or ta != 'Z':
                    raise Untranslatable('repeat(%r, %r)' % (ta, tn))
                return ('(py_it_repeat %s %s)' % (a, n), ('gen', ta))
            if name == 'chain' and self.wname('chain', itertools.chain) and not e.keywords and len(e.args) == 1 \
                    and isinstance(e.args[0], ast.Starred):
                xs, tx = self.seq(e.args[0].value)            # the unpacking consumes the iterable of iterables
                inner = tx[1]
                if is_gen(inner) and inner[0] == 'gen':
                    inner = ('list', inner[1])
                if not is_list(inner):
                    raise Untranslatable('chain(*%r)' % (tx,))
                return ('(concat %s)' % xs, ('gen', inner[1]))
            if name == 'chain' and self.wname('chain', itertools.chain) and len(e.args) >= 1 and not e.keywords \
                    and not any(isinstance(a, ast.Starred) for a in e.args):
                parts = [self.expr(a) for a in e.args]       # the arguments are evaluated at the call, in order
                out, lazy, et = [], [], None
                for t, ty in parts:
                    if ty in INTSEQ:
                        ty = ('list', 'Z')
                    if is_gen(ty) and ty[0] == 'lazygen':
                        v = "c'%d" % self.next_id()
                        lazy.append((v, t))
                        t, ty = v, ('list', ty[1])
                    elif is_gen(ty):
                        ty = ('list', ty[1])
                    if not is_list(ty) or (et is not None and ty[1] != et):
                        raise Untranslatable('chain of %r' % (ty,))
                    et = ty[1]
                    out.append(t)
                if not lazy:
                    return ('(%s)' % ' ++ '.join(out), ('gen', et))
                # the parts that may raise do so when the chain reaches them; the other parts cannot raise
                return (self.wrap(lazy, '(Ok (%s))' % ' ++ '.join(out)), ('lazygen', et))
        if isinstance(f, ast.Attribute) and isinstance(f.value, ast.Name) and f.value.id == 'zlib' \
                and self.writers_obj('zlib', zlib) and not e.keywords:
            if f.attr == 'crc32' and len(e.args) == 1:
                a, ta = self.expr(e.args[0])
                if ta not in BYTESLIKE:
                    raise Untranslatable('crc32 of %r' % (ta,))
                return ('(ext_crc32 %s)' % a, 'Z')
            if f.attr == 'compress' and len(e.args) == 2:
                a, ta = self.expr(e.args[0])
                b, tb = self.expr(e.args[1])
                if ta not in BYTESLIKE or tb != 'Z':
                    raise Untranslatable('compress(%r, %r)' % (ta, tb))
                return ('(ext_compress %s %s)' % (a, b), 'bytes')
            raise Untranslatable('zlib.' + f.attr)
        if isinstance(f, ast.Attribute) and f.attr in ('values', 'items', 'keys') and not e.args and not e.keywords:
            if isinstance(f.value, ast.Name) and f.value.id == '_NAME2RGB' and self.writers_dict('_NAME2RGB') is not None \
                    and f.attr == 'values':
                d = self.writers._NAME2RGB
                if not all(isinstance(k, str) and isinstance(v, tuple) and len(v) == 3
                           and all(isinstance(x, int) and not isinstance(x, bool) for x in v) for k, v in d.items()):
                    raise Untranslatable('_NAME2RGB is not a dict str -> (int, int, int)')
                return ('(py_name2rgb_values SrcTables.NAME2RGB)', ('list', COLOR))
            d, vt = self.dict_of(f.value)
            if f.attr == 'values':
                return ('(py_dict_values %s)' % d, ('list', vt))
            if f.attr == 'keys':
                return ('(py_dict_keys %s)' % d, ('list', 'Z'))
            raise Untranslatable('.items() outside a comprehension')
        if isinstance(f, ast.Attribute) and f.attr == 'index' and len(e.args) == 1 and not e.keywords:
            a, ta = self.expr(f.value)
            if ta == ('list', COLOR):
                x, tx = self.expr(e.args[0])
                if tx != COLOR:
                    raise Untranslatable('index of %r' % (tx,))
                return self.bind('(py_index_of_list %s %s)' % (x, a), 'Z')
            return TrC.call(self, ast.Call(func=ast.Attribute(value=_Done(a, ta), attr='index', ctx=ast.Load()), args=e.args, keywords=[]))
        return TrC.call(self, e)

    def ext_args(self, desc):
        out = TrC.ext_args(self, desc)
        if desc.get('png_ext'):
            out = out + ['ext_crc32', 'ext_compress', 'ext_set_order']
        return out

    def compare(self, l, op, r):
        if self.monadic and isinstance(op, (ast.In, ast.NotIn)) and not isinstance(r, (ast.Tuple, ast.Constant)):
            a, ta = self.expr(l)
            c, tc = self.expr(r)
            if ta == COLOR and tc == ('list', COLOR):
                out = '(py_mem_list %s %s)' % (a, c)
                return out if isinstance(op, ast.In) else '(negb %s)' % out
            return TrC.compare(self, _Done(a, ta), op, _Done(c, tc))
        return TrC.compare(self, l, op, r)

    def compare_vals(self, a, ta, b, tb, op):
        if ta == COLOR and tb == COLOR and isinstance(op, (ast.Eq, ast.NotEq)):
            t = '(py_list_eqb %s %s)' % (a, b)
            return t if isinstance(op, ast.Eq) else '(negb %s)' % t
        return TrC.compare_vals(self, a, ta, b, tb, op)

    def as_bool(self, e):
        t, ty = self.expr(e)
        if ty == 'intseq':
            return '(negb (Z.eqb (lenZ %s) 0))' % t
        return TrC.as_bool(self, _Done(t, ty))

    # ---------------------------------------------------------------- statements
    def mutator(self, call):
        f = call.func
        if isinstance(f, ast.Attribute) and isinstance(f.value, ast.Name) and f.attr in ('sort', 'update') \
                and isinstance(self.env.get(f.value.id), tuple) and self.env[f.value.id][0] in ('list', 'dictZ'):
            return f.value.id, f.attr
        return TrC.mutator(self, call)

    def mutation(self, call, rest, ctx):
        m = self.mutator(call)
        if m is not None and m[1] == 'sort' and is_list(self.env.get(m[0])):
            obj, ty = m[0], self.env[m[0]]
            if call.args:
                raise Untranslatable('sort with positional arguments')
            key, ltb = self.sort_args(call.keywords, ty[1])
            o = self.n(obj)
            self.effects += 1
            return '(do %s <- (py_sorted_by_key %s %s %s);\n %s)' % (o, ltb, key, o, self.stmts(rest, ctx))
        if m is not None and m[1] == 'update' and isinstance(self.env.get(m[0]), tuple) and self.env[m[0]][0] == 'dictZ':
            obj, ty = m[0], self.env[m[0]]
            if len(call.args) != 1 or call.keywords:
                raise Untranslatable('update with other than one argument')
            if any(isinstance(n, ast.Name) and n.id == obj for n in ast.walk(call.args[0])) \
                    and not isinstance(call.args[0], (ast.DictComp, ast.Dict)):
                raise Untranslatable('update of a dict with itself')
            a, ta = self.expr(call.args[0])          # the argument is built completely before the dict changes
            binds = self.take()
            if not (isinstance(ta, tuple) and ta[0] == 'dictZ'):
                raise Untranslatable('update with %r' % (ta,))
            vt = self.join('', ty[1], a, ta[1])
            if vt != ty[1]:
                raise Untranslatable('update changes the value type of the dict')
            o = self.n(obj)
            return self.wrap(binds, '(let %s := (py_dict_update %s %s) in\n %s)' % (o, o, a, self.stmts(rest, ctx)))
        return TrC.mutation(self, call, rest, ctx)

    def store(self, target, t, ty, rest, ctx):
        base, sl = target.value, target.slice
        if isinstance(base, ast.Name) and is_list(self.env.get(base.id)) and self.env[base.id][1] != 'Z' \
                and not isinstance(sl, ast.Slice):
            et = self.env[base.id][1]
            if ty != et:
                raise Untranslatable('store of %r into a list of %r' % (ty, et))
            j, tj = self.expr(sl)
            binds = self.take()
            if tj != 'Z':
                raise Untranslatable('index is not an int')
            o = self.n(base.id)
            self.effects += 1
            return self.wrap(binds, '(do %s <- (py_list_set_item %s %s %s);\n %s)' % (o, o, j, t, self.stmts(rest, ctx)))
        return TrC.store(self, target, t, ty, rest, ctx)

    def stmts(self, ss, ctx):
        if not ss:
            return ctx.fall()
        s, rest = ss[0], ss[1:]
        if self.pending:
            raise Untranslatable('internal: dangling binds')
        if not self.monadic:
            return TrC.stmts(self, ss, ctx)
        if isinstance(s, ast.FunctionDef):
            return self.local_def(s, rest, ctx)
        if isinstance(s, ast.AugAssign) and isinstance(s.target, ast.Name) and isinstance(s.op, ast.Add) \
                and self.env.get(s.target.id) == 'buf':
            name = s.target.id
            t, ty = self.expr(s.value)
            binds = self.take()
            if ty not in BYTESLIKE:
                raise Untranslatable('bytearray += %r' % (ty,))
            o = self.n(name)
            return self.wrap(binds, '(let %s := (%s ++ %s) in\n %s)' % (o, o, t, self.stmts(rest, ctx)))
        if isinstance(s, ast.If) and not self.narrowable(s.test) and not self.isinstance_test(s.test) \
                and contains(s.body + s.orelse, (ast.Raise,)) \
                and not contains(s.body + s.orelse, (ast.Return, ast.Break, ast.Continue, ast.FunctionDef)):
            # branches that fall through or raise: joined like a fall-through `if` (raise is Err inside the conditional)
            return Tr.joined_if(self, s, rest, ctx)
        return TrC.stmts(self, ss, ctx)

    def local_def(self, s, rest, ctx):
        """TrW.local_def; a function that reads variables which the following statements bind or change is first moved behind
        the last top-level statement that does so (a closure looks its free variables up when it is called), which is only
        right if nothing before that point mentions the function."""
        own = set(x.arg for x in s.args.args) | set(n.id for n in ast.walk(s) if isinstance(n, ast.Name) and isinstance(n.ctx, ast.Store))
        free = names_loaded(s) - own
        last = -1
        for k, st in enumerate(rest):
            if free & changes([st]):
                last = k
        if last >= 0:
            for st in rest[:last + 1]:
                if any(isinstance(x, ast.Name) and x.id == s.name for x in ast.walk(st)) \
                        or (isinstance(st, ast.FunctionDef) and st.name == s.name):
                    raise Untranslatable('%s is used before its free variables have their final value' % s.name)
            return self.stmts(list(rest[:last + 1]) + [s] + list(rest[last + 1:]), ctx)
        return self.local_def_here(s, rest, ctx)

    def local_def_here(self, s, rest, ctx):
        params = self.local_types.get(s.name)
        a = s.args
        if params is None or a.vararg or a.kwarg or a.kwonlyargs or a.posonlyargs or s.decorator_list \
                or [x.arg for x in a.args] != [p for p, _ in params]:
            raise Untranslatable('nested function ' + s.name)
        if s.name in self.env or s.name in self.funs:
            raise Untranslatable('nested function shadows ' + s.name)
        got = [x.arg for x in a.args]
        defaults = dict(zip(got[len(got) - len(a.defaults):], a.defaults))
        if any(not isinstance(d, ast.Constant) for d in defaults.values()):
            raise Untranslatable('non-literal default value')
        for n in ast.walk(s):
            if isinstance(n, (ast.FunctionDef, ast.ClassDef, ast.Yield, ast.YieldFrom, ast.With, ast.Global, ast.Nonlocal)) and n is not s:
                raise Untranslatable('statement %s in the nested function %s' % (type(n).__name__, s.name))
        own = set(got) | set(n.id for n in ast.walk(s) if isinstance(n, ast.Name) and isinstance(n.ctx, ast.Store))
        free = names_loaded(s) - own
        later = changes(rest)
        for nme in free:
            if nme in later:
                raise Untranslatable('free variable %s of %s is rebound after the definition' % (nme, s.name))
        captured = dict((k, v) for k, v in self.env.items()
                        if not T.is_alias(v) and v != 'none' and not is_gen(v) and v not in TW.STREAM_ITEM
                        and k not in dict(params) and k not in later and k in free)
        body_stmts = list(T.strip_docstrings(ast.parse(ast.unparse(s))).body[0].body)

        def run(total):
            sub = type(self)(self.consts, env=dict(captured, **dict(params)), monadic=True, funs=self.funs, mods=self.mods,
                             writers=self.writers, lit=self.lit)
            sub.ever_mutated = set()
            sub.counter = self.counter + 100

            def ret(t):
                if t is None:
                    raise Untranslatable('return without value')
                return t if total else 'Ok %s' % t
            return sub, sub.stmts(list(body_stmts), Ctx(ret=ret, fall=sub.no_fall))
        sub, body = run(False)
        total = sub.effects == 0
        if total:
            sub, body = run(True)
        tys = set(repr(ty) for _, ty in sub.rt_seen)
        if len(tys) != 1:
            raise Untranslatable('return types of nested function differ')
        rt = sub.rt_seen[0][1]
        if is_gen(rt):
            raise Untranslatable('nested function returns an iterator')
        self.funs = dict(self.funs)
        self.funs[s.name] = {'coq': self.n(s.name), 'params': list(params), 'defaults': defaults, 'ret': rt,
                             'monadic': not total, 'mutates': [], 'partial': sub.partial > 0}
        self.partial += sub.partial
        sig = ' '.join('(%s : %s)' % (self.n(p), ctype(t)) for p, t in params)
        return '(let %s := (fun %s => %s) in\n %s)' % (self.n(s.name), sig, body, self.stmts(rest, ctx))


# ------------------------------------------------------------------ function level
class Group:
    def __init__(self, mods, tree, report, funs, deps=()):
        self.mods, self.tree, self.report, self.funs = mods, tree, report, funs
        self.out = [HEADER_P + ''.join('From SegnoSrc Require Import %s.\n' % d for d in deps)]

    def text(self):
        return '\n'.join(self.out) + '\n'

    def attempt(self, name, fn):
        try:
            self.out.append(fn())
            self.report['functions'][name] = 'ok'
        except Untranslatable as ex:
            self.report['functions'][name] = 'untranslatable: %s' % ex
            self.out.append('(* %s: untranslatable: %s *)' % (name, str(ex).replace('*)', '* )').replace('(*', '( *')))
        except Exception as ex:  # source changed shape in a way we do not understand: fail closed
            if os.environ.get('TRANSLATE_DEBUG'):
                import traceback
                traceback.print_exc(file=sys.stderr)
            self.report['functions'][name] = 'untranslatable: %s: %s' % (type(ex).__name__, ex)
            self.out.append('(* %s: untranslatable (%s) *)' % (name, type(ex).__name__))

    def define_png(self, name, params, local_types, decorator):
        """writers.<name> under its decorator, for arguments of the declared types (Python is untyped: the bridge theorems
        speak about arguments of these types).  The parameter of type 'out' is the file argument: it has no counterpart."""
        writers = self.mods['writers']

        def go():
            fn = find_top(ast.parse(ast.unparse(find_top(self.tree, name))), name)     # a private copy
            a = fn.args
            if a.vararg or a.kwarg or a.kwonlyargs or a.posonlyargs:
                raise Untranslatable('signature of ' + name)
            if [ast.unparse(d) for d in fn.decorator_list] != [decorator]:
                raise Untranslatable('decorators of %s: %s' % (name, [ast.unparse(d) for d in fn.decorator_list]))
            got = [x.arg for x in a.args]
            if got != [p for p, _ in params]:
                raise Untranslatable('parameters changed: %s' % got)
            defaults = dict(zip(got[len(got) - len(a.defaults):], a.defaults))
            for d in defaults.values():
                if not isinstance(d, ast.Constant):
                    raise Untranslatable('non-literal default value')
            T.strip_docstrings(fn)
            if contains(fn.body, (ast.Yield, ast.YieldFrom, ast.Await, ast.While, ast.Global, ast.Nonlocal, ast.Delete,
                                  ast.NamedExpr, ast.Import, ast.ImportFrom, ast.ClassDef, ast.Try)):
                raise Untranslatable('statement outside the fragment')
            for n in ast.walk(fn):
                if isinstance(n, (ast.While, ast.Try, ast.Global, ast.Nonlocal, ast.Delete, ast.NamedExpr, ast.Yield, ast.YieldFrom,
                                  ast.Await, ast.ClassDef, ast.AsyncFunctionDef, ast.AsyncFor, ast.AsyncWith)):
                    raise Untranslatable('statement %s outside the fragment' % type(n).__name__)
            fn, out = TW.desugar_with(fn, writers)
            ast.fix_missing_locations(fn)
            cparams = [(p, t) for p, t in params if t != 'out']
            if [p for p, t in params if t == 'out'] != ([out] if out else []):
                raise Untranslatable('the output parameter')
            ptypes = dict(cparams)
            check_linear(fn)
            check_in_place(fn, ptypes)
            lit = literal_values(fn)
            lfuns = dict(self.funs)
            en, eparams, eret = '_color_to_rgb_or_rgba', [('color', 'ocolor'), ('alpha_float', 'bool')], ('list', 'Z')
            if not callable(getattr(writers, en, None)):
                raise Untranslatable('external function ' + en)
            efn = find_top(self.tree, en)
            ea = efn.args
            if [x.arg for x in ea.args] != [pn for pn, _ in eparams] or ea.vararg or ea.kwarg or ea.kwonlyargs or efn.decorator_list:
                raise Untranslatable('parameters of %s changed' % en)
            edefaults = dict(zip([x.arg for x in ea.args][len(ea.args) - len(ea.defaults):], ea.defaults))
            if any(not isinstance(d, ast.Constant) for d in edefaults.values()):
                raise Untranslatable('non-literal default value of ' + en)
            lfuns[en] = {'coq': 'ext_' + en, 'params': list(eparams), 'defaults': edefaults, 'ret': eret, 'monadic': True,
                         'mutates': [], 'ext_color': True}

            def run(rt_decl):
                tr = TrP(self.mods['consts'], env=ptypes, monadic=True, funs=lfuns, mods=self.mods, writers=writers, lit=lit)
                tr.rt_decl = rt_decl
                tr.local_types = dict(local_types or {})
                tr.ever_mutated = set()

                def ret(t):
                    if t is None:
                        raise Untranslatable('return without value')
                    return 'Ok %s' % t
                body = tr.stmts(list(ast.parse(ast.unparse(fn)).body[0].body), Ctx(ret=ret, fall=tr.no_fall))
                return tr, body
            tr, body = run(None)
            if not tr.rt_seen:
                raise Untranslatable('function never returns a value')
            t0, rt = tr.rt_seen[0]
            for t, ty in tr.rt_seen[1:]:
                rt = tr.join(t0, rt, t, ty)
            tr, body = run(rt)
            if rt != 'stream_b':
                raise Untranslatable('the function does not return its binary stream')
            coqname = 'src_' + name
            sig = EXT_SIG + ' ' + ' '.join('(%s : %s)' % (tr.n(p), ctype(t)) for p, t in cparams)
            self.funs[name] = {'coq': coqname, 'params': list(cparams), 'src_params': list(params), 'defaults': defaults, 'ret': rt,
                               'monadic': True, 'mutates': [], 'externals': [en], 'png_ext': True, 'partial': tr.partial > 0}
            return 'Definition %s %s : res (%s) := (* the stream: what was written to `%s` *)\n %s.\n' % (coqname, sig, ctype(rt), out, body)
        return go

    def define_wrapper(self, name, coqname, wparams, star_kw, out):
        """the function `wrapper` of @colorful around writers.<name> (translate_colors.colorful_wrapper)"""
        writers = self.mods['writers']

        def go():
            d = self.funs.get(name)
            if d is None:
                raise Untranslatable('no translation of ' + name)
            w = TC.colorful_wrapper(self.tree, writers)
            fn = ast.parse(ast.unparse(w)).body[0]
            a = fn.args
            if a.vararg or a.kwonlyargs or a.posonlyargs or a.kwarg is None or a.kwarg.arg != star_kw[0]:
                raise Untranslatable('signature of colorful.wrapper')
            got = [x.arg for x in a.args]
            if got != [p for p, _ in wparams]:
                raise Untranslatable('parameters changed: %s' % got)
            T.strip_docstrings(fn)
            if contains(fn.body, (ast.Yield, ast.YieldFrom, ast.Await, ast.While, ast.Global, ast.Nonlocal, ast.Delete, ast.NamedExpr,
                                  ast.Import, ast.ImportFrom, ast.ClassDef, ast.With, ast.Lambda, ast.FunctionDef, ast.Try, ast.For)):
                raise Untranslatable('statement outside the fragment')
            for n in ast.walk(fn):
                if isinstance(n, (ast.Subscript, ast.Attribute)) and not isinstance(n.ctx, ast.Load):
                    raise Untranslatable('store into a sequence / attribute')
            check_linear(fn)
            cparams = [(p, t) for p, t in wparams if t != 'out'] + list(star_kw[1])
            lfuns = dict(self.funs)
            lfuns['f'] = dict(d)
            en = '_color_to_rgb_or_rgba'
            lfuns[en] = {'coq': 'ext_' + en, 'params': [('color', 'ocolor'), ('alpha_float', 'bool')], 'defaults': {},
                         'ret': ('list', 'Z'), 'monadic': True, 'mutates': []}

            def run(rt_decl):
                tr = TrP(self.mods['consts'], env=dict(cparams), monadic=True, funs=lfuns, mods=self.mods, writers=writers)
                tr.rt_decl = rt_decl
                tr.ever_mutated = set()
                tr.star_kw = star_kw
                tr.out_name = out

                def ret(t):
                    if t is None:
                        raise Untranslatable('return without value')
                    return 'Ok %s' % t
                return tr, tr.stmts(list(ast.parse(ast.unparse(fn)).body[0].body), Ctx(ret=ret, fall=tr.no_fall))
            tr, body = run(None)
            if [ty for _, ty in tr.rt_seen] != ['stream_b']:
                raise Untranslatable('the wrapper does not return the result of the decorated function')
            tr, body = run('stream_b')
            sig = EXT_SIG + ' ' + ' '.join('(%s : %s)' % (tr.n(p), ctype(t)) for p, t in cparams)
            return 'Definition %s %s : res (list Z) :=\n %s.\n' % (coqname, sig, body)
        return go


def translate_png(mods, outdir, report):
    writers = mods['writers']
    tree = ast.parse(inspect.getsource(writers))
    utils_tree = ast.parse(inspect.getsource(mods['utils']))
    Z, B, OZ, Q = 'Z', 'bool', 'oZ', 'Q'
    OCOLOR = 'ocolor'
    LL, SIZE = TW.LL, TW.SIZE

    def read(name):
        try:
            with open(os.path.join(outdir, name)) as f:
                return f.read()
        except OSError:
            return ''
    funs = {}
    for nm in ('matrix_iter_verbose',):
        if getattr(writers, nm, None) is not getattr(mods['utils'], nm, None):
            raise Untranslatable('writers.%s is not utils.%s' % (nm, nm))
    try:
        funs['matrix_iter_verbose'] = TW.utils_fun(utils_tree, read('SrcUtilsVerbose.v'), 'matrix_iter_verbose',
                                                   [('matrix', LL), ('matrix_size', SIZE), ('scale', Q), ('border', OZ)],
                                                   ('list', ('list', Z)), generator=True)
    except Untranslatable as ex:
        report['functions']['utils.matrix_iter_verbose'] = 'unavailable: %s' % ex
    # writers._valid_width_height_and_border as translate_writers.py has translated it (SrcWrCommon.v)
    vw = find_top(tree, '_valid_width_height_and_border')
    vparams = [('matrix_size', SIZE), ('scale', Z), ('border', OZ)]
    if [x.arg for x in vw.args.args] == [p for p, _ in vparams] and not vw.args.defaults and not vw.decorator_list \
            and ('Definition src__valid_width_height_and_border (matrix_size : list (Z)) (scale : Z) (border : option Z) : res (list (Z)) :='
                 in read('SrcWrCommon.v')):
        funs['_valid_width_height_and_border'] = {'coq': 'src__valid_width_height_and_border', 'params': vparams, 'defaults': {},
                                                  'ret': ('list', Z), 'monadic': True, 'mutates': []}
    else:
        report['functions']['writers._valid_width_height_and_border'] = 'unavailable'
    # writers._make_colormap as translate_colors.py has translated it (SrcColor.v)
    OPTC = (TC.ORFALSE, OCOLOR)
    cm_opts = ['finder_dark', 'finder_light', 'data_dark', 'data_light', 'version_dark', 'version_light', 'format_dark',
               'format_light', 'alignment_dark', 'alignment_light', 'timing_dark', 'timing_light', 'separator', 'dark_module',
               'quiet_zone']
    mparams = [('matrix_width', Z), ('matrix_height', Z), ('dark', OCOLOR), ('light', OCOLOR)] + [(o, OPTC) for o in cm_opts]
    mc = find_top(tree, '_make_colormap')
    msig = 'Definition src__make_colormap %s : list (Z * option py_color) :=' % ' '.join('(%s : %s)' % (p, ctype(t)) for p, t in mparams)
    mgot = [x.arg for x in mc.args.args]
    mdefaults = dict(zip(mgot[len(mgot) - len(mc.args.defaults):], mc.args.defaults))
    if mgot == [p for p, _ in mparams] and msig in read('SrcColor.v') and not mc.decorator_list \
            and all(isinstance(d, ast.Constant) for d in mdefaults.values()):
        funs['_make_colormap'] = {'coq': 'src__make_colormap', 'params': mparams, 'src_params': mparams, 'defaults': mdefaults,
                                  'ret': ('dictZ', OCOLOR), 'monadic': False, 'mutates': []}
    else:
        report['functions']['writers._make_colormap'] = 'unavailable'

    g = Group(mods, tree, report, funs, deps=('SrcUtils', 'SrcUtilsVerbose', 'SrcWrCommon', 'SrcColor'))
    g.attempt('write_png', g.define_png(
        'write_png',
        [('matrix', LL), ('matrix_size', SIZE), ('out', 'out'), ('colormap', ('dictZ', OCOLOR)), ('scale', Z), ('border', OZ),
         ('compresslevel', Z), ('dpi', OZ)],
        local_types={'png_color': [('clr', OCOLOR)], 'chunk': [('name', 'bytes'), ('data', 'bytes')],
                     'scanline': [('row', ('list', Z)), ('filter_type', 'bytes')]},
        decorator="colorful(dark='#000', light='#fff')"))
    wparams = [('matrix', LL), ('matrix_size', SIZE), ('out', 'out'), ('dark', OCOLOR), ('light', OCOLOR)] + [(o, OPTC) for o in cm_opts]
    g.attempt('colorful(write_png)', g.define_wrapper(
        'write_png', 'src_write_png_colorful', wparams,
        ('kw', [('scale', Z), ('border', OZ), ('compresslevel', Z), ('dpi', OZ)]), 'out'))
    return {'SrcPng.v': g.text()}


PNG_FILES = ('SrcPng.v',)


def main():
    repo, outdir = sys.argv[1], sys.argv[2]
    sys.path.insert(0, repo)
    os.makedirs(outdir, exist_ok=True)
    report = {'functions': {}, 'changed': []}
    files = {}
    try:
        mods = {m: importlib.import_module('segno.' + m) for m in ('consts', 'encoder', 'utils', 'writers')}
        if not os.path.realpath(mods['writers'].__file__).startswith(os.path.realpath(repo)):
            raise RuntimeError('segno imported from %s, not from %s' % (mods['writers'].__file__, repo))
        files = translate_png(mods, outdir, report)
    except Exception as ex:
        report['functions']['*'] = 'failed: %s: %s' % (type(ex).__name__, ex)
    for name in PNG_FILES:
        text = files.get(name)
        if not isinstance(text, str):
            text = HEADER_P + '(* %s: translation failed *)\n' % name
        if write_if_changed(os.path.join(outdir, name), text):
            report['changed'].append(name)
    print(json.dumps(report, indent=1))


if __name__ == '__main__':
    main()
