#!/usr/bin/env python3
"""Generates theories/Props/Cxx.v from the lemma files: each property theorem is RESTATED in full (statement text
copied from the lemma file) and closed by `exact <lemma>`, followed by Print Assumptions.  Run by hand when lemma
files change; the generated files are committed and are what `coqc` re-checks."""
import os, re, sys
HERE = os.path.dirname(os.path.dirname(os.path.abspath(__file__)))

SPEC = {
 'C01': dict(title='every symbol decodes back to exactly the content that was given',
   imports='Ref.IsoData Ref.Geometry Ref.Bch Ref.MaskCond Ref.Decoder Ref.Spec Model.Bits Model.Segment Model.Version Model.Stream Model.Matrix Model.Encode Lemmas.PackLemmas Lemmas.PadLemmas Lemmas.BlockLemmas Lemmas.PlaceLemmas Lemmas.ParseLemmas Lemmas.VersionLemmas Lemmas.IdemLemmas Lemmas.ExnLemmas Lemmas.RoundTrip',
   intro='''Decoder.decode_symbol is a reference reader written from ISO/IEC 18004 (format read, mask release, zig-zag reading, Table 9
   de-interleaving, segment parsing), independent of the encoder model.  encode_decodes: for EVERY content (byte strings of any length, any
   codec results) and every accepted option combination the decoder returns exactly the encoded segments, and the concatenated segment bytes
   are the concatenated part bytes (nothing lost, added, reordered).  Text -> bytes is CPython's codec (oracle inputs of the model).''',
   items=[('Lemmas/PackLemmas.v', ['numeric_roundtrip', 'alnum_roundtrip', 'byte_roundtrip', 'kanji_roundtrip', 'hanzi_roundtrip', 'merge_pack']),
          ('Lemmas/ParseLemmas.v', ['write_segments_parse_qr', 'write_segments_parse_micro', 'count_fits']),
          ('Lemmas/BlockLemmas.v', ['toints_bits_roundtrip', 'deinterleave_interleave']),
          ('Lemmas/PlaceLemmas.v', ['read_stream_of_model']),
          ('Lemmas/RoundTrip.v', ['data_positions_count', 'decode_of_encode_core', 'encode_decodes', 'encode_decodes_eci', 'decode_of_encode_core_sa'])]),
 'C08': dict(title='Structured Append sequences reassemble to the original message',
   imports='Ref.IsoData Ref.Spec Model.Bits Model.Segment Model.Version Model.Stream Model.Matrix Model.Encode Model.Sequence Lemmas.PackLemmas Lemmas.VersionLemmas Lemmas.SeqLemmas',
   intro='''Model/Sequence.v encode_sequence.  The statement "every chunk fits its symbol" is FALSE of the unchanged code (known finding D14
   `kf_sa_chunk_overflow`): C08_refuted_fit exhibits 71 digits at version 1-L (a chunk of 154 bits in a 152-bit symbol); seq_fits_partial /
   seq_fits_stream prove the fit for every input on which no chunk overflows.  Chunking, headers, parity, counts and versions hold for ALL inputs.
   That each symbol decodes to its chunk is C01 (Lemmas/RoundTrip.v) applied to the per-symbol encode_core call exposed by encode_chunks_headers.''',
   items=[('Lemmas/SeqLemmas.v', ['chunks_partition', 'chunks_count', 'chunks_sizes', 'chunks_bytes_concat', 'xor_all_spec', 'xor_bytes_concat',
                                  'encode_sequence_multi_shape', 'encode_chunks_headers', 'encode_chunks_versions', 'C08_model_multi',
                                  'seq_count_bounds', 'seq_never_micro', 'seq_symbol_count', 'seq_fixed_version', 'C08_refuted_fit',
                                  'seq_fits_partial', 'seq_fits_stream'])]),
 'C14': dict(title='arguments are honoured or refused with ValueError; nothing else escapes',
   imports='Ref.IsoData Ref.Spec Model.Bits Model.Segment Model.Version Model.Stream Model.Matrix Model.Encode Model.Sequence Model.Color Model.Args Lemmas.VersionLemmas Lemmas.ExnLemmas',
   intro='''Model/Args.v encode_args = encoder.encode with RAW arguments (None / bool / int / ASCII str).  allowed e := ValueError, DataOverflow
   (a ValueError), UnicodeErr (a ValueError) or LookupErr (unknown codec).  IndexErr, KeyErr, TypeErr, AssertErr, AttributeErr are proved unreachable.
   Serializer arguments: see the refusal theorems of the format lemma files (C09/C10); command line process behaviour: correspondence only.''',
   items=[('Lemmas/ExnLemmas.v', ['normalize_version_exn', 'normalize_mode_exn', 'normalize_errorlevel_exn', 'normalize_mask_exn',
                                  'normalize_version_ok', 'normalize_version_int', 'normalize_version_str_int', 'normalize_version_str_iff', 'normalize_version_upper',
                                  'normalize_mode_str_iff', 'normalize_mode_lower', 'normalize_errorlevel_str_iff', 'normalize_errorlevel_upper',
                                  'normalize_mask_int', 'normalize_mask_str_int',
                                  'encode_args_exn_class_gen', 'encode_args_exn_class_content', 'encode_args_no_internal_error',
                                  'excluded_H_micro', 'excluded_eci_micro', 'excluded_mode_version', 'excluded_hanzi_micro', 'excluded_version',
                                  'excluded_mask', 'excluded_mask_micro', 'encode_args_mask_range', 'encode_args_spelling'])]),
 'C15': dict(title='encoding is pure: deterministic, history-free, thread-safe, idempotent',
   imports='Ref.IsoData Ref.Spec Model.Bits Model.Segment Model.Version Model.Stream Model.Matrix Model.Encode Lemmas.VersionLemmas Lemmas.IdemLemmas',
   intro='''The model is a Gallina FUNCTION: determinism and history independence hold of it by construction; that segno refines this function under every
   history and in threads is checked by correspondence (sampled).  Proved here: re-encoding with the reported version / level / mask and boosting
   disabled returns the very same record.  The hypothesis about `mode` is NECESSARY: idem_counterexample shows a global mode that no part uses
   (parts carrying their own mode) is only checked against the version when a version is requested (contrived; outside the documented content types).''',
   items=[('Lemmas/IdemLemmas.v', ['encode_idempotent_eq', 'encode_idempotent', 'encode_idempotent_parts', 'encode_idempotent_mode_needed',
                                   'encode_version_independent_of_mask', 'encode_boost_keeps_version'])]),
 'C02': dict(title='geometry, function patterns, format and version information follow ISO 18004',
   imports='Ref.IsoData Ref.Geometry Ref.Bch Ref.Decoder Ref.Spec Model.Bits Model.Segment Model.Version Model.Stream Model.Matrix Model.Encode Lemmas.TableLemmas Lemmas.GeomLemmas',
   intro='''c02_check rows v level mask = [] (Ref/Spec.v) means: square of the ISO size; every finder / separator / timing / alignment /
   dark module has the value ISO prescribes (iso_function_value, Annex E positions by formula); both format copies read back (ISO Fig. 25
   positions) as BCH(15,5)(level, mask) xor the mask constant; for v >= 7 both version copies (Fig. 27) as Golay(18,6)(v).
   encode_core_c02 holds for ARBITRARY segments / data bits.''',
   items=[('Lemmas/TableLemmas.v', ['format_info_is_bch', 'format_info_micro_is_bch', 'version_info_is_golay', 'alignment_pos_is_annex_e',
                                    'capacity_is_data_codewords']),
          ('Lemmas/GeomLemmas.v', ['encode_core_c02', 'encode_core_function_patterns', 'encode_core_format_copies',
                                   'encode_core_version_copies'])]),
 'C13': dict(title='terminator and padding per ISO 7.4.9 / 7.4.10',
   imports='Ref.IsoData Ref.Spec Model.Bits Model.Stream Lemmas.PadLemmas',
   intro='''iso_pad v cap stream (Ref/Spec.v) = the ISO padded data bit stream: terminator min(cap - len, T(v)) zero bits, zero bits to the
   codeword boundary only if not already on one, pad codewords 11101100 / 00010001 alternately, final 0000 for M1/M3.
   FULL STATEMENT (pad_model_is_iso without the kf hypothesis) is FALSE of the unchanged code: known finding D1 `kf_pad_aligned`
   (an already aligned terminated stream gets one extra 00000000 codeword).  Below: the statement for every input outside the finding
   (pad_model_is_iso), the exact characterisation inside it (pad_model_is_iso_kf: model = iso_pad_kf for ALL inputs), and the proof that the
   deviation is real whenever the predicate holds (kf_exact).  [firstn cap] because surplus bits beyond the capacity are dropped later.''',
   items=[('Lemmas/PadLemmas.v', ['terminator_table', 'pad_model_is_iso', 'pad_model_is_iso_kf', 'kf_exact', 'iso_pad_kf_is_iso',
                                  'iso_pad_length', 'iso_pad_prefix', 'iso_pad_suffix'])]),
 'C03': dict(title='Reed-Solomon block layout and correctability',
   imports='Ref.IsoData Ref.Gf256 Ref.Rs Ref.Spec Ref.Decoder Model.Bits Model.Segment Model.Version Model.Stream Lemmas.RsModel Lemmas.BlockLemmas',
   intro='''The field is GF(256) = GF(2)[x]/(x^8+x^4+x^3+x^2+1) with alpha = 2 (Ref/Gf256.v: the log/antilog tables of the
   source are proved to be the powers of alpha under multiplication by x mod 0x11D, field laws derived from that);
   a word is a codeword iff it vanishes at alpha^0 .. alpha^(ec-1) (Spec.syndromes_zero).''',
   items=[('Lemmas/RsModel.v', ['gen_poly_roots_ok', 'division_is_rs_rem', 'error_words_total', 'error_words_valid',
                                'rs_words_unique_decoding', 'error_words_unique_decoding']),
          ('Lemmas/BlockLemmas.v', ['ecc_facts', 'deinterleave_interleave', 'read_blocks_of_final_message', 'make_final_message_total'])]),
 'C04': dict(title='smallest fitting symbol; overflow reported, never truncated',
   imports='Ref.IsoData Ref.Spec Model.Bits Model.Segment Model.Version Lemmas.VersionLemmas',
   intro='''spec_version = first version of the admissible order M1 < M2 < M3 < M4 < 1 < ... < 40 whose ISO capacity holds mode
   indicator + count indicator + payload (+ ECI header / Hanzi subset / Structured Append header) bits (Ref/Spec.v).''',
   items=[('Lemmas/VersionLemmas.v', ['bit_length_spec', 'capacity_spec', 'find_version_spec', 'find_version_sound',
                                      'find_version_overflow', 'find_version_kind', 'find_version_total'])]),
 'C05': dict(title='error level never below the request; boosting keeps the version',
   imports='Ref.IsoData Ref.Spec Model.Bits Model.Segment Model.Version Lemmas.VersionLemmas',
   intro='''spec_boost = the highest level defined for the version whose capacity still holds the content, not below the request.
   The version is computed before boosting (Model/Encode.v encode: find_version, then encode_core boosts), so it cannot change.''',
   items=[('Lemmas/VersionLemmas.v', ['boost_none', 'boost_multi', 'boost_H', 'boost_spec', 'boost_never_lower',
                                      'boost_micro_no_H', 'boost_micro_no_Q'])]),
 'C06': dict(title='requested mask used; automatic mask minimises the ISO penalty',
   imports='Ref.MaskCond Ref.Decoder Ref.Spec Model.Bits Model.Matrix Lemmas.MaskLemmas',
   intro='''iso_penalty / iso_micro_score: ISO 7.8.3.1 / 7.8.3.2 written independently (Ref/Spec.v); best_index = first minimum (QR)
   / first maximum (Micro).  The evaluated matrix has the format/version areas and the dark module position light.''',
   items=[('Lemmas/MaskLemmas.v', ['mask_fn_is_iso', 'n1_line_is_iso', 'n2_is_iso', 'n3_line_is_iso', 'n4_is_iso',
                                   'evaluate_mask_is_iso', 'evaluate_micro_is_iso', 'find_and_apply_best_mask_is_iso'])]),
 'C07': dict(title='most compact applicable mode; requested mode honoured or refused',
   imports='Ref.IsoData Ref.Spec Model.Bits Model.Segment Lemmas.ModeLemmas',
   intro='''spec_mode = first applicable of numeric, alphanumeric (ISO Table 5), kanji (valid Shift JIS double bytes), byte.''',
   items=[('Lemmas/ModeLemmas.v', ['find_mode_is_spec', 'find_mode_never_hanzi', 'make_segment_auto', 'make_segment_auto_total',
                                   'make_segment_requested', 'make_segment_refusal', 'make_segment_accepts', 'make_segment_count'])]),
}

STMT = re.compile(r'^(Theorem|Lemma|Corollary)\s+(\w+)(.*?)\.\s*\nProof', re.S | re.M)


def statements(path):
    txt = open(os.path.join(HERE, 'theories', path)).read()
    txt_nc = re.sub(r'\(\*.*?\*\)', lambda m: ' ' * len(m.group(0)), txt, flags=re.S)
    out = {}
    for m in STMT.finditer(txt_nc):
        kind, name, rest = m.group(1), m.group(2), m.group(3)
        # split binders from statement at the first top-level ':'
        depth = 0
        idx = None
        for i, ch in enumerate(rest):
            if ch in '([{':
                depth += 1
            elif ch in ')]}':
                depth -= 1
            elif ch == ':' and depth == 0 and rest[i:i + 2] != ':=':
                idx = i
                break
        if idx is None:
            continue
        binders, stmt = rest[:idx].strip(), rest[idx + 1:].strip()
        out[name] = ('forall %s, %s' % (binders, stmt)) if binders else stmt
    return out


def main():
    for pid, spec in SPEC.items():
        lines = ['(* %s -- %s.' % (pid, spec['title']),
                 '   GENERATED by gen/props.py: every statement below is copied verbatim from the lemma file and closed by [exact]. *)',
                 'From Coq Require Import String.', 'From Coq Require Import ZArith List Bool.',
                 'From Segno Require Import Base.PyLite %s.' % spec['imports'], 'Import ListNotations.', 'Open Scope Z_scope.', '',
                 '(* %s *)' % spec['intro'], '']
        names = []
        for path, wanted in spec['items']:
            if not os.path.exists(os.path.join(HERE, 'theories', path)):
                continue
            st = statements(path)
            if wanted == ['*']:
                continue
            for n in wanted:
                if n not in st:
                    print('WARNING: %s not found in %s' % (n, path), file=sys.stderr)
                    continue
                lines.append('Theorem %s_%s :\n  %s.\nProof. exact (@%s). Qed.\n' % (pid, n, st[n], n))
                names.append('%s_%s' % (pid, n))
        lines += ['Print Assumptions %s.' % n for n in names]
        open(os.path.join(HERE, 'theories', 'Props', pid + '.v'), 'w').write('\n'.join(lines) + '\n')
        print(pid, len(names))


if __name__ == '__main__':
    main()
