#!/usr/bin/env python3
"""Generates theories/Props/Cxx.v from the lemma files: each property theorem is RESTATED in full (statement text
copied from the lemma file) and closed by `exact <lemma>`, followed by Print Assumptions.  Run by hand when lemma
files change; the generated files are committed and are what `coqc` re-checks."""
import os, re, sys
HERE = os.path.dirname(os.path.dirname(os.path.abspath(__file__)))

SPEC = {
 'C10': dict(title='SVG output paints exactly the dark modules; page size, colours, escaping',
   imports='Ref.IsoData Model.Iter Model.Color Model.Svg Ref.SvgReader Lemmas.SvgLemmas',
   intro='''Model/Svg.v = write_svg (all options, two-colour and per-module-type paths) as exact text; Ref/SvgReader.v = independent XML 1.0 / SVG 1.1 reader
   (lexer, entity decoding, path data M m L l H h V v Z z, group / path scale transforms) and the geometry of unit-wide butt-capped strokes.
   For every matrix, integer scale z >= 1 and border: reading the written document gives one stroked path whose cells are exactly the dark modules shifted
   by the border (NoDup, inside the page), page = (size + 2b) * z, stroke = web colour of the dark colour, a light colour is a filled rectangle over the whole
   page (whenever a light colour is given, independent of draw_transparent: svg_page), title / desc / id / class round-trip through the reader.
   Numbers are in HALF units.  Fractional scales: reader oracle only (Ref/SvgReaderDec.v).  EPS / PDF / PGF: Props/C10_vector.v.''',
   items=[('Lemmas/SvgLemmas.v', ['parse_path_data_roundtrip', 'rows_dark_spec', 'escape_spec', 'quoteattr_spec', 'svg_dark_cells', 'svg_page', 'svg_escape',
                                  'svg_title_escaped', 'svg_desc_escaped', 'svg_colourful_cells', 'colourful_cell_in_page'])]),
 'C10_vector': dict(title='EPS, PDF and PGF/TikZ outputs paint exactly the dark modules; PDF /Length and cross-reference table',
   imports='Ref.IsoData Model.Iter Model.Color Model.Vector Ref.VectorReader Lemmas.VectorLemmas',
   intro='''Model/Vector.v = write_eps / write_pdf (deflate and str(float) of colour components are parameters) / write_tex as exact bytes;
   Ref/VectorReader.v = independent readers (DSC header + PostScript subset, PDF file structure + content stream operators, PGF basic layer) returning the
   painting in device space as exact rationals.  For every matrix, integer scale s >= 1 and border: one stroke of width s whose cells
   (VectorReader.stroke_cells) are VectorLemmas.dark_cells m b, BoundingBox / MediaBox = (size + 2b) * s, optional page fill with the light colour first,
   /Length = stream length and every xref entry of objects 1..5 points at "n 0 obj" for ANY stream bytes; refusals are exactly the invalid scale / border /
   colours (ValueError).  The statements are the types of the lemma constants (printed by Check): several live in Sections over deflate / color_text.''',
   items=[('Lemmas/VectorLemmas.v', ['@dark_cells_spec', '@dark_cells_NoDup', '@dark_cells_on_page', '@nice_segs_cover', '@tex_segs_cover',
                                     '@pdf_dark_cells', '@pdf_page', '@pdf_length_ok', '@pdf_xref_ok', '@write_pdf_errors', '@write_pdf_ValueError_iff',
                                     '@eps_dark_cells', '@write_eps_errors', '@write_eps_ValueError_iff',
                                     '@tex_dark_cells', '@write_tex_errors', '@write_tex_ValueError_iff'])]),
 'C16': dict(title='helper payloads parse back to exactly the given fields',
   imports='Ref.IsoData Ref.Spec Model.Bits Model.Segment Model.Version Model.Color Model.Helpers Ref.HelpersReader Lemmas.VersionLemmas Lemmas.HelpersLemmas Lemmas.EpcVersionLemma',
   intro='''Model/Helpers.v = make_wifi_data, make_mecard_data, make_vcard_data, make_geo_data, make_make_email_data, _make_epc_qr_data over strings of
   arbitrary code points; Ref/HelpersReader.v = independent readers written from the format descriptions (KEY:value; with backslash escapes, RFC 2425/2426
   content lines, RFC 3986 percent-encoding + RFC 3629 UTF-8, RFC 5870, EPC069-12 line layout).  Hypotheses that stay visible in the statements: vCard
   birthday / rev / coordinates are inserted verbatim (no CR/LF, guaranteed by the date regex ending in \\Z and by str(float)); mailto recipients are inserted
   verbatim (no '?' / '&'); EPC fields contain no LF.  CPython oracle inputs of the model: str.upper(), the date regex, str(float), codec encodability.
   That the factory symbols decode to these payloads is C01 (Props/C01.v) applied to the payload.  EPC: a byte segment of <= 331 bytes at level M gets
   a version in 1..13 (epc_version_le_13; 13-M holds exactly 331 bytes); level M is the requested level because boosting is switched off.''',
   items=[('Lemmas/HelpersLemmas.v', ['mecard_escape_roundtrip', 'escape_mecard_no_unescaped_delims', 'escape_mecard_even_trailing_backslashes',
                                      'wifi_fields', 'wifi_fields_ascii', 'mecard_fields', 'mecard_adr_components',
                                      'escape_vcard_no_crlf', 'escape_vcard_name_no_crlf', 'vcard_escape_roundtrip', 'vcard_escape_name_roundtrip',
                                      'vcard_struct_roundtrip', 'vcard_one_line_per_value', 'vcard_errors',
                                      'geo_uri', 'utf8_roundtrip', 'unquote_quote_bytes', 'quote_utf8_roundtrip', 'mailto_uri', 'mailto_errors',
                                      'epc_amount_value', 'epc_amount_exact', '@epc_layout', '@epc_errors', '@epc_refusals_lengths',
                                      '@epc_refusals_amount', '@epc_refusals_size']),
          ('Lemmas/EpcVersionLemma.v', ['epc_version_finite', 'epc_version_le_13'])]),
 'C09_netpbm': dict(title='PBM (P4/P1), PAM and PPM outputs',
   imports='Ref.IsoData Ref.Pixel Model.Iter Model.Color Model.Netpbm Ref.NetpbmReader Lemmas.NetpbmLemmas',
   intro='''Companion of Props/C09.v for the Netpbm family: independent readers (Ref/NetpbmReader.v, strict: the raster must have exactly the
   declared size) applied to the writer models give the pixel grid; PAM: every tuple denotes the requested dark / light RGBA (transparent when light is None).''',
   items=[('Lemmas/NetpbmLemmas.v', ['pbm_roundtrip', 'pack_row_unpack', 'pack_row_padding', 'pam_roundtrip', 'ppm_roundtrip', 'write_pbm_error',
                                     'write_pam_error_iff', 'write_pam_only_ValueError', 'write_ppm_colorful_only_ValueError'])]),
 'C09': dict(title='raster and text outputs depict exactly the symbol with its quiet zone',
   imports='Ref.IsoData Ref.Pixel Model.Iter Model.Color Model.TextFmt Ref.TextFmtReader Model.Png Ref.PngReader Lemmas.IterLemmas Lemmas.TextFmtLemmas Lemmas.PngLemmas',
   intro='''pixel_grid (Ref/Pixel.v): pixel (x, y) of the (size+2b)*s square shows module (y div s - b, x div s - b), light outside the symbol.
   For every format: an executable model of segno's writer and an INDEPENDENT reader written from the format definition; reader (writer m) =
   pixel_grid, with the declared dimensions equal to the data dimensions, for matrices / scales / borders of unbounded size.
   PNG: DEFLATE is a parameter (inflate (deflate l) = Some l); chunk lengths and CRC-32 are proved for every chunk.  PBM/PAM/PPM: Props/C09_netpbm.v.''',
   items=[('Lemmas/IterLemmas.v', ['iter_rows_is_pixel_grid', 'iter_rows_pixel', 'matrix_iter_spec', 'matrix_iter_only_ValueError']),
          ('Lemmas/TextFmtLemmas.v', ['txt_roundtrip', 'xbm_roundtrip', 'xbm_pack_unpack', 'xpm_roundtrip', 'terminal_roundtrip', 'terminal_compact_roundtrip',
                                     'write_xbm_errors', 'write_xpm_errors']),
          ('Lemmas/PngLemmas.v', ['crc32_matches_spec', 'row_samples_pack', 'png_wellformed', 'png_roundtrip_two_colours', 'png_roundtrip_opts',
                                  'png_err_scale', 'png_err_border', 'png_clr_map_err_class'])]),
 'C11_iter': dict(title='module iteration with scale and border; per-type colouring',
   imports='Ref.IsoData Ref.Pixel Model.Iter Model.Color Model.Png Ref.PngReader Lemmas.IterLemmas Lemmas.PngLemmas',
   intro='''Companion of Props/C11.v (classification): shape of matrix_iter / matrix_iter_verbose for unbounded scale and border, refusals, and the
   colourful PNG theorem (pixel = colour configured for the module type).  Colourful SVG: Props/C10.v; colourful PPM: Props/C09_netpbm.v.''',
   items=[('Lemmas/IterLemmas.v', ['iter_rows_is_pixel_grid', 'matrix_iter_error_iff', 'iter_verbose_rows_pixel', 'iter_verbose_rows_length']),
          ('Lemmas/PngLemmas.v', ['png_roundtrip_opts'])]),
 'C12': dict(title='all output routes give the same document for the same symbol and options',
   imports='Ref.IsoData Model.Color Model.Route Lemmas.RouteLemmas',
   intro='''Only the ROUTING LOGIC is modelled (Model/Route.v): kind / extension resolution of writers.save, svgz, sequence file names, and which command
   line values reach a serializer (cli.build_config) -- over tables dumped from the current source (serializer keys, keyword sets, argparse defaults,
   serializer defaults).  That the same (serializer, keywords) gives the same bytes on every route is the determinism of the Python functions: sampled.''',
   items=[('Lemmas/RouteLemmas.v', ['resolve_kind_case', 'resolve_unknown', 'resolve_total', 'resolve_kinds', 'resolve_svgz', 'cli_defaults_agree',
                                    'cli_passes_only_supported', 'ext_tables_agree', 'sequence_filename_single', 'sequence_filename_shape'])]),
 'C01': dict(title='every symbol decodes back to exactly the content that was given',
   imports='Ref.IsoData Ref.Geometry Ref.Bch Ref.MaskCond Ref.Decoder Ref.Spec Model.Bits Model.Segment Model.Version Model.Stream Model.Matrix Model.Encode Lemmas.PackLemmas Lemmas.PadLemmas Lemmas.BlockLemmas Lemmas.PlaceLemmas Lemmas.ParseLemmas Lemmas.VersionLemmas Lemmas.IdemLemmas Lemmas.ExnLemmas Lemmas.RoundTrip',
   intro='''Decoder.decode_symbol is a reference reader written from ISO/IEC 18004 (format read, mask release, zig-zag reading, Table 9
   de-interleaving, segment parsing), independent of the encoder model.  encode_decodes: for EVERY content (byte strings of any length, any
   codec results) and every accepted option combination the decoder returns exactly the encoded segments, and the concatenated segment bytes
   are the concatenated part bytes (nothing lost, added, reordered).  Text -> bytes is CPython's codec (oracle inputs of the model).''',
   items=[('Lemmas/PackLemmas.v', ['numeric_roundtrip', 'alnum_roundtrip', 'byte_roundtrip', 'kanji_roundtrip', 'hanzi_roundtrip', 'merge_pack']),
          ('Lemmas/ParseLemmas.v', ['write_segments_parse_qr', 'write_segments_parse_micro', 'count_fits']),
          ('Lemmas/BlockLemmas.v', ['toints_bits_roundtrip', 'deinterleave_interleave']),
          ('Lemmas/PlaceLemmas.v', ['read_stream_of_model']),
          ('Lemmas/RoundTrip.v', ['data_positions_count', 'decode_of_encode_core', 'encode_decodes', 'encode_decodes_eci', 'decode_of_encode_core_sa'])]),
 'C08': dict(title='Structured Append sequences reassemble to the original message',
   imports='Ref.IsoData Ref.Spec Model.Bits Model.Segment Model.Version Model.Stream Model.Matrix Model.Encode Model.Sequence Lemmas.PackLemmas Lemmas.VersionLemmas Lemmas.SeqLemmas',
   intro='''Model/Sequence.v encode_sequence.  The statement "every chunk fits its symbol" is FALSE on the version= path (known finding D14
   `kf_sa_chunk_overflow`): C08_refuted_fit exhibits 71 digits at version 1-L (a chunk of 154 bits in a 152-bit symbol); seq_fits_partial /
   seq_fits_stream prove the fit for every input on which no chunk overflows.  On the symbol_count= path every chunk fits, without side condition
   (seq_fits_symbol_count: the version is the highest one any chunk needs; repo fix fbe1a02).  Chunking, headers, parity, counts and versions hold for ALL inputs.
   That each symbol decodes to its chunk is C01 (Lemmas/RoundTrip.v) applied to the per-symbol encode_core call exposed by encode_chunks_headers.''',
   items=[('Lemmas/SeqLemmas.v', ['chunks_partition', 'chunks_count', 'chunks_sizes', 'chunks_bytes_concat', 'xor_all_spec', 'xor_bytes_concat',
                                  'encode_sequence_multi_shape', 'encode_chunks_headers', 'encode_chunks_versions', 'C08_model_multi',
                                  'seq_count_bounds', 'seq_never_micro', 'seq_symbol_count', 'seq_fixed_version', 'C08_refuted_fit',
                                  'seq_fits_partial', 'seq_fits_stream', 'seq_fits_symbol_count'])]),
 'C14': dict(title='arguments are honoured or refused with ValueError; nothing else escapes',
   imports='Base.PyCase Ref.IsoData Ref.Spec Model.Bits Model.Segment Model.Version Model.Stream Model.Matrix Model.Encode Model.Sequence Model.Color Model.Args Lemmas.VersionLemmas Lemmas.ExnLemmas',
   intro='''Model/Args.v encode_args = encoder.encode with RAW arguments (None / bool / int / str; py_upper / py_lower = Base/PyCase.v: Python's
   str.upper() / lower() as far as ASCII characters are concerned, e.g. the Kelvin sign lowers to 'k').  allowed e := ValueError, DataOverflow
   (a ValueError), UnicodeErr (a ValueError) or LookupErr (unknown codec).  IndexErr, KeyErr, TypeErr, AssertErr, AttributeErr are proved unreachable.
   Serializer arguments: see the refusal theorems of the format lemma files (C09/C10); command line process behaviour: correspondence only.''',
   items=[('Lemmas/ExnLemmas.v', ['normalize_version_exn', 'normalize_mode_exn', 'normalize_errorlevel_exn', 'normalize_mask_exn',
                                  'normalize_version_ok', 'normalize_version_int', 'normalize_version_str_int', 'normalize_version_str_iff', 'normalize_version_upper',
                                  'normalize_mode_str_iff', 'normalize_mode_lower', 'normalize_errorlevel_str_iff', 'normalize_errorlevel_str_ascii', 'normalize_errorlevel_upper',
                                  'normalize_mask_int', 'normalize_mask_str_int',
                                  'encode_args_exn_class_gen', 'encode_args_exn_class_content', 'encode_args_no_internal_error',
                                  'excluded_H_micro', 'excluded_eci_micro', 'excluded_mode_version', 'excluded_hanzi_micro', 'excluded_version',
                                  'excluded_mask', 'excluded_mask_micro', 'encode_args_mask_range', 'encode_args_spelling'])]),
 'C15': dict(title='encoding is pure: deterministic, history-free, thread-safe, idempotent',
   imports='Ref.IsoData Ref.Spec Model.Bits Model.Segment Model.Version Model.Stream Model.Matrix Model.Encode Lemmas.VersionLemmas Lemmas.IdemLemmas',
   intro='''The model is a Gallina FUNCTION: determinism and history independence hold of it by construction; that segno refines this function under every
   history and in threads is checked by correspondence (sampled).  Proved here: re-encoding with the reported version / level / mask and boosting
   disabled returns the very same record.  The hypothesis about `mode` is NECESSARY: idem_counterexample shows a global mode that no part uses
   (parts carrying their own mode) is only checked against the version when a version is requested (contrived; outside the documented content types).''',
   items=[('Lemmas/IdemLemmas.v', ['encode_idempotent_eq', 'encode_idempotent', 'encode_idempotent_parts', 'encode_idempotent_mode_needed',
                                   'encode_version_independent_of_mask', 'encode_boost_keeps_version'])]),
 'C02': dict(title='geometry, function patterns, format and version information follow ISO 18004',
   imports='Ref.IsoData Ref.Geometry Ref.Bch Ref.Decoder Ref.Spec Model.Bits Model.Segment Model.Version Model.Stream Model.Matrix Model.Encode Lemmas.TableLemmas Lemmas.GeomLemmas',
   intro='''c02_check rows v level mask = [] (Ref/Spec.v) means: square of the ISO size; every finder / separator / timing / alignment /
   dark module has the value ISO prescribes (iso_function_value, Annex E positions by formula); both format copies read back (ISO Fig. 25
   positions) as BCH(15,5)(level, mask) xor the mask constant; for v >= 7 both version copies (Fig. 27) as Golay(18,6)(v).
   encode_core_c02 holds for ARBITRARY segments / data bits.''',
   items=[('Lemmas/TableLemmas.v', ['format_info_is_bch', 'format_info_micro_is_bch', 'version_info_is_golay', 'alignment_pos_is_annex_e',
                                    'capacity_is_data_codewords']),
          ('Lemmas/GeomLemmas.v', ['encode_core_c02', 'encode_core_function_patterns', 'encode_core_format_copies',
                                   'encode_core_version_copies'])]),
 'C13': dict(title='terminator and padding per ISO 7.4.9 / 7.4.10',
   imports='Ref.IsoData Ref.Spec Model.Bits Model.Stream Lemmas.PadLemmas',
   intro='''iso_pad v cap stream (Ref/Spec.v) = the ISO padded data bit stream: terminator min(cap - len, T(v)) zero bits, zero bits to the
   codeword boundary only if not already on one, pad codewords 11101100 / 00010001 alternately, final 0000 for M1/M3.
   FULL STATEMENT (pad_model_is_iso without the kf hypothesis) is FALSE of the unchanged code: known finding D1 `kf_pad_aligned`
   (an already aligned terminated stream gets one extra 00000000 codeword).  Below: the statement for every input outside the finding
   (pad_model_is_iso), the exact characterisation inside it (pad_model_is_iso_kf: model = iso_pad_kf for ALL inputs), and the proof that the
   deviation is real whenever the predicate holds (kf_exact).  [firstn cap] because surplus bits beyond the capacity are dropped later.''',
   items=[('Lemmas/PadLemmas.v', ['terminator_table', 'pad_model_is_iso', 'pad_model_is_iso_kf', 'kf_exact', 'iso_pad_kf_is_iso',
                                  'iso_pad_length', 'iso_pad_prefix', 'iso_pad_suffix'])]),
 'C03': dict(title='Reed-Solomon block layout and correctability',
   imports='Ref.IsoData Ref.Gf256 Ref.Rs Ref.Spec Ref.Decoder Model.Bits Model.Segment Model.Version Model.Stream Lemmas.RsModel Lemmas.BlockLemmas',
   intro='''The field is GF(256) = GF(2)[x]/(x^8+x^4+x^3+x^2+1) with alpha = 2 (Ref/Gf256.v: the log/antilog tables of the
   source are proved to be the powers of alpha under multiplication by x mod 0x11D, field laws derived from that);
   a word is a codeword iff it vanishes at alpha^0 .. alpha^(ec-1) (Spec.syndromes_zero).''',
   items=[('Lemmas/RsModel.v', ['gen_poly_roots_ok', 'division_is_rs_rem', 'error_words_total', 'error_words_valid',
                                'rs_words_unique_decoding', 'error_words_unique_decoding']),
          ('Lemmas/BlockLemmas.v', ['ecc_facts', 'deinterleave_interleave', 'read_blocks_of_final_message', 'make_final_message_total'])]),
 'C04': dict(title='smallest fitting symbol; overflow reported, never truncated',
   imports='Ref.IsoData Ref.Spec Model.Bits Model.Segment Model.Version Lemmas.VersionLemmas',
   intro='''spec_version = first version of the admissible order M1 < M2 < M3 < M4 < 1 < ... < 40 whose ISO capacity holds mode
   indicator + count indicator + payload (+ ECI header / Hanzi subset / Structured Append header) bits (Ref/Spec.v).''',
   items=[('Lemmas/VersionLemmas.v', ['bit_length_spec', 'capacity_spec', 'find_version_spec', 'find_version_sound',
                                      'find_version_overflow', 'find_version_kind', 'find_version_total'])]),
 'C05': dict(title='error level never below the request; boosting keeps the version',
   imports='Ref.IsoData Ref.Spec Model.Bits Model.Segment Model.Version Lemmas.VersionLemmas',
   intro='''spec_boost = the highest level defined for the version whose capacity still holds the content, not below the request.
   The version is computed before boosting (Model/Encode.v encode: find_version, then encode_core boosts), so it cannot change.''',
   items=[('Lemmas/VersionLemmas.v', ['boost_none', 'boost_multi', 'boost_H', 'boost_spec', 'boost_never_lower',
                                      'boost_micro_no_H', 'boost_micro_no_Q'])]),
 'C06': dict(title='requested mask used; automatic mask minimises the ISO penalty',
   imports='Ref.MaskCond Ref.Decoder Ref.Spec Model.Bits Model.Matrix Lemmas.MaskLemmas',
   intro='''iso_penalty / iso_micro_score: ISO 7.8.3.1 / 7.8.3.2 written independently (Ref/Spec.v); best_index = first minimum (QR)
   / first maximum (Micro).  The evaluated matrix has the format/version areas and the dark module position light.''',
   items=[('Lemmas/MaskLemmas.v', ['mask_fn_is_iso', 'n1_line_is_iso', 'n2_is_iso', 'n3_line_is_iso', 'n4_is_iso',
                                   'evaluate_mask_is_iso', 'evaluate_micro_is_iso', 'find_and_apply_best_mask_is_iso'])]),
 'C07': dict(title='most compact applicable mode; requested mode honoured or refused',
   imports='Ref.IsoData Ref.Spec Model.Bits Model.Segment Lemmas.ModeLemmas',
   intro='''spec_mode = first applicable of numeric, alphanumeric (ISO Table 5), kanji (valid Shift JIS double bytes), byte.''',
   items=[('Lemmas/ModeLemmas.v', ['find_mode_is_spec', 'find_mode_never_hanzi', 'make_segment_auto', 'make_segment_auto_total',
                                   'make_segment_requested', 'make_segment_refusal', 'make_segment_accepts', 'make_segment_count'])]),
}

STMT = re.compile(r'^(Theorem|Lemma|Corollary)\s+(\w+)(.*?)\.\s*\nProof', re.S | re.M)


def statements(path):
    txt = open(os.path.join(HERE, 'theories', path)).read()
    txt_nc = re.sub(r'\(\*.*?\*\)', lambda m: ' ' * len(m.group(0)), txt, flags=re.S)
    out = {}
    for m in STMT.finditer(txt_nc):
        kind, name, rest = m.group(1), m.group(2), m.group(3)
        # split binders from statement at the first top-level ':'
        depth = 0
        idx = None
        for i, ch in enumerate(rest):
            if ch in '([{':
                depth += 1
            elif ch in ')]}':
                depth -= 1
            elif ch == ':' and depth == 0 and rest[i:i + 2] != ':=':
                idx = i
                break
        if idx is None:
            continue
        binders, stmt = rest[:idx].strip(), rest[idx + 1:].strip()
        out[name] = ('forall %s, %s' % (binders, stmt)) if binders else stmt
    return out


def main():
    only = set(a.lower() for a in sys.argv[1:])      # optional: generate only the listed properties
    for pid, spec in SPEC.items():
        if only and pid.lower() not in only:
            continue
        lines = ['(* %s -- %s.' % (pid, spec['title']),
                 '   GENERATED by gen/props.py: every statement below is copied verbatim from the lemma file and closed by [exact]. *)',
                 'From Coq Require Import String.', 'From Coq Require Import ZArith List Bool.',
                 'From Segno Require Import Base.PyLite %s.' % spec['imports'], 'Import ListNotations.', 'Open Scope Z_scope.', '',
                 '(* %s *)' % spec['intro'], '']
        names = []
        for path, wanted in spec['items']:
            if not os.path.exists(os.path.join(HERE, 'theories', path)):
                continue
            st = statements(path)
            if wanted == ['*']:
                continue
            for n in wanted:
                # a leading '@' marks a theorem stated inside a Section whose keyword is not indented
                in_section = n.startswith('@')
                n = n.lstrip('@')
                if in_section or n not in st:
                    txt_all = open(os.path.join(HERE, 'theories', path)).read()
                    if re.search(r'^\s%s(Theorem|Lemma|Corollary)\s+%s\b' % ('*' if in_section else '+', re.escape(n)), txt_all, re.M):
                        # stated inside a Section (generalised over the section variables when the section closes):
                        # the statement is the type of the closed constant; it is printed by Check during compilation
                        lines.append('(* %s is stated inside a Section of %s; its closed type (with the section variables as leading foralls) is: *)\n'
                                     'Theorem %s_%s : ltac:(let t := type of (@%s) in exact t).\nProof. exact (@%s). Qed.\nCheck %s_%s.\n' % (n, path, pid, n, n, n, pid, n))
                        names.append('%s_%s' % (pid, n))
                        continue
                    print('WARNING: %s not found in %s' % (n, path), file=sys.stderr)
                    continue
                lines.append('Theorem %s_%s :\n  %s.\nProof. exact (@%s). Qed.\n' % (pid, n, st[n], n))
                names.append('%s_%s' % (pid, n))
        lines += ['Print Assumptions %s.' % n for n in names]
        open(os.path.join(HERE, 'theories', 'Props', pid + '.v'), 'w').write('\n'.join(lines) + '\n')
        print(pid, len(names))


if __name__ == '__main__':
    main()
