#!/usr/bin/env python3
"""Fail-closed translator for the SVG serializer of /repo/segno/writers.py -> Gallina (build/gen/SrcSvg.v:
src_write_svg = write_svg as it stands under its decorator (write_svg.__wrapped__, which takes the colormap dict), with its
nested helpers svg_color and matrix_to_lines_verbose; src_write_svg_colorful = the wrapper that
@colorful(dark='#000', light=None) puts around it, i.e. write_svg as the user calls it).

Built on gen/translate.py (Tr), translate_utils.py (TrU), translate_writers.py (TrW: output streams, str as code points,
f-strings, one-shot iterators as lists), translate_colors.py (TrC: isinstance narrowing, declared types of locals, the
@colorful wrapper) and translate_vector.py (TrV: int-or-float numbers with their exact value, the number kinds of
utils.matrix_to_lines, nested tuple targets, repr(float) as the parameter ext_q_repr); a few stateless pieces of
translate_png.py are reused (check_linear, the `sorted(.., key=len)` / `any(genexp)` rules).  Nothing of those files or of the
existing theories/Base/PySem*.v is edited.  This file adds, in the subclass TrSv and with the support library
theories/Base/PySemSvg.v:

* dicts keyed by colours (None / str / tuple of ints): locals declared as such (`xy`, `coordinates`, `paths`) are
  insertion-ordered association lists; `d[k]` (KeyError), `d[k] = v`, `del d[k]`, `d.items()`, `d.values()`, `d[k].append(v)`;
  `defaultdict(list)` / `defaultdict(lambda: <tuple>)`: a read of a missing key stores the default first (the read returns the
  value AND rebinds the dict); `{}`; such an object must have no second reference (check_dicts);
* `try: del d[k] / except KeyError: <body>` (a single atomic statement in the try body);
* a nested GENERATOR function without parameters (matrix_to_lines_verbose): desugared like the generators of utils.py
  (translate_utils.desugar_generator) into the list of yielded items, kept unevaluated until the generator is consumed; the
  items have a DECLARED type, every `yield` is coerced to it; nested functions that read variables which are (re)bound after
  the `def` are moved behind the last such statement (the rule of translate_png.py);
* a local that holds an int on one path and a colour on another (`last_color`): declared as a sum; yielding the int where a
  colour is declared is outside the typing (Err py_unmodelled, never caught);
* tuple displays are records (fixed length), float literals are int-or-float numbers with their exact value (`j = -.5`,
  `svgversion >= 2.0`), `x += n` on such numbers and on str, ordering comparisons of such numbers;
* `a or b` on str values (`unit = unit or ''`), `x is None` as a value, `if x is None` decided statically where the type
  decides it, variables bound in one branch of an `if` only and read later (None on the other path; a read of None is
  TypeErr, the stand-in for UnboundLocalError of translate.py);
* `isinstance(clr, tuple)` on the result of _color_to_webcolor (a str or a (str, alpha) tuple) with rebinding in the branch;
* `len(set(xs))` for a list of colours, `any(<generator expression whose items may raise>)`, `sorted(xs, key=len)`,
  `d.items()` / `d.values()` of the int-keyed colormap, `s.replace(a, b)`, `'{a}..{b}'.format(a=.., b=..)`;
* xml.sax.saxutils.escape / quoteattr: fixed semantics (PySemSvg.py_xml_escape / py_xml_quoteattr) accepted only while
  inspect.getsource of escape, quoteattr and __dict_replace is literally SAXUTILS_EXPECTED and the call passes one argument;
* `re.sub(<literal pattern>, <literal>, s)` -> the PARAMETER ext_re_sub (the regular expression engine is C code);
  repr(float) -> ext_q_repr (exact-value floats) / ext_float_repr (binary64 alpha values), as in translate_vector.py;
* `with writable(out, 'wt', encoding=enc) as f:` -> the function returns the pair (enc, what was written).

Nothing here decides a property: it regenerates Coq text which coqc checks against Model/Svg.v through the bridge theorems
theories/Tie/TieSvg.v.

Usage: translate_svg.py <repo> <outdir>      (prints a JSON status report on stdout)
"""
import ast
import collections
import importlib
import inspect
import json
import os
import re
import string
import sys
import textwrap

sys.path.insert(0, os.path.dirname(os.path.abspath(__file__)))
import translate as T                                                    # noqa: E402
import translate_utils as TU                                             # noqa: E402
import translate_writers as TW                                           # noqa: E402
import translate_colors as TC                                            # noqa: E402
import translate_vector as TVm                                           # noqa: E402
import translate_png as TPm                                              # noqa: E402
from translate import Tr, Ctx, Untranslatable, write_if_changed, contains, is_list, z, lst  # noqa: E402
from translate_utils import _Done, _Wrap                                 # noqa: E402
from translate_writers import cps, find_top, is_gen, _Iter, STREAMS, STREAM_ITEM, NEW_STREAM  # noqa: E402
from translate_vector import TrV, VNUM, vtype, qlit, is_float_lit       # noqa: E402

T.COQ_RESERVED.update({'PySemSvg', 'SrcSvg', 'ext_re_sub', 'c_', 'xs_', 'd_', 'v_', 'w_', 'inl', 'inr', 'py_cd_get', 'py_cd_set'})

OCOLOR = 'ocolor'
EITHER = ('either', 'Z', OCOLOR)                   # the int -1 (invalid_color) or a colour
SEG = ('tuple', VNUM, VNUM, VNUM)                  # (x, y, length) / (x1, x2, y)
ITEM = ('tuple', OCOLOR, SEG)                      # what `miter` yields: colour, (x1, x2, y)
XY = ('tuple', VNUM, VNUM)
WEB = 'webcolor'
OWEB = ('opt', WEB)
WTUP = TC.WTUP

HEADER_S = ('(* GENERATED by gen/translate_svg.py from the current /repo working tree -- do not edit. *)\n'
            'From Coq Require Import String.\n'
            'From Coq Require Import ZArith QArith List Bool PrimFloat.\n'
            'Import ListNotations.\n'
            'Open Scope Z_scope.\n'
            'From Segno Require Import Base.PyLite Base.PySem Base.PySemExt Base.PySemGen Base.PySemIO Base.PySemSeg '
            'Base.PySemColor Base.PySemPng Base.PySemVec Base.PySemSvg.\n'
            'From SegnoSrc Require SrcTables.\n')

# the parameters that stand for C code: name -> (Coq type, what it is)
EXTS = [('ext_q_repr', 'Q -> list Z', 'repr / str of a float, given by its exact value as a reduced fraction'),
        ('ext_float_repr', 'py_float -> list Z', 'repr of a binary64 value (the alpha values of _color_to_webcolor)'),
        ('ext_re_sub', 'list Z -> list Z -> list Z -> list Z', 're.sub(pattern, repl, string)')]

SAXUTILS_EXPECTED = '''
def escape(data, entities={}):
    data = data.replace("&", "&amp;")
    data = data.replace(">", "&gt;")
    data = data.replace("<", "&lt;")
    if entities:
        data = __dict_replace(data, entities)
    return data

def quoteattr(data, entities={}):
    entities = {**entities, '\\n': '&#10;', '\\r': '&#13;', '\\t':'&#9;'}
    data = escape(data, entities)
    if '"' in data:
        if "'" in data:
            data = '"%s"' % data.replace('"', "&quot;")
        else:
            data = "'%s'" % data
    else:
        data = '"%s"' % data
    return data

def __dict_replace(s, d):
    for key, value in d.items():
        s = s.replace(key, value)
    return s
'''


def saxutils_ok():
    try:
        import xml.sax.saxutils as sx
        got = ''.join(textwrap.dedent(inspect.getsource(f)) + '\n' for f in (sx.escape, sx.quoteattr, sx.__dict__['__dict_replace']))
        return ast.dump(T.strip_docstrings(ast.parse(got))) == ast.dump(T.strip_docstrings(ast.parse(SAXUTILS_EXPECTED)))
    except Exception:
        return False


def svtype(t):
    """Coq type of a type of the fragment (vtype of translate_vector.py plus the dicts keyed by colours)"""
    if isinstance(t, tuple) and t[0] == 'cdict':
        return 'list (option py_color * %s)' % svtype(t[1])
    if isinstance(t, tuple) and t[0] == 'either':
        return '((%s) + (%s))%%type' % (svtype(t[1]), svtype(t[2]))
    if isinstance(t, tuple) and t[0] in ('list', 'iter', 'gen'):
        return 'list (%s)' % svtype(t[1])
    if isinstance(t, tuple) and t[0] == 'lazygen':
        return 'res (list (%s))' % svtype(t[1])
    if isinstance(t, tuple) and t[0] in ('tuple', 'prod'):
        return '(%s)' % ' * '.join(svtype(x) for x in t[1:])
    if isinstance(t, tuple) and t[0] == 'opt':
        return 'option (%s)' % svtype(t[1])
    if isinstance(t, tuple) and t[0] == 'dictZ':
        return 'list (Z * %s)' % svtype(t[1])
    return vtype(t)


def is_cdict(t):
    return isinstance(t, tuple) and t[0] == 'cdict'


def is_tuple_t(t):
    return isinstance(t, tuple) and t[0] == 'tuple'


class TrSv(TrV):
    def __init__(self, *args, **kw):
        TrV.__init__(self, *args, **kw)
        self.lit = {}
        self.yield_type = None            # declared item type of the generator being translated (the hidden list `yielded`)

    def sub_translator(self, env):
        sub = TrV.sub_translator(self, env)
        sub.var_decl = dict(self.var_decl)
        sub.late = set(self.late)
        return sub

    # ---------------------------------------------------------------- types
    def join(self, a, ta, b, tb):
        if ta == tb:
            return ta
        if {ta, tb} == {'Z', VNUM}:
            return VNUM
        if is_gen(ta) and is_gen(tb):
            kind = 'lazygen' if 'lazygen' in (ta[0], tb[0]) else 'gen'
            return (kind, self.join('', ta[1], '', tb[1]))
        if is_list(ta) and is_list(tb) and '?' not in (ta[1], tb[1]) and not (ta[1] in TC.NUM and tb[1] in TC.NUM):
            return ('list', self.join('', ta[1], '', tb[1]))
        return TrV.join(self, a, ta, b, tb)

    def coerce(self, term, frm, to):
        if frm == to:
            return term
        if to == EITHER and frm == 'Z':
            return '(inl %s)' % term
        if to == EITHER and frm == OCOLOR:
            return '(inr %s)' % term
        if to == EITHER and frm == 'color':
            return '(inr (Some %s))' % term
        if to == EITHER and frm == 'oZ' and term == 'None':
            return '(inr None)'
        if frm == 'oZ' and term == 'None' and isinstance(to, tuple) and to[0] == 'opt':
            return 'None'
        if is_gen(frm) and is_gen(to) and (frm[0] == to[0] or to[0] == 'lazygen'):
            inner = None if frm[1] == to[1] else self.coerce('x_', frm[1], to[1])
            if frm[0] == 'gen' and to[0] == 'gen':
                return '(map (fun x_ => %s) %s)' % (inner, term)
            if frm[0] == 'gen':
                return '(Ok %s)' % (term if inner is None else '(map (fun x_ => %s) %s)' % (inner, term))
            return '(do xs_ <- %s; Ok (map (fun x_ => %s) xs_))' % (term, inner)
        if is_list(frm) and is_list(to) and '?' not in (frm[1], to[1]) and frm[1] not in TC.NUM:
            return '(map (fun x_ => %s) %s)' % (self.coerce('x_', frm[1], to[1]), term)
        if is_tuple_t(frm) and is_tuple_t(to) and len(frm) == len(to):
            # as Tr.coerce, with names that do not clash when the coercions nest
            self.counter += 1
            vs = ['x%d_%d' % (k, self.counter) for k in range(1, len(frm))]
            return "(let '(%s) := %s in (%s))" % (', '.join(vs), term,
                                                ', '.join(self.coerce(v, x, y) for v, x, y in zip(vs, frm[1:], to[1:])))
        return TrV.coerce(self, term, frm, to)

    def expr_as(self, e, want):
        """e translated as a value of the declared type `want`; a tuple display is coerced item by item.  A value of a sum
        type where one of its sides is declared is outside the typing on the other side (Err py_unmodelled)."""
        if isinstance(e, ast.Tuple) and is_tuple_t(want) and len(e.elts) == len(want) - 1 \
                and not any(isinstance(x, ast.Starred) for x in e.elts):
            return ('(%s)' % ', '.join(self.expr_as(x, t)[0] for x, t in zip(e.elts, want[1:])), want)
        t, ty = self.expr(e)
        if ty == EITHER and want == OCOLOR:
            self.partial += 1
            return self.bind('(match %s with inr c_ => Ok c_ | inl _ => Err py_unmodelled end)' % t, OCOLOR)
        return (self.coerce(t, ty, want), want)

    # ---------------------------------------------------------------- expressions
    def saxutils(self, name):
        import xml.sax.saxutils as sx
        return name in ('escape', 'quoteattr') and self.wname(name, getattr(sx, name)) and saxutils_ok()

    def expr(self, e):
        if not self.monadic:
            return TrV.expr(self, e)
        if isinstance(e, _Done):
            return (e.term, e.ty)
        if is_float_lit(e):
            return ('(PVFlt %s)' % qlit(e.value), VNUM)
        if isinstance(e, ast.UnaryOp) and isinstance(e.op, ast.USub) and is_float_lit(e.operand):
            return ('(PVFlt %s)' % qlit(-e.operand.value), VNUM)
        if isinstance(e, ast.Tuple) and len(e.elts) >= 2 and not any(isinstance(x, ast.Starred) for x in e.elts):
            items = [self.expr(x) for x in e.elts]
            for _, t in items:
                if is_gen(t) or T.is_alias(t):
                    raise Untranslatable('an iterator inside a tuple display')
            return ('(%s)' % ', '.join(it for it, _ in items), ('tuple',) + tuple(t for _, t in items))
        if isinstance(e, ast.BoolOp) and isinstance(e.op, ast.Or) and len(e.values) == 2:
            # `a or b` as a VALUE, on strs: a if a is true else b
            snap = (list(self.pending), self.counter, self.effects, self.partial)
            a, ta = self.expr(e.values[0])
            if ta in ('text', 'otext'):
                (b, tb), bb = self.isolated(lambda: self.expr(e.values[1]))
                if tb != 'text' or bb:
                    raise Untranslatable('`or` of %r and %r' % (ta, tb))
                if ta == 'text':
                    return ('(if negb (Z.eqb (lenZ %s) 0) then %s else %s)' % (a, a, b), 'text')
                return ('(match %s with Some s_ => if negb (Z.eqb (lenZ s_) 0) then s_ else %s | None => %s end)' % (a, b, b), 'text')
            self.pending, self.counter, self.effects, self.partial = list(snap[0]), snap[1], snap[2], snap[3]
        if isinstance(e, ast.Lambda):
            raise Untranslatable('lambda other than the factory of a defaultdict')
        if isinstance(e, ast.Dict) and not e.keys:
            raise Untranslatable('empty dict literal other than the initial value of a declared dict')
        return TrV.expr(self, e)

    def comprehension(self, e):
        """TrV.comprehension for a tuple target; a comprehension has its own scope, so its variables may have the names of
        locals of the function (which are hidden inside the element and unchanged afterwards)"""
        if len(e.generators) == 1 and isinstance(e.generators[0].target, ast.Tuple) and not e.generators[0].is_async \
                and not e.generators[0].ifs:
            g = e.generators[0]
            xs, et = self.iterable(g.iter)
            names = self.target_names(g.target)
            if len(set(names)) != len(names):
                raise Untranslatable('comprehension target')
            saved, saved_nn, saved_st = dict(self.env), set(self.nonneg), dict(self.stable)
            for nme in names:
                if T.is_alias(self.env.get(nme)) or any(T.is_alias(x) and x[1] == nme for x in self.env.values()):
                    raise Untranslatable('comprehension variable shadows an alias')
                self.stable.pop(nme, None)
            try:
                pat = self.pattern(g.target, et)
                (el, te), be = self.isolated(lambda: self.expr(e.elt))
            finally:
                self.env, self.nonneg, self.stable = saved, saved_nn, saved_st
            if be:
                return ("(map (fun '%s => %s) %s)" % (pat, self.wrap(be, '(Ok %s)' % el), xs), ('reslist', te))
            return ("(map (fun '%s => %s) %s)" % (pat, el, xs), ('list', te))
        return TrV.comprehension(self, e)

    def str_of(self, t, ty):
        if ty == 'cnum':
            return '(py_cnum_str ext_float_repr %s)' % t
        if ty == ('opt', VNUM):
            return '(match %s with Some v_ => py_vnum_str ext_q_repr v_ | None => %s end)' % (t, cps('None'))
        return TrV.str_of(self, t, ty)

    def text_arg(self, e):
        """an argument that must be a str; for a str-or-None the method call inside raises AttributeError on None"""
        t, ty = self.expr(e)
        if ty == 'otext':
            t, ty = self.unwrap(t, ty, 'AttributeErr')
        if ty != 'text':
            raise Untranslatable('str expected, got %r' % (ty,))
        return t

    def dict_items(self, e):
        """(term, key type, value type) for a dict-valued expression"""
        t, ty = self.expr(e)
        if isinstance(ty, tuple) and ty[0] == 'dictZ':
            return t, 'Z', ty[1]
        if is_cdict(ty):
            return t, OCOLOR, ty[1]
        raise Untranslatable('dict expected, got %r' % (ty,))

    def format_kw(self, fmt, keywords):
        """'..{a}..{b}..'.format(a=.., b=..): every argument is evaluated, in the order written; fields by name only"""
        vals = {}
        for kw in keywords:
            if kw.arg is None or kw.arg in vals:
                raise Untranslatable('format(**..)')
            vals[kw.arg] = self.expr(kw.value)
        parts = []
        for lit, field, spec, conv in string.Formatter().parse(fmt):
            if lit:
                parts.append(cps(lit))
            if field is None:
                continue
            if conv is not None or spec != '' or field not in vals:
                raise Untranslatable('replacement field {%s!%s:%s}' % (field, conv, spec))
            parts.append(self.str_of(vals[field][0], vals[field][1]))
        return ('(%s)' % ' ++ '.join(parts) if parts else '(@nil Z)', 'text')

    def call(self, e):
        f = e.func
        if not self.monadic:
            return TrV.call(self, e)
        if isinstance(f, ast.Name) and f.id not in self.env:
            name = f.id
            if name in ('escape', 'quoteattr') and name not in self.funs:
                if not self.saxutils(name):
                    raise Untranslatable('xml.sax.saxutils.%s changed (or is not what writers.%s is)' % (name, name))
                if len(e.args) != 1 or e.keywords or isinstance(e.args[0], ast.Starred):
                    raise Untranslatable('%s with other than one argument' % name)
                return ('(py_xml_%s %s)' % (name, self.text_arg(e.args[0])), 'text')
            if name == 'len' and self.builtin('len') and len(e.args) == 1 and not e.keywords and isinstance(e.args[0], ast.Call) \
                    and isinstance(e.args[0].func, ast.Name) and e.args[0].func.id == 'set' and self.builtin('set') \
                    and len(e.args[0].args) == 1 and not e.args[0].keywords:
                xs, tx = self.seq(e.args[0].args[0])
                if tx != ('list', OCOLOR):
                    raise Untranslatable('len(set(..)) of %r' % (tx,))
                return ('(py_set_len py_ocolor_eqb %s)' % xs, 'Z')
            if name == 'any' and self.builtin('any') and len(e.args) == 1 and not e.keywords \
                    and isinstance(e.args[0], ast.GeneratorExp):
                term, ty = self.comprehension(e.args[0])
                if ty == ('list', 'bool'):
                    return ('(existsb (fun b_ => b_) %s)' % term, 'bool')
                if ty == ('reslist', 'bool'):
                    return self.bind('(py_any_res %s)' % term, 'bool')       # item by item; stops at the first true
                raise Untranslatable('any over %r' % (ty,))
            if name == 'sorted' and self.builtin('sorted') and len(e.args) == 1:
                xs, tx = self.seq(e.args[0])
                if len(e.keywords) != 1 or e.keywords[0].arg != 'key' or not isinstance(e.keywords[0].value, ast.Name) \
                        or e.keywords[0].value.id != 'len' or not self.builtin('len') or tx[1] not in ('text', 'bytes'):
                    raise Untranslatable('sorted other than sorted(<strs>, key=len)')
                key, ltb = 'py_len_key', 'Z.ltb'
                return self.bind('(py_sorted_by_key %s %s %s)' % (ltb, key, xs), tx)
            if name in ('defaultdict', 'set', 'dict'):
                raise Untranslatable('%s() other than in the accepted positions' % name)
        if self.module_attr(f, 're', 'sub') and len(e.args) == 3 and not e.keywords \
                and all(isinstance(a, ast.Constant) and isinstance(a.value, str) for a in e.args[:2]):
            s, ts = self.expr(e.args[2])
            if ts != 'text':
                raise Untranslatable('re.sub on %r' % (ts,))
            return ('(ext_re_sub %s %s %s)' % (cps(e.args[0].value), cps(e.args[1].value), s), 'text')
        if isinstance(f, ast.Attribute) and f.attr == 'replace' and len(e.args) == 2 and not e.keywords:
            s, ts = self.expr(f.value)
            if ts == 'text':
                a, ta = self.expr(e.args[0])
                b, tb = self.expr(e.args[1])
                if ta != 'text' or tb != 'text':
                    raise Untranslatable('replace(%r, %r)' % (ta, tb))
                return ('(py_str_replace %s %s %s)' % (s, a, b), 'text')
            f = ast.Attribute(value=_Done(s, ts), attr='replace', ctx=ast.Load())
            return TrV.call(self, ast.Call(func=f, args=e.args, keywords=e.keywords))
        if isinstance(f, ast.Attribute) and f.attr in ('items', 'values') and not e.args and not e.keywords:
            d, kt, vt = self.dict_items(f.value)
            if f.attr == 'values':
                return ('(map snd %s)' % d, ('list', vt))
            return (d, ('list', ('tuple', kt, vt)))
        if isinstance(f, ast.Attribute) and f.attr == 'format' and isinstance(f.value, ast.Constant) \
                and isinstance(f.value.value, str) and e.keywords and not e.args:
            return self.format_kw(f.value.value, e.keywords)
        return TrV.call(self, e)

    def subscript(self, e):
        if self.monadic and isinstance(e.value, ast.Name) and is_cdict(self.env.get(e.value.id)) \
                and not isinstance(e.slice, ast.Slice):
            nm = e.value.id
            k, tk = self.expr(e.slice)
            k = self.coerce(k, tk, OCOLOR)
            vt = self.env[nm][1]
            dflt = self.vec.get('dd', {}).get(nm)
            if dflt is None:
                return self.bind('(py_cd_get %s %s)' % (k, self.n(nm)), vt)
            # a defaultdict: reading a missing key stores the default value first
            v = self.fresh()
            self.pending.append(('(%s, %s)' % (v, self.n(nm)), '(Ok (py_dd_getitem %s %s %s))' % (dflt, k, self.n(nm))))
            self.effects += 1
            return (v, vt)
        return TrV.subscript(self, e)

    def compare_vals(self, a, ta, b, tb, op):
        eqop = isinstance(op, (ast.Eq, ast.NotEq))
        if eqop and ta == EITHER and tb in ('Z', OCOLOR, 'color'):
            if tb == 'Z':
                t = '(match %s with inl x_ => Z.eqb x_ %s | inr _ => false end)' % (a, b)
            else:
                t = '(match %s with inl _ => false | inr c_ => py_ocolor_eqb c_ %s end)' % (a, self.coerce(b, tb, OCOLOR))
            return t if isinstance(op, ast.Eq) else '(negb %s)' % t
        if eqop and tb == EITHER and ta in ('Z', OCOLOR, 'color'):
            return self.compare_vals(b, tb, a, ta, op)
        if eqop and ta in (OCOLOR, 'color') and tb in (OCOLOR, 'color'):
            t = '(py_ocolor_eqb %s %s)' % (self.coerce(a, ta, OCOLOR), self.coerce(b, tb, OCOLOR))
            return t if isinstance(op, ast.Eq) else '(negb %s)' % t
        if VNUM in (ta, tb) and ta in ('Z', VNUM) and tb in ('Z', VNUM) and not eqop and type(op) in T.CMP:
            a, b = self.coerce(a, ta, VNUM), self.coerce(b, tb, VNUM)
            return {ast.Lt: '(py_vnum_ltb %s %s)' % (a, b), ast.LtE: '(py_vnum_leb %s %s)' % (a, b),
                    ast.Gt: '(py_vnum_ltb %s %s)' % (b, a), ast.GtE: '(py_vnum_leb %s %s)' % (b, a)}[type(op)]
        return TrV.compare_vals(self, a, ta, b, tb, op)

    def static_none(self, test):
        """(True / False) if `x is None` / `x is not None` is decided by the static type of the local x, else None"""
        nt = TU.none_test(test)
        if nt is None or nt[0] not in self.env or nt[0] in self.stable:
            return None
        ty = self.env[nt[0]]
        if ty == 'none':
            return not nt[1]
        if not T.is_opt(ty) and not T.is_alias(ty) and not is_gen(ty):
            return nt[1]
        return None

    # ---------------------------------------------------------------- statements
    def assigned(self, stmts):
        """Tr.assigned; `del d[k]` changes d (Tr.assigned refuses a `del`: it is looked at here and hidden from the base class)"""
        extra = set()
        for s in T.walk_no_defs(stmts):
            if isinstance(s, ast.Delete):
                for t in s.targets:
                    if not (isinstance(t, ast.Subscript) and isinstance(t.value, ast.Name)):
                        raise Untranslatable('del of ' + ast.dump(t)[:40])
                    extra.add(t.value.id)
        if extra:
            class R(ast.NodeTransformer):
                def visit_Delete(self, node):
                    return ast.Pass()

                def visit_FunctionDef(self, node):
                    return node
            stmts = [R().visit(ast.parse(ast.unparse(ast.fix_missing_locations(ast.Module(body=[s], type_ignores=[])))).body[0])
                     for s in stmts]
        return TrV.assigned(self, stmts) | extra

    def mutator(self, call):
        f = call.func
        if isinstance(f, ast.Attribute) and f.attr == 'append' and isinstance(f.value, ast.Subscript) \
                and isinstance(f.value.value, ast.Name) and is_cdict(self.env.get(f.value.value.id)):
            return f.value.value.id, 'item_append'
        return TrV.mutator(self, call)

    def mutation(self, call, rest, ctx):
        m = self.mutator(call)
        if m is not None and m[1] == 'item_append':
            # d[k].append(v): d[k] is evaluated first (a defaultdict stores the default), then v, then the list changes
            obj = m[0]
            vt = self.env[obj][1]
            if not is_list(vt) or len(call.args) != 1 or call.keywords:
                raise Untranslatable('append on an item of %r' % (self.env[obj],))
            sub = call.func.value
            k, tk = self.expr(sub.slice)
            k = self.coerce(k, tk, OCOLOR)
            kv = k if isinstance(sub.slice, ast.Name) else self.bind('(Ok %s)' % k, OCOLOR)[0]     # the key is evaluated once
            cur, _ = self.subscript(ast.Subscript(value=sub.value, slice=_Done(kv, OCOLOR), ctx=ast.Load()))
            a, _ = self.expr_as(call.args[0], vt[1])
            binds = self.take()
            o = self.n(obj)
            return self.wrap(binds, '(let %s := (py_cd_set %s (%s ++ [%s]) %s) in\n %s)' % (o, kv, cur, a, o, self.stmts(rest, ctx)))
        if m is not None and m[1] == 'append' and self.yield_type is not None and m[0] == TU.ACC and len(call.args) == 1 \
                and not call.keywords:
            a, _ = self.expr_as(call.args[0], self.yield_type)
            binds = self.take()
            o = self.n(m[0])
            return self.wrap(binds, '(let %s := (%s ++ [%s]) in\n %s)' % (o, o, a, self.stmts(rest, ctx)))
        return TrV.mutation(self, call, rest, ctx)

    def store(self, target, t, ty, rest, ctx):
        base, sl = target.value, target.slice
        if isinstance(base, ast.Name) and is_cdict(self.env.get(base.id)) and not isinstance(sl, ast.Slice):
            vt = self.env[base.id][1]
            k, tk = self.expr(sl)                       # (the value was evaluated before, by the caller)
            k = self.coerce(k, tk, OCOLOR)
            binds = self.take()
            o = self.n(base.id)
            return self.wrap(binds, '(let %s := (py_cd_set %s %s %s) in\n %s)' % (o, k, self.coerce(t, ty, vt), o, self.stmts(rest, ctx)))
        return TrV.store(self, target, t, ty, rest, ctx)

    def dict_init(self, s, rest, ctx):
        """d = defaultdict(list) / defaultdict(lambda: E) / {} for a local declared as a dict keyed by colours"""
        name, v = s.targets[0].id, s.value
        decl = self.var_decl[name]
        if name in self.env or self.depth:
            raise Untranslatable('the dict %s is created more than once' % name)
        dflt = None
        if isinstance(v, ast.Dict) and not v.keys:
            pass
        elif isinstance(v, ast.Call) and isinstance(v.func, ast.Name) and v.func.id == 'defaultdict' \
                and self.wname('defaultdict', collections.defaultdict) and len(v.args) == 1 and not v.keywords:
            fac = v.args[0]
            if isinstance(fac, ast.Name) and fac.id == 'list' and self.builtin('list') and is_list(decl[1]):
                dflt = '(@nil (%s))' % svtype(decl[1][1])
            elif isinstance(fac, ast.Lambda) and not (fac.args.args or fac.args.vararg or fac.args.kwarg or fac.args.kwonlyargs
                                                       or fac.args.posonlyargs):
                # the factory is called at every miss: its body must be a constant expression
                for n in ast.walk(fac.body):
                    if isinstance(n, ast.Name):
                        raise Untranslatable('the factory of a defaultdict reads a variable')
                (t, ty) = self.pure(lambda: self.expr(fac.body), 'the factory of a defaultdict')
                dflt = self.coerce(t, ty, decl[1])
            else:
                raise Untranslatable('defaultdict factory ' + ast.dump(fac)[:60])
        else:
            raise Untranslatable('initial value of the dict ' + name)
        self.vec.setdefault('dd', {})[name] = dflt
        self.env[name] = decl
        return '(let %s := (@nil (option py_color * %s)) in\n %s)' % (self.n(name), svtype(decl[1]), self.stmts(rest, ctx))

    def try_del(self, s, rest, ctx):
        """try: del d[k] / except KeyError: BODY -- the try body is one atomic statement: either the key is removed, or the
        dict is unchanged and the handler runs"""
        h = s.handlers[0]
        tgt = s.body[0].targets[0]
        d = tgt.value.id
        caught = [c for c in self.exn_of(h.type.id, exact=False) if c != 'UnicodeErr']
        if 'KeyErr' not in caught:
            raise Untranslatable('except clause does not catch KeyError')
        k, tk = self.pure(lambda: self.expr(tgt.slice), 'the key of a del statement')
        k = self.coerce(k, tk, OCOLOR)
        o = self.n(d)
        self.effects += 1
        saved = dict(self.env)
        ok = self.stmts(list(rest), ctx)
        self.env = dict(saved)
        handler = self.stmts(list(h.body) + list(rest), ctx)
        self.env = saved
        return "(match py_cd_del %s %s with\n | Ok %s => %s\n | Err KeyErr => %s\n | Err e' => Err e'\n end)" % (k, o, o, ok, handler)

    def webcolor_if(self, s, x, neg, rest, ctx):
        """if isinstance(x, tuple) for the result of _color_to_webcolor: a match; x is the (str, alpha) tuple / the str"""
        yes, no = (s.orelse, s.body) if neg else (s.body, s.orelse)
        if x in self.stable:
            raise Untranslatable('isinstance on a variable that is loop state')
        nm = self.n(x)
        saved = dict(self.env)
        self.env[x] = WTUP
        a = self.stmts(list(yes) + rest, ctx)
        self.env = dict(saved)
        self.env[x] = 'text'
        b = self.stmts(list(no) + rest, ctx)
        self.env = saved
        return ("(match %s with\n | PyWAlpha s_ a_ => (let %s := (s_, a_) in\n %s)\n | PyWPlain %s => %s\n end)"
                % (nm, nm, a, nm, b))

    def stmts(self, ss, ctx):
        if not ss:
            return ctx.fall()
        s, rest = ss[0], ss[1:]
        if self.pending:
            raise Untranslatable('internal: dangling binds')
        if not self.monadic:
            return TrV.stmts(self, ss, ctx)
        if isinstance(s, ast.FunctionDef):
            return self.local_def(s, rest, ctx)
        if isinstance(s, ast.Assign) and len(s.targets) == 1 and isinstance(s.targets[0], ast.Name) \
                and is_cdict(self.var_decl.get(s.targets[0].id)):
            return self.dict_init(s, rest, ctx)
        if isinstance(s, ast.AugAssign) and isinstance(s.target, ast.Name) and isinstance(s.op, ast.Add) \
                and self.env.get(s.target.id) in ('text', VNUM):
            name = s.target.id
            t, ty = self.expr(ast.BinOp(left=ast.Name(id=name, ctx=ast.Load()), op=s.op, right=s.value))
            binds = self.take()
            if ty != self.env[name]:
                raise Untranslatable('augmented assignment changes the type of ' + name)
            self.nonneg.discard(name)
            return self.wrap(binds, '(let %s := %s in\n %s)' % (self.n(name), t, self.stmts(rest, ctx)))
        if isinstance(s, ast.For) and not s.orelse and isinstance(s.iter, ast.Call) and isinstance(s.iter.func, ast.Attribute) \
                and s.iter.func.attr == 'items' and not s.iter.args and not s.iter.keywords \
                and isinstance(s.iter.func.value, ast.Name) and is_cdict(self.env.get(s.iter.func.value.id)):
            d = s.iter.func.value.id
            if d in self.assigned(s.body):
                raise Untranslatable('loop over a dict that the body changes')
            it = _Iter(self.n(d), ('tuple', OCOLOR, self.env[d][1]))
            return Tr.for_loop(self, ast.For(target=s.target, iter=it, body=s.body, orelse=[]), rest, ctx)
        if isinstance(s, ast.Try) and len(s.body) == 1 and isinstance(s.body[0], ast.Delete) and len(s.body[0].targets) == 1 \
                and isinstance(s.body[0].targets[0], ast.Subscript) and isinstance(s.body[0].targets[0].value, ast.Name) \
                and is_cdict(self.env.get(s.body[0].targets[0].value.id)) and not isinstance(s.body[0].targets[0].slice, ast.Slice) \
                and not s.orelse and not s.finalbody and len(s.handlers) == 1 and isinstance(s.handlers[0].type, ast.Name) \
                and s.handlers[0].name is None:
            return self.try_del(s, rest, ctx)
        if isinstance(s, ast.Delete):
            raise Untranslatable('del outside `try: del d[k] / except KeyError`')
        if isinstance(s, ast.If):
            sn = self.static_none(s.test)
            if sn is not None:
                return self.stmts(list(s.body if sn else s.orelse) + rest, ctx)
            it = self.isinstance_test(s.test)
            if it is not None and self.env.get(it[0]) == WEB and it[1] == 'tuple':
                return self.webcolor_if(s, it[0], it[2], rest, ctx)
        return TrV.stmts(self, ss, ctx)

    def iteration_local(self, body, rest, name):
        """Tr.iteration_local, where the first statement that mentions the name may also bind it through a tuple target"""
        if any(isinstance(x, ast.Name) and x.id == name for st in rest for x in ast.walk(st)):
            return False
        for st in body:
            if not any(isinstance(x, ast.Name) and x.id == name for x in ast.walk(st)):
                continue
            if not (isinstance(st, ast.Assign) and len(st.targets) == 1):
                return False
            tgt = st.targets[0]
            if isinstance(tgt, ast.Name):
                ok = tgt.id == name
            elif isinstance(tgt, ast.Tuple):
                try:
                    ok = name in self.target_names(tgt)
                except Untranslatable:
                    ok = False
            else:
                ok = False
            return ok and not any(isinstance(x, ast.Name) and x.id == name for x in ast.walk(st.value))
        return False

    def iterable(self, e):
        if isinstance(e, _Iter):
            return (e.term, e.ty)
        return TrV.iterable(self, e)

    # ---------------------------------------------------------------- nested functions
    def local_def(self, s, rest, ctx):
        """A function that reads variables which the following statements bind or change is first moved behind the last
        top-level statement that does so (a closure looks its free variables up when it is called), which is only right if
        nothing before that point mentions the function (the rule of translate_png.py).  A generator function without
        parameters becomes the (unevaluated) list of its items."""
        own = set(x.arg for x in s.args.args) | set(n.id for n in ast.walk(s) if isinstance(n, ast.Name) and isinstance(n.ctx, ast.Store))
        free = TPm.names_loaded(s) - own
        last = -1
        for k, st in enumerate(rest):
            if free & TPm.changes([st]):
                last = k
        if last >= 0:
            for st in rest[:last + 1]:
                if any(isinstance(x, ast.Name) and x.id == s.name for x in ast.walk(st)) \
                        or (isinstance(st, ast.FunctionDef) and st.name == s.name):
                    raise Untranslatable('%s is used before its free variables have their final value' % s.name)
            return self.stmts(list(rest[:last + 1]) + [s] + list(rest[last + 1:]), ctx)
        if contains(s.body, (ast.Yield, ast.YieldFrom)):
            return self.local_generator(s, rest, ctx)
        return TrV.local_def(self, s, rest, ctx)

    def local_generator(self, s, rest, ctx):
        decl = self.local_types.get(s.name)
        a = s.args
        if not (isinstance(decl, dict) and 'yields' in decl) or a.args or a.vararg or a.kwarg or a.kwonlyargs or a.posonlyargs \
                or s.decorator_list:
            raise Untranslatable('nested generator function ' + s.name)
        if s.name in self.env or s.name in self.funs:
            raise Untranslatable('nested function shadows ' + s.name)
        item = decl['yields']
        for n in ast.walk(s):
            if isinstance(n, (ast.ClassDef, ast.With, ast.Global, ast.Nonlocal, ast.Lambda, ast.Try, ast.While, ast.Import,
                              ast.ImportFrom, ast.Delete)) or (isinstance(n, ast.FunctionDef) and n is not s):
                raise Untranslatable('statement %s in the nested function %s' % (type(n).__name__, s.name))
        fn = TU.desugar_generator(T.strip_docstrings(ast.parse(ast.unparse(s))).body[0])
        ast.fix_missing_locations(fn)
        body_stmts = list(ast.parse(ast.unparse(fn)).body[0].body)
        own = set(n.id for n in ast.walk(s) if isinstance(n, ast.Name) and isinstance(n.ctx, ast.Store))
        free = TPm.names_loaded(s) - own
        later = TPm.changes(rest)
        for nme in free:
            if nme in later:
                raise Untranslatable('free variable %s of %s is rebound after the definition' % (nme, s.name))
        captured = dict((k, v) for k, v in self.env.items()
                        if not T.is_alias(v) and v != 'none' and not is_gen(v) and v not in STREAM_ITEM and not is_cdict(v)
                        and k not in later and k in free)
        sub = self.sub_translator(dict(captured))
        sub.var_decl = dict(self.var_decl, **dict(decl.get('locals', {})))
        sub.var_decl[TU.ACC] = ('list', item)
        sub.yield_type = item

        def ret(t):
            if t is None:
                raise Untranslatable('return without value')
            return 'Ok %s' % t
        body = sub.stmts(body_stmts, Ctx(ret=ret, fall=sub.no_fall))
        if [ty for _, ty in sub.rt_seen] != [('list', item)] * len(sub.rt_seen) or not sub.rt_seen:
            raise Untranslatable('the generator does not return its items')
        self.funs = dict(self.funs)
        # calling it only creates the generator: the body runs when it is consumed
        self.funs[s.name] = {'coq': self.n(s.name), 'params': [], 'defaults': {}, 'ret': ('lazygen', item), 'monadic': False,
                             'mutates': [], 'partial': sub.partial > 0, 'unicode': sub.unicode_ops > 0, 'thunk': True}
        self.partial += sub.partial
        return '(let %s := (%s : res (list (%s))) in\n %s)' % (self.n(s.name), body, svtype(item), self.stmts(rest, ctx))

    def apply(self, e, desc, first=None):
        if desc.get('thunk'):
            if e.args or e.keywords:
                raise Untranslatable('arguments for a function without parameters')
            if desc.get('partial'):
                self.partial += 1
            return (desc['coq'], desc['ret'])
        return TrV.apply(self, e, desc, first)

    def ext_args(self, desc):
        out = TrV.ext_args(self, desc)
        return list(desc.get('svg_exts', ())) + out


# ------------------------------------------------------------------ ast rewriting / checks before the translation
def desugar_with_svg(fn, writers):
    """with writable(out, 'wt', encoding=ENC) as f: BODY   (last statement, ENC a local name)
       ->  f = <new text stream>; BODY; return (ENC, f)"""
    withs = [n for n in ast.walk(fn) if isinstance(n, (ast.With, ast.AsyncWith))]
    w = fn.body[-1]
    if len(withs) != 1 or w is not withs[0] or not isinstance(w, ast.With) or len(w.items) != 1:
        raise Untranslatable('`with` other than one statement at the end of the function')
    it = w.items[0]
    c = it.context_expr
    if not (isinstance(c, ast.Call) and isinstance(c.func, ast.Name) and c.func.id == 'writable' and len(c.args) == 2
            and isinstance(c.args[0], ast.Name) and isinstance(c.args[1], ast.Constant) and c.args[1].value == 'wt'
            and len(c.keywords) == 1 and c.keywords[0].arg == 'encoding' and isinstance(c.keywords[0].value, ast.Name)
            and isinstance(it.optional_vars, ast.Name)):
        raise Untranslatable("context manager other than writable(out, 'wt', encoding=<name>) as f")
    if not TW.writable_ok(writers):
        raise Untranslatable('writers.writable changed')
    out, f, enc = c.args[0].id, it.optional_vars.id, c.keywords[0].value.id
    if [a.arg for a in fn.args.args].count(out) != 1:
        raise Untranslatable('writable() on something that is not a parameter')
    for n in ast.walk(fn):
        if isinstance(n, ast.Name) and n.id == out and n is not c.args[0]:
            raise Untranslatable('the output parameter is used outside writable()')
        if isinstance(n, ast.Name) and n.id == f and isinstance(n.ctx, ast.Store) and n is not it.optional_vars:
            raise Untranslatable('the stream variable is rebound')
        if isinstance(n, ast.arg) and n.arg == f:
            raise Untranslatable('the stream variable is also a parameter')
        if isinstance(n, ast.Name) and n.id == NEW_STREAM:
            raise Untranslatable('reserved name')
    for n in ast.walk(ast.Module(body=fn.body[:-1], type_ignores=[])):
        if isinstance(n, ast.Name) and n.id == f:
            raise Untranslatable('the stream variable is used before the with statement')
    if contains([st for st in fn.body if not isinstance(st, ast.FunctionDef)], (ast.Return,)):
        raise Untranslatable('return in a function that writes to a stream')
    par = TW.parents_of(w)
    for n in ast.walk(w):
        if isinstance(n, ast.Name) and n.id == f and n is not it.optional_vars:
            p = par.get(n)
            if not (isinstance(p, ast.Attribute) and p.attr == 'write' and isinstance(p.ctx, ast.Load)):
                raise Untranslatable('the stream is used otherwise than through write')
        if isinstance(n, ast.Name) and n.id == enc and isinstance(n.ctx, ast.Store):
            raise Untranslatable('the encoding is rebound inside the with block')
    new = ast.Assign(targets=[ast.Name(id=f, ctx=ast.Store())],
                     value=ast.Call(func=ast.Name(id=NEW_STREAM, ctx=ast.Load()), args=[ast.Constant(value='wt')], keywords=[]))
    res = ast.Tuple(elts=[ast.Name(id=enc, ctx=ast.Load()), ast.Name(id=f, ctx=ast.Load())], ctx=ast.Load())
    fn.body = fn.body[:-1] + [new] + list(w.body) + [ast.Return(value=res)]
    return fn, out, f


def loads(name, node):
    """does evaluating `node` read the variable `name` of the enclosing function scope?  (comprehensions and lambdas have
    their own scope: a name they bind hides the outer one, except in the first iterable of a comprehension)"""
    if isinstance(node, ast.Name):
        return node.id == name and isinstance(node.ctx, ast.Load)
    if isinstance(node, (ast.GeneratorExp, ast.ListComp, ast.SetComp, ast.DictComp)):
        bound = set(n.id for g in node.generators for n in ast.walk(g.target) if isinstance(n, ast.Name))
        if name in bound:
            return loads(name, node.generators[0].iter)
    if isinstance(node, ast.Lambda):
        if name in set(a.arg for a in node.args.args):
            return False
    return any(loads(name, c) for c in ast.iter_child_nodes(node))


def reads_first(name, stmts):
    """'read' if some path through the statements may read `name` before binding it, 'written' if every path binds it first,
    'none' if they may pass without doing either (conservative towards 'read')"""
    for st in stmts:
        r = stmt_reads_first(name, st)
        if r != 'none':
            return r
    return 'none'


def stmt_reads_first(name, st):
    def stores(t):
        return any(isinstance(n, ast.Name) and n.id == name and isinstance(n.ctx, ast.Store) for n in ast.walk(t))
    if isinstance(st, ast.Assign):
        if loads(name, st.value) or any(loads(name, t) for t in st.targets):
            return 'read'
        return 'written' if any(stores(t) for t in st.targets) else 'none'
    if isinstance(st, ast.AugAssign):
        if loads(name, st.value) or loads(name, st.target) or stores(st.target):
            return 'read'
        return 'none'
    if isinstance(st, ast.If):
        if loads(name, st.test):
            return 'read'
        a, b = reads_first(name, st.body), reads_first(name, st.orelse)
        if 'read' in (a, b):
            return 'read'
        return 'written' if a == b == 'written' else 'none'
    if isinstance(st, ast.For):
        if loads(name, st.iter) or loads(name, st.target):
            return 'read'
        if not stores(st.target) and reads_first(name, st.body) == 'read':
            return 'read'
        return 'none'                 # the loop may run zero times
    if isinstance(st, (ast.Expr, ast.Return, ast.Raise, ast.Assert, ast.Pass)):
        return 'read' if loads(name, st) else 'none'
    return 'read' if any(isinstance(n, ast.Name) and n.id == name for n in ast.walk(st)) else 'none'


def bind_late(fn):
    """A variable that is first bound inside one branch of a top-level `if` and that a later top-level statement may read
    before binding it: Python raises UnboundLocalError when the branch was not taken.  `name = None` is put before the `if`
    and the name is marked `late`: a read of None is then TypeErr, the stand-in of translate.py for UnboundLocalError."""
    bound = set(a.arg for a in fn.args.args)
    late = set()
    body = []
    for k, st in enumerate(fn.body):
        if isinstance(st, ast.If):
            def stores(ss):
                return set(n.id for s in ss for n in T.walk_no_defs([s]) if isinstance(n, ast.Name) and isinstance(n.ctx, ast.Store))
            a, b = stores(st.body), stores(st.orelse)
            partial = ((a | b) - (a & b)) - bound
            for nme in sorted(partial):
                if reads_first(nme, fn.body[k + 1:]) == 'read':
                    body.append(ast.Assign(targets=[ast.Name(id=nme, ctx=ast.Store())], value=ast.Constant(value=None)))
                    late.add(nme)
                    bound.add(nme)
            bound |= (a & b)
        else:
            bound |= TPm.changes([st]) if not isinstance(st, ast.FunctionDef) else {st.name}
        body.append(st)
    fn.body = body
    return late


def check_dicts(fn, names):
    """The objects changed in place (the dicts keyed by colours and the lists inside them) must have no second reference: the
    name is never the plain right-hand side of an assignment, an element of a display, an argument of a call, and no nested
    function or lambda mentions it.  Accepted uses: d[k], d[k] = v, del d[k], d[k].append(v), d.items(), d.values()."""
    par = TW.parents_of(fn)
    for n in ast.walk(fn):
        if isinstance(n, (ast.FunctionDef, ast.Lambda)) and n is not fn:
            bad = set(names) & (TPm.names_loaded(n) | set(a.arg for a in n.args.args))
            if bad:
                raise Untranslatable('a nested function mentions %s, which is changed in place' % sorted(bad)[0])
        if isinstance(n, ast.arg) and n.arg in names:
            raise Untranslatable('%s is a parameter' % n.arg)
        if isinstance(n, ast.Name) and n.id in names:
            p = par.get(n)
            if isinstance(n.ctx, ast.Store):
                if not (isinstance(p, ast.Assign) and len(p.targets) == 1 and p.targets[0] is n and par.get(p) is fn):
                    raise Untranslatable('%s is bound otherwise than once at the top level' % n.id)
                continue
            if isinstance(p, ast.Subscript) and p.value is n:
                continue
            if isinstance(p, ast.Attribute) and p.value is n and p.attr in ('items', 'values') \
                    and isinstance(par.get(p), ast.Call) and par[p].func is p:
                continue
            raise Untranslatable('%s, which is changed in place, is used otherwise than through d[k] / items() / values()' % n.id)
    for nme in names:
        if sum(1 for n in ast.walk(fn) if isinstance(n, ast.Name) and n.id == nme and isinstance(n.ctx, ast.Store)) != 1:
            raise Untranslatable('%s is not bound exactly once' % nme)
    # a list taken out of such a dict must not be kept: d[k] may only be read for immediate use
    for n in ast.walk(fn):
        if isinstance(n, ast.Assign) and isinstance(n.value, ast.Subscript) and isinstance(n.value.value, ast.Name) \
                and n.value.value.id in names and names[n.value.value.id] == 'list':
            raise Untranslatable('a list inside %s gets a second reference' % n.value.value.id)
        if isinstance(n, ast.For) and isinstance(n.iter, ast.Call) and isinstance(n.iter.func, ast.Attribute) \
                and isinstance(n.iter.func.value, ast.Name) and n.iter.func.value.id in names \
                and names[n.iter.func.value.id] == 'list':
            # `for k, v in d.items()`: v is a second reference to the list: the body must not change d or v
            tgt = [x.id for x in ast.walk(n.target) if isinstance(x, ast.Name)]
            if set(tgt + [n.iter.func.value.id]) & TPm.changes(n.body):
                raise Untranslatable('the loop over %s.items() changes the dict or its items' % n.iter.func.value.id)


def linear_copy(fn):
    """a copy of fn for translate_png.check_linear, which does not know try / del: `try: A / except: B` is checked as
    `if ..: A else: B`, `del x[k]` as the expression x[k]"""
    copy = ast.parse(ast.unparse(ast.fix_missing_locations(fn))).body[0]

    class R(ast.NodeTransformer):
        def visit_Try(self, node):
            self.generic_visit(node)
            if node.orelse or node.finalbody:
                raise Untranslatable('try shape')
            orelse = [st for h in node.handlers for st in h.body]
            return ast.If(test=ast.Constant(value=True), body=node.body, orelse=orelse)

        def visit_Delete(self, node):
            return ast.Expr(value=ast.Tuple(elts=[ast.Subscript(value=t.value, slice=t.slice, ctx=ast.Load()) if isinstance(t, ast.Subscript)
                                                  else ast.Constant(value=0) for t in node.targets], ctx=ast.Load()))
    return ast.fix_missing_locations(R().visit(copy))


# ------------------------------------------------------------------ function level
class Group:
    def __init__(self, mods, tree, report, funs, deps=()):
        self.mods, self.tree, self.report, self.funs = mods, tree, report, funs
        self.vec = {}
        self.out = [HEADER_S + ''.join('From SegnoSrc Require Import %s.\n' % d for d in deps)]

    def text(self):
        return '\n'.join(self.out) + '\n'

    def attempt(self, name, fn):
        try:
            self.out.append(fn())
            self.report['functions'][name] = 'ok'
        except Untranslatable as ex:
            self.report['functions'][name] = 'untranslatable: %s' % ex
            self.out.append('(* %s: untranslatable: %s *)' % (name, str(ex).replace('*)', '* )').replace('(*', '( *').replace('"', "'")))
        except Exception as ex:  # source changed shape in a way we do not understand: fail closed
            if os.environ.get('TRANSLATE_DEBUG'):
                import traceback
                traceback.print_exc(file=sys.stderr)
            self.report['functions'][name] = 'untranslatable: %s: %s' % (type(ex).__name__, ex)
            self.out.append('(* %s: untranslatable (%s) *)' % (name, type(ex).__name__))

    def define_svg(self, name, params, local_types, var_decl, decorator):
        """writers.<name> under its decorator, for arguments of the declared types (Python is untyped: the bridge theorems
        speak about arguments of these types).  The parameter of type 'out' is the file argument: it has no counterpart."""
        writers = self.mods['writers']

        def go():
            fn = find_top(ast.parse(ast.unparse(find_top(self.tree, name))), name)     # a private copy
            a = fn.args
            if a.vararg or a.kwarg or a.kwonlyargs or a.posonlyargs:
                raise Untranslatable('signature of ' + name)
            if [ast.unparse(d) for d in fn.decorator_list] != [decorator]:
                raise Untranslatable('decorators of %s: %s' % (name, [ast.unparse(d) for d in fn.decorator_list]))
            got = [x.arg for x in a.args]
            if got != [p for p, _ in params]:
                raise Untranslatable('parameters changed: %s' % got)
            defaults = dict(zip(got[len(got) - len(a.defaults):], a.defaults))
            for d in defaults.values():
                if not isinstance(d, ast.Constant):
                    raise Untranslatable('non-literal default value')
            T.strip_docstrings(fn)
            for n in ast.walk(fn):
                if isinstance(n, (ast.While, ast.Global, ast.Nonlocal, ast.NamedExpr, ast.YieldFrom, ast.Await, ast.ClassDef,
                                  ast.AsyncFunctionDef, ast.AsyncFor, ast.AsyncWith, ast.Import, ast.ImportFrom, ast.Starred)):
                    raise Untranslatable('statement %s outside the fragment' % type(n).__name__)
                if isinstance(n, ast.Attribute) and not isinstance(n.ctx, ast.Load):
                    raise Untranslatable('store into an attribute')
            dicts = dict((k, 'list' if is_list(v[1]) else 'value') for k, v in var_decl.items() if is_cdict(v))
            for n in ast.walk(fn):
                if isinstance(n, ast.Subscript) and not isinstance(n.ctx, ast.Load):
                    if not (isinstance(n.value, ast.Name) and n.value.id in dicts) or isinstance(n.slice, ast.Slice):
                        raise Untranslatable('store into ' + ast.dump(n)[:60])
                if isinstance(n, ast.Call) and isinstance(n.func, ast.Attribute) and n.func.attr in TPm.MUTATING:
                    v = n.func.value
                    if not (n.func.attr == 'append' and isinstance(v, ast.Subscript) and isinstance(v.value, ast.Name)
                            and dicts.get(v.value.id) == 'list'):
                        raise Untranslatable('call of the mutating method .%s' % n.func.attr)
                if isinstance(n, ast.AugAssign) and not isinstance(n.target, ast.Name):
                    raise Untranslatable('augmented assignment to ' + ast.dump(n.target)[:40])
            fn, out, f = desugar_with_svg(fn, writers)
            late = bind_late(fn)
            ast.fix_missing_locations(fn)
            cparams = [(p, t) for p, t in params if t != 'out']
            if [p for p, t in params if t == 'out'] != [out]:
                raise Untranslatable('the output parameter')
            ptypes = dict(cparams)
            TPm.check_linear(linear_copy(fn))
            check_dicts(fn, dicts)
            for nme in dicts:
                if nme in ptypes:
                    raise Untranslatable('the parameter %s is changed in place' % nme)
            vec = dict(self.vec, mode='wt', stream=f, imports=())

            def run(rt_decl):
                tr = TrSv(self.mods['consts'], env=ptypes, monadic=True, funs=dict(self.funs), mods=self.mods, writers=writers,
                          vec=dict(vec, dd={}))
                tr.rt_decl = rt_decl
                tr.local_types = dict(local_types or {})
                tr.var_decl = dict(var_decl or {})
                tr.late = set(late)
                tr.ever_mutated = set()
                tr.inplace = None

                def ret(t):
                    if t is None:
                        raise Untranslatable('return without value')
                    return 'Ok %s' % t
                body = tr.stmts(list(ast.parse(ast.unparse(fn)).body[0].body), Ctx(ret=ret, fall=tr.no_fall))
                return tr, body
            tr, body = run(None)
            if len(tr.rt_seen) != 1:
                raise Untranslatable('the function does not return exactly once')
            rt = tr.rt_seen[0][1]
            if rt != ('tuple', 'otext', 'stream_t'):
                raise Untranslatable('the function does not return (encoding, text stream): %r' % (rt,))
            tr, body = run(rt)
            used = [(en, et) for en, et, _ in EXTS if re.search(r'\b%s\b' % en, body)]
            coqname = 'src_' + name
            sig = ' '.join(['(%s : %s)' % (en, et) for en, et in used] + ['(%s : %s)' % (tr.n(p), svtype(t)) for p, t in cparams])
            self.funs[name] = {'coq': coqname, 'params': list(cparams), 'src_params': list(params), 'defaults': defaults, 'ret': rt,
                               'monadic': True, 'mutates': [], 'svg_exts': [en for en, _ in used], 'partial': tr.partial > 0}
            self.report.setdefault('parameters', {})[name] = [en for en, _ in used]
            return ('Definition %s %s : res (%s) := (* (the encoding the stream is opened with, what was written to `%s`) *)\n %s.\n'
                    % (coqname, sig, svtype(rt), out, body))
        return go

    def define_wrapper(self, name, coqname, wparams, star_kw, out):
        """the function `wrapper` of @colorful around writers.<name> (translate_colors.colorful_wrapper)"""
        writers = self.mods['writers']

        def go():
            d = self.funs.get(name)
            if d is None:
                raise Untranslatable('no translation of ' + name)
            w = TC.colorful_wrapper(self.tree, writers)
            fn = ast.parse(ast.unparse(w)).body[0]
            a = fn.args
            if a.vararg or a.kwonlyargs or a.posonlyargs or a.kwarg is None or a.kwarg.arg != star_kw[0]:
                raise Untranslatable('signature of colorful.wrapper')
            got = [x.arg for x in a.args]
            if got != [p for p, _ in wparams]:
                raise Untranslatable('parameters changed: %s' % got)
            T.strip_docstrings(fn)
            if contains(fn.body, (ast.Yield, ast.YieldFrom, ast.Await, ast.While, ast.Global, ast.Nonlocal, ast.Delete, ast.NamedExpr,
                                  ast.Import, ast.ImportFrom, ast.ClassDef, ast.With, ast.Lambda, ast.FunctionDef, ast.Try, ast.For)):
                raise Untranslatable('statement outside the fragment')
            for n in ast.walk(fn):
                if isinstance(n, (ast.Subscript, ast.Attribute)) and not isinstance(n.ctx, ast.Load):
                    raise Untranslatable('store into a sequence / attribute')
            TPm.check_linear(fn)
            cparams = [(p, t) for p, t in wparams if t != 'out'] + list(star_kw[1])
            lfuns = dict(self.funs)
            lfuns['f'] = dict(d)

            def run(rt_decl):
                tr = TrSv(self.mods['consts'], env=dict(cparams), monadic=True, funs=lfuns, mods=self.mods, writers=writers, vec={})
                tr.rt_decl = rt_decl
                tr.ever_mutated = set()
                tr.star_kw = star_kw
                tr.out_name = out

                def ret(t):
                    if t is None:
                        raise Untranslatable('return without value')
                    return 'Ok %s' % t
                return tr, tr.stmts(list(ast.parse(ast.unparse(fn)).body[0].body), Ctx(ret=ret, fall=tr.no_fall))
            tr, body = run(None)
            if [ty for _, ty in tr.rt_seen] != [d['ret']]:
                raise Untranslatable('the wrapper does not return the result of the decorated function')
            tr, body = run(d['ret'])
            exts = dict((en, et) for en, et, _ in EXTS)
            sig = ' '.join(['(%s : %s)' % (en, exts[en]) for en in d['svg_exts']]
                           + ['(%s : %s)' % (tr.n(p), svtype(t)) for p, t in cparams])
            return 'Definition %s %s : res (%s) :=\n %s.\n' % (coqname, sig, svtype(d['ret']), body)
        return go


def translate_svg(mods, outdir, report):
    writers, utils = mods['writers'], mods['utils']
    tree = ast.parse(inspect.getsource(writers))
    utils_tree = ast.parse(inspect.getsource(utils))
    Z, B, OZ, Q, OQ, TEXT, OTEXT = 'Z', 'bool', 'oZ', 'Q', 'oQ', 'text', 'otext'
    SIZE, LL = TW.SIZE, TW.LL

    def read(name):
        try:
            with open(os.path.join(outdir, name)) as f:
                return f.read()
        except OSError:
            return ''
    src_utils, src_iter, src_verbose, src_color, src_vec = (read('SrcUtils.v'), read('SrcUtilsIter.v'), read('SrcUtilsVerbose.v'),
                                                            read('SrcColor.v'), read('SrcVecCommon.v'))
    funs = {}

    def ufun(key, *args, **kw):
        try:
            funs[key] = TW.utils_fun(utils_tree, *args, **kw)
        except Untranslatable as ex:
            report['functions']['utils.' + key] = 'unavailable: %s' % ex
    for nm in ('matrix_to_lines', 'get_symbol_size', 'matrix_iter_verbose', 'check_valid_scale', 'check_valid_border', 'get_border'):
        if getattr(writers, nm, None) is not getattr(utils, nm, None):
            raise Untranslatable('writers.%s is not utils.%s' % (nm, nm))
    ufun('matrix_to_lines', src_iter, 'matrix_to_lines', [('matrix', LL), ('x', Q), ('y', Q), ('incby', Q)],
         ('list', ('list', ('list', Q))), generator=True)
    ufun('matrix_iter_verbose', src_verbose, 'matrix_iter_verbose',
         [('matrix', LL), ('matrix_size', SIZE), ('scale', Q), ('border', OZ)], ('list', ('list', Z)), generator=True)
    vec = {}
    try:
        vec['line_kinds'] = TVm.kinds_of_lines(find_top(utils_tree, 'matrix_to_lines'), ['x', 'y', 'incby'])
        report['line_kinds'] = [[sorted(k) for k in row] for row in vec['line_kinds']]
    except Untranslatable as ex:
        report['functions']['utils.matrix_to_lines (kinds)'] = 'unavailable: %s' % ex

    # functions other translators have translated: utils.get_symbol_size / writers._valid_width_height_and_border at an
    # int-or-float scale (SrcVecCommon.v), writers._color_to_webcolor / _make_colormap (SrcColor.v)
    def have(src_tree, text, pyname, coq, params, ret, sigret, key=None, extra=None, total=False):
        fn = find_top(src_tree, pyname)
        a = fn.args
        got = [x.arg for x in a.args]
        defaults = dict(zip(got[len(got) - len(a.defaults):], a.defaults))
        sig = 'Definition %s %s%s : %s :=' % (coq, extra or '', ' '.join('(%s : %s)' % (p, svtype(t)) for p, t in params),
                                             sigret if total else 'res (%s)' % sigret)
        if got != [p for p, _ in params] or a.vararg or a.kwarg or a.kwonlyargs or fn.decorator_list \
                or any(not isinstance(d, ast.Constant) for d in defaults.values()) or sig not in text:
            report['functions'][(key or pyname) + ' (callee)'] = 'unavailable: no translation with the expected signature'
            return None
        funs[key or pyname] = {'coq': coq, 'params': list(params), 'src_params': list(params), 'defaults': defaults, 'ret': ret,
                               'monadic': not total, 'mutates': []}
        return funs[key or pyname]
    have(utils_tree, src_vec, 'get_symbol_size', 'src_get_symbol_size_v', [('matrix_size', SIZE), ('scale', VNUM), ('border', OZ)],
         ('list', VNUM), 'list (py_vnum)')
    have(tree, src_vec, '_valid_width_height_and_border', 'src__valid_width_height_and_border_v',
         [('matrix_size', SIZE), ('scale', VNUM), ('border', OZ)], ('tuple', VNUM, VNUM, Z), '(py_vnum * py_vnum * Z)')
    d = have(tree, src_color, '_color_to_webcolor', 'src__color_to_webcolor', [('color', 'color'), ('allow_css3_colors', B), ('optimize', B)],
             WEB, 'py_webcolor', extra='(ext_float_repr : py_float -> list Z) ')
    if d is not None:
        d.update(float_repr=True, partial=True)
    OPTC = (TC.ORFALSE, OCOLOR)
    cm_opts = ['finder_dark', 'finder_light', 'data_dark', 'data_light', 'version_dark', 'version_light', 'format_dark',
               'format_light', 'alignment_dark', 'alignment_light', 'timing_dark', 'timing_light', 'separator', 'dark_module',
               'quiet_zone']
    mparams = [('matrix_width', Z), ('matrix_height', Z), ('dark', OCOLOR), ('light', OCOLOR)] + [(o, OPTC) for o in cm_opts]
    mc = find_top(tree, '_make_colormap')
    msig = 'Definition src__make_colormap %s : list (Z * option py_color) :=' % ' '.join('(%s : %s)' % (p, TC.ctype(t)) for p, t in mparams)
    mgot = [x.arg for x in mc.args.args]
    mdefaults = dict(zip(mgot[len(mgot) - len(mc.args.defaults):], mc.args.defaults))
    if mgot == [p for p, _ in mparams] and msig in src_color and not mc.decorator_list \
            and all(isinstance(dv, ast.Constant) for dv in mdefaults.values()):
        funs['_make_colormap'] = {'coq': 'src__make_colormap', 'params': mparams, 'src_params': mparams, 'defaults': mdefaults,
                                  'ret': ('dictZ', OCOLOR), 'monadic': False, 'mutates': []}
    else:
        report['functions']['writers._make_colormap'] = 'unavailable'

    g = Group(mods, tree, report, funs, deps=('SrcUtils', 'SrcUtilsIter', 'SrcUtilsVerbose', 'SrcColor', 'SrcVecCommon'))
    g.vec = vec
    svg_params = [('matrix', LL), ('matrix_size', SIZE), ('out', 'out'), ('colormap', ('dictZ', OCOLOR)), ('scale', VNUM),
                  ('border', OZ), ('xmldecl', B), ('svgns', B), ('title', OTEXT), ('desc', OTEXT), ('svgid', OTEXT),
                  ('svgclass', OTEXT), ('lineclass', OTEXT), ('omitsize', B), ('unit', OTEXT), ('encoding', OTEXT),
                  ('svgversion', ('opt', VNUM)), ('nl', B), ('draw_transparent', B)]
    g.attempt('write_svg', g.define_svg(
        'write_svg', svg_params,
        local_types={'svg_color': [('clr', OCOLOR)],
                     'matrix_to_lines_verbose': {'yields': ITEM, 'locals': {'last_color': EITHER}}},
        var_decl={'xy': ('cdict', XY), 'coordinates': ('cdict', ('list', SEG)), 'paths': ('cdict', TEXT), 'miter': ('lazygen', ITEM)},
        decorator="colorful(dark='#000', light=None)"))
    wparams = [('matrix', LL), ('matrix_size', SIZE), ('out', 'out'), ('dark', OCOLOR), ('light', OCOLOR)] + [(o, OPTC) for o in cm_opts]
    g.attempt('colorful(write_svg)', g.define_wrapper(
        'write_svg', 'src_write_svg_colorful', wparams, ('kw', [(p, t) for p, t in svg_params[4:]]), 'out'))
    return {'SrcSvg.v': g.text()}


SVG_FILES = ('SrcSvg.v',)


def main():
    repo, outdir = sys.argv[1], sys.argv[2]
    sys.path.insert(0, repo)
    os.makedirs(outdir, exist_ok=True)
    report = {'functions': {}, 'changed': []}
    files = {}
    try:
        mods = {m: importlib.import_module('segno.' + m) for m in ('consts', 'encoder', 'utils', 'writers')}
        if not os.path.realpath(mods['writers'].__file__).startswith(os.path.realpath(repo)):
            raise RuntimeError('segno imported from %s, not from %s' % (mods['writers'].__file__, repo))
        files = translate_svg(mods, outdir, report)
    except Exception as ex:
        if os.environ.get('TRANSLATE_DEBUG'):
            import traceback
            traceback.print_exc(file=sys.stderr)
        report['functions']['*'] = 'failed: %s: %s' % (type(ex).__name__, ex)
    for name in SVG_FILES:
        text = files.get(name)
        if not isinstance(text, str):
            text = HEADER_S + '(* %s: translation failed *)\n' % name
        if write_if_changed(os.path.join(outdir, name), text):
            report['changed'].append(name)
    print(json.dumps(report, indent=1))


if __name__ == '__main__':
    main()
