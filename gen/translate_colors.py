#!/usr/bin/env python3
"""Fail-closed translator for the colour helpers of /repo/segno/writers.py -> Gallina (build/gen/SrcColor.v:
_alpha_value, _hex_to_rgb_or_rgba, _color_to_rgba, _color_to_rgb_or_rgba, _color_to_rgb, _color_is_black, _color_is_white,
_color_to_webcolor, _make_colormap; build/gen/SrcColorful.v: the wrapper that @colorful puts around write_ppm).

Built on gen/translate.py (Tr), gen/translate_utils.py (TrU) and gen/translate_writers.py (TrW: str as code points, f-strings,
format, join, generator expressions ...); nothing of those files or of the existing theories/Base/PySem*.v is edited.  This
file adds, in the subclass TrC and with the support library theories/Base/PySemColor.v:

* numbers that are ints or floats at run time (type 'cnum', Coq py_cnum): a conditional expression, a tuple literal or the
  returns of a function that mix ints and floats get this type (an int becomes PyNInt, a float PyNFlt); `==` is py_cnum_eqb
  (exact, also between an int and a float); tuples of such numbers ('list', 'cnum'), `+` of a tuple of ints and a tuple of
  numbers.  Floats are PrimFloat binary64 as in gen/translate.py: float literals, `int / float-literal`, `float * float`,
  ordering comparisons of a float with a float or an int literal, `'%.Nf' % x` (py_fmt_pct_f), `float(s)` (py_float_of_str);
* `isinstance(x, T)`: decided statically where the declared type of x decides it (the dead branch is not translated); for a
  number that may be an int or a float (`float` / `int`) and for a colour argument (`tuple` / `str`) the `if` becomes a
  `match` on the constructor and x has the narrowed type in each branch (like the `is None` narrowing of TrU);
* str: `s[i]`, `s[a:b]`, iteration over a str, `c in '<literal>'` (substring test), `s.lower()`, `int(s, 16)`, `all(genexp)`
  for elements that cannot raise;
* `D[key]` for the module-level dict _NAME2RGB (SrcTables.NAME2RGB, KeyError), `D.get(k, default)` for the module-level dict
  _ALPHA_COMMONS (dumped here as floats, in insertion order), dict literals with int keys, `{k: v for k, v in d.items() if c}`;
* `try` whose body binds variables that neither the handler nor the rest of the function reads; nested `try` inside a handler;
  `except ValueError` never catches the marker py_unmodelled (= UnicodeErr): a function in which a genuine UnicodeError could
  reach such a handler (str.encode, or a callee with it) is refused;
* subscripts inside the message of a raised exception are evaluated (IndexError) before the exception is raised;
* locals with a declared type (`res`: a tuple of numbers): every assignment is coerced to it (declared like parameter types);
* `x is not False` for the colour options of _make_colormap (type ('orfalse', T): the default False means "not given"),
  `x is None` on a variable whose static type decides it;
* the wrapper of @colorful around write_ppm: `_make_colormap(*matrix_size, k=v, ...)` (py_unpack2) and `f(.., cm, **kw)` where
  kw carries the remaining parameters of the decorated function.

Nothing here decides a property: it regenerates Coq text which coqc checks against Model/Color.v (and Model/Svg.v for
_color_to_webcolor) through the bridge theorems theories/Tie/TieColor.v; theories/Tie/TieWrColorFull.v instantiates the
colour parameters of the translated writers with these definitions.

Usage: translate_colors.py <repo> <outdir>      (prints a JSON status report on stdout)
"""
import ast
import importlib
import inspect
import json
import math
import os
import re
import string
import sys

sys.path.insert(0, os.path.dirname(os.path.abspath(__file__)))
import translate as T                                                    # noqa: E402
import translate_utils as TU                                             # noqa: E402
import translate_writers as TW                                           # noqa: E402
from translate import Tr, Ctx, Untranslatable, write_if_changed, contains, is_list, z, lst  # noqa: E402
from translate_utils import _Done, _Wrap                                 # noqa: E402
from translate_writers import TrW, coqtype, cps, find_top                # noqa: E402

# ------------------------------------------------------------------ types added to the fragment
# 'cnum' an int or a float (py_cnum); 'webcolor' the result of _color_to_webcolor; ('orfalse', T): False ("not given") or a T
T.SCALAR_COQ.update({'cnum': 'py_cnum', 'webcolor': 'py_webcolor'})
T.COQ_RESERVED.update({'PyNInt', 'PyNFlt', 'PyWPlain', 'PyWAlpha', 'SrcColor', 'SrcColorful', 'PySemColor', 'forallb', 'existsb',
                       'filter', 'float', 'ALPHA_COMMONS_F', 'assocZ', 'x_', 'kv_', 's_', 'a_'})
NUM = ('Z', 'float', 'cnum')
WTUP = ('tuple', 'text', 'cnum')
CNUMS = ('list', 'cnum')
ORFALSE = 'orfalse'

_base_coqtype = coqtype


def ctype(t):
    if isinstance(t, tuple) and t[0] == ORFALSE:
        return 'option (%s)' % ctype(t[1])
    if isinstance(t, tuple) and t[0] in ('list', 'iter'):
        return 'list (%s)' % ctype(t[1])
    if isinstance(t, tuple) and t[0] == 'dictZ':
        return 'list (Z * %s)' % ctype(t[1])
    return _base_coqtype(t)


HEADER_C = ('(* GENERATED by gen/translate_colors.py from the current /repo working tree -- do not edit. *)\n'
            'From Coq Require Import String.\n'
            'From Coq Require Import ZArith QArith List Bool PrimFloat.\n'
            'Import ListNotations.\n'
            'Open Scope Z_scope.\n'
            'From Segno Require Import Base.PyLite Base.PySem Base.PySemExt Base.PySemGen Base.PySemIO Base.PySemColor.\n'
            'From SegnoSrc Require SrcTables.\n')

LIT = re.compile(r'^\(?(-?\d+)\)?$')


def float_lit(v):
    if v != v or v in (math.inf, -math.inf):
        raise Untranslatable('float constant %r' % (v,))
    if v == int(v) and abs(v) < 2 ** 53 and math.copysign(1.0, v) > 0:
        return '(py_float_of_Z %s)' % z(int(v))
    return '(%s)%%float' % v.hex()         # hexadecimal literal: exactly this binary64 value


class TrC(TrW):
    def __init__(self, *args, **kw):
        TrW.__init__(self, *args, **kw)
        self.var_decl = {}            # declared types of locals (like parameter types)
        self.unicode_ops = 0          # operations emitted that can raise a genuine UnicodeError
        self.star_kw = None           # (name of **kw, [(param, type)]) in the wrapper of @colorful

    # ---------------------------------------------------------------- types
    def join(self, a, ta, b, tb):
        if ta == tb:
            return ta
        if ta in NUM and tb in NUM:
            return 'cnum'
        if is_list(ta) and is_list(tb) and ta[1] in NUM + ('?',) and tb[1] in NUM + ('?',):
            if ta[1] == '?':
                return tb
            if tb[1] == '?':
                return ta
            return CNUMS
        if ta in ('text', WTUP, 'webcolor') and tb in ('text', WTUP, 'webcolor'):
            return 'webcolor'
        return TrW.join(self, a, ta, b, tb)

    def coerce(self, term, frm, to):
        if frm == to:
            return term
        if to == 'cnum' and frm == 'Z':
            return '(PyNInt %s)' % term
        if to == 'cnum' and frm == 'float':
            return '(PyNFlt %s)' % term
        if to == CNUMS and frm == ('list', 'Z'):
            return '(py_cnums_of_ints %s)' % term
        if to == CNUMS and frm == ('list', 'float'):
            return '(py_cnums_of_floats %s)' % term
        if is_list(to) and frm == ('list', '?') and term == '[]' and '?' not in repr(to):
            return '(@nil (%s))' % ctype(to[1])
        if to == 'webcolor' and frm == 'text':
            return '(PyWPlain %s)' % term
        if to == 'webcolor' and frm == WTUP:
            return "(let '(s_, a_) := %s in PyWAlpha s_ a_)" % term
        if isinstance(to, tuple) and to[0] == ORFALSE and frm == to[1]:
            return '(Some %s)' % term
        return TrW.coerce(self, term, frm, to)

    def static_isinstance(self, ty, cls):
        """True / False where the static type decides isinstance(x, cls), 'dyn' for a sum type, else Untranslatable."""
        if isinstance(ty, tuple) and ty[0] == 'frozen':
            ty = ty[1]
        table = {'Z': {'int': True, 'float': False, 'tuple': False, 'str': False},
                 'float': {'int': False, 'float': True, 'tuple': False, 'str': False},
                 'text': {'int': False, 'float': False, 'tuple': False, 'str': True}}
        if ty in table and cls in table[ty]:
            return table[ty][cls]
        if is_list(ty) and cls in ('int', 'float', 'str', 'tuple'):
            return cls == 'tuple'
        if ty == 'cnum' and cls in ('int', 'float'):
            return 'dyn'
        if ty == 'color' and cls in ('tuple', 'str'):
            return 'dyn'
        raise Untranslatable('isinstance(%r, %s)' % (ty, cls))

    def isinstance_test(self, test):
        """(x, class name, negated) for `isinstance(x, C)` / `not isinstance(x, C)` on a plain local name x."""
        neg = False
        if isinstance(test, ast.UnaryOp) and isinstance(test.op, ast.Not):
            neg, test = True, test.operand
        if isinstance(test, ast.Call) and isinstance(test.func, ast.Name) and test.func.id == 'isinstance' \
                and self.builtin('isinstance') and len(test.args) == 2 and not test.keywords \
                and isinstance(test.args[0], ast.Name) and isinstance(test.args[1], ast.Name) \
                and test.args[1].id in ('int', 'float', 'tuple', 'str') and self.builtin(test.args[1].id) \
                and test.args[0].id in self.env:
            return test.args[0].id, test.args[1].id, neg
        return None

    # the two constructors of a sum type: (constructor, narrowed type) for isinstance true / false
    def sum_arms(self, ty, cls):
        if ty == 'cnum':
            fl, it = ('PyNFlt', 'float'), ('PyNInt', 'Z')
            return (fl, it) if cls == 'float' else (it, fl)
        tp, st = ('PyCTuple', ('list', 'Z')), ('PyCStr', 'text')
        return (tp, st) if cls == 'tuple' else (st, tp)

    # ---------------------------------------------------------------- expressions
    def seq(self, e):
        if not isinstance(e, (ast.GeneratorExp, ast.ListComp)):
            t, ty = self.expr(e)
            if ty == 'text':
                return ('(py_str_chars %s)' % t, ('list', 'text'))        # the one-character strs
            e = _Done(t, ty)
        return TrW.seq(self, e)

    def writers_dict(self, name):
        d = getattr(self.writers, name, None)
        if name in self.env or name in self.funs or not isinstance(d, dict):
            return None
        return d

    def expr(self, e):
        if not self.monadic:
            return TrW.expr(self, e)
        if isinstance(e, ast.Constant) and isinstance(e.value, float):
            return (float_lit(e.value), 'float')
        if isinstance(e, ast.Tuple) and not e.elts:
            return ('[]', ('list', '?'))
        if isinstance(e, ast.Name) and self.star_kw and e.id == self.star_kw[0]:
            raise Untranslatable('**%s used as a value' % e.id)
        if isinstance(e, ast.BinOp) and isinstance(e.op, ast.Mod) and isinstance(e.left, ast.Constant) \
                and isinstance(e.left.value, str):
            m = re.match(r'^%\.(\d+)f$', e.left.value)
            if not m:
                raise Untranslatable('format string %r' % e.left.value)
            x, tx = self.expr(e.right)
            if tx != 'float':
                raise Untranslatable("'%%.Nf' %% %r" % (tx,))
            return ('(py_fmt_pct_f %s %s)' % (z(int(m.group(1))), x), 'text')
        if isinstance(e, ast.BinOp) and isinstance(e.op, ast.Add):
            a, ta = self.expr(e.left)
            b, tb = self.expr(e.right)
            if is_list(ta) and is_list(tb) and ta != tb and ta[1] in NUM and tb[1] in NUM:
                return ('(%s ++ %s)' % (self.coerce(a, ta, CNUMS), self.coerce(b, tb, CNUMS)), CNUMS)
            return TrW.expr(self, ast.BinOp(left=_Done(a, ta), op=e.op, right=_Wrap(e.right, b, tb)))
        if isinstance(e, ast.IfExp):
            nt = TU.none_test(e.test)
            if nt and nt[0] in self.env and nt[0] not in self.stable:
                ty = self.env[nt[0]]
                if ty == 'none':                      # the variable holds the literal None on this path
                    return self.expr(e.orelse if nt[1] else e.body)
                if not T.is_opt(ty) and not T.is_alias(ty):
                    return self.expr(e.body if nt[1] else e.orelse)
            ft = self.false_test(e.test)
            if ft:
                name, positive = ft
                inner = self.env[name][1]
                some_e, none_e = (e.body, e.orelse) if positive else (e.orelse, e.body)
                (a, ta), ba = self.narrowed_to(name, inner, lambda: self.isolated(lambda: self.expr(some_e)))
                (b, tb), bb = self.isolated(lambda: self.expr(none_e))
                if ba or bb:
                    raise Untranslatable('operation that may raise inside a conditional expression on `is False`')
                rt = self.join(a, ta, b, tb)
                nm = self.n(name)
                return ('(match %s with Some %s => %s | None => %s end)' % (nm, nm, self.coerce(a, ta, rt), self.coerce(b, tb, rt)), rt)
        if isinstance(e, ast.Dict) and e.keys and all(k is not None for k in e.keys) \
                and not any(isinstance(k, ast.Tuple) for k in e.keys):
            return self.int_dict(e)
        if isinstance(e, ast.DictComp):
            return self.dict_filter(e)
        return TrW.expr(self, e)

    def false_test(self, test):
        """(x, True) for `x is not False`, (x, False) for `x is False`, x of a type ('orfalse', T)."""
        if isinstance(test, ast.Compare) and len(test.ops) == 1 and isinstance(test.ops[0], (ast.Is, ast.IsNot)) \
                and isinstance(test.left, ast.Name) and isinstance(test.comparators[0], ast.Constant) \
                and test.comparators[0].value is False:
            ty = self.env.get(test.left.id)
            if isinstance(ty, tuple) and ty[0] == ORFALSE and test.left.id not in self.stable:
                return test.left.id, isinstance(test.ops[0], ast.IsNot)
        return None

    def narrowed_to(self, name, ty, f):
        saved = dict(self.env)
        self.env[name] = ty
        try:
            return f()
        finally:
            self.env = saved

    def int_dict(self, e):
        """{K1: v1, ...} with distinct int keys (literals / consts.X): an insertion-ordered list of pairs"""
        keys, vals, vt = [], [], None
        items = []
        for k, v in zip(e.keys, e.values):
            kt, kty = self.pure(lambda k=k: self.expr(k), 'a dict key')
            if kty != 'Z':
                raise Untranslatable('dict key of type %r' % (kty,))
            kv = k.value if isinstance(k, ast.Constant) else getattr(self.consts, k.attr, None) \
                if isinstance(k, ast.Attribute) and isinstance(k.value, ast.Name) and k.value.id == 'consts' else None
            if not isinstance(kv, int) or isinstance(kv, bool) or kv in keys:
                raise Untranslatable('dict key is not a distinct int constant')
            keys.append(kv)
            t, ty = self.pure(lambda v=v: self.expr(v), 'a dict literal')
            items.append((kt, t, ty))
            vt = ty if vt is None else self.join('', vt, t, ty)
        return (lst('(%s, %s)' % (kt, self.coerce(t, ty, vt)) for kt, t, ty in items), ('dictZ', vt))

    def dict_filter(self, e):
        """{k: v for k, v in d.items() if cond}: the entries of d that satisfy cond, in order"""
        if len(e.generators) != 1:
            raise Untranslatable('dict comprehension shape')
        g = e.generators[0]
        if g.is_async or not (isinstance(g.target, ast.Tuple) and len(g.target.elts) == 2
                              and all(isinstance(x, ast.Name) for x in g.target.elts)
                              and isinstance(e.key, ast.Name) and isinstance(e.value, ast.Name)
                              and [e.key.id, e.value.id] == [x.id for x in g.target.elts] and e.key.id != e.value.id
                              and isinstance(g.iter, ast.Call) and isinstance(g.iter.func, ast.Attribute)
                              and g.iter.func.attr == 'items' and not g.iter.args and not g.iter.keywords):
            raise Untranslatable('dict comprehension shape')
        d, td = self.expr(g.iter.func.value)
        if not (isinstance(td, tuple) and td[0] == 'dictZ'):
            raise Untranslatable('items() of %r' % (td,))
        k, v = e.key.id, e.value.id
        if k in self.env or v in self.env:
            raise Untranslatable('comprehension variable shadows a local')
        saved = dict(self.env)
        self.env[k], self.env[v] = 'Z', td[1]
        try:
            conds = [self.pure(lambda c=c: self.as_bool(c), 'a comprehension condition') for c in g.ifs]
        finally:
            self.env = saved
        c = 'true'
        for p in reversed(conds):
            c = p if c == 'true' else '(andb %s %s)' % (p, c)
        return ("(filter (fun kv_ => let '(%s, %s) := kv_ in %s) %s)" % (self.n(k), self.n(v), c, d), td)

    def subscript(self, e):
        if self.monadic and isinstance(e.value, ast.Name):
            nm = e.value.id
            d = self.writers_dict(nm)
            if d is not None and nm == '_NAME2RGB' and not isinstance(e.slice, ast.Slice):
                if not all(isinstance(k, str) and isinstance(v, tuple) and len(v) == 3
                           and all(isinstance(x, int) and not isinstance(x, bool) for x in v) for k, v in d.items()):
                    raise Untranslatable('_NAME2RGB is not a dict str -> (int, int, int)')
                k, tk = self.expr(e.slice)
                if tk != 'text':
                    raise Untranslatable('key of type %r' % (tk,))
                return self.bind('(py_name2rgb_get SrcTables.NAME2RGB %s)' % k, ('list', 'Z'))
            if self.env.get(nm) == 'text':
                s = self.n(nm)
                if isinstance(e.slice, ast.Slice):
                    sl = e.slice
                    if sl.step is not None:
                        raise Untranslatable('slice with a step')
                    lo = self.expr(sl.lower) if sl.lower is not None else None
                    hi = self.expr(sl.upper) if sl.upper is not None else None
                    if any(b is not None and b[1] != 'Z' for b in (lo, hi)):
                        raise Untranslatable('slice bound is not an int')
                    if lo is None and hi is None:
                        return (s, 'text')
                    if hi is None:
                        return ('(py_slice_from %s %s)' % (s, lo[0]), 'text')
                    return ('(py_slice %s %s %s)' % (s, lo[0] if lo else '0', hi[0]), 'text')
                k, tk = self.expr(e.slice)
                if tk != 'Z':
                    raise Untranslatable('index is not an int')
                return self.bind('(py_str_index %s %s)' % (s, k), 'text')
        return TrW.subscript(self, e)

    def call(self, e):
        f = e.func
        if not self.monadic:
            return TrW.call(self, e)
        if isinstance(f, ast.Name) and f.id not in self.env:
            name = f.id
            if name == 'all' and self.builtin('all') and len(e.args) == 1 and not e.keywords \
                    and isinstance(e.args[0], (ast.GeneratorExp, ast.ListComp)):
                term, ty = self.comprehension(e.args[0])
                if ty != ('list', 'bool'):        # all() stops at the first false item: the items must not raise
                    raise Untranslatable('all over %r' % (ty,))
                return ('(py_all %s)' % term, 'bool')
            if name == 'int' and self.builtin('int') and len(e.args) == 2 and not e.keywords \
                    and isinstance(e.args[1], ast.Constant) and e.args[1].value == 16 and not isinstance(e.args[1].value, bool):
                a, ta = self.expr(e.args[0])
                if ta != 'text':
                    raise Untranslatable('int(%r, 16)' % (ta,))
                return self.bind('(py_int_str16 %s)' % a, 'Z')
            if name == 'float' and self.builtin('float') and len(e.args) == 1 and not e.keywords:
                a, ta = self.expr(e.args[0])
                if ta == 'text':
                    self.partial += 1
                    return self.bind('(py_float_of_str %s)' % a, 'float')
                return TrW.call(self, ast.Call(func=f, args=[_Done(a, ta)], keywords=[]))
            if name == 'isinstance':
                it = self.isinstance_test(e)
                if it is None:
                    raise Untranslatable('isinstance ' + ast.dump(e)[:60])
                x, cls, _ = it
                r = self.static_isinstance(self.env[x], cls)
                if r == 'dyn':
                    (c1, _), (c2, _) = self.sum_arms(self.env[x], cls)
                    return ('(match %s with %s _ => true | %s _ => false end)' % (self.n(x), c1, c2), 'bool')
                return ('true' if r else 'false', 'bool')
            if self.star_kw and e.keywords and e.keywords[-1].arg is None:
                return self.call_star_kw(e)
            if name in self.funs and any(isinstance(a, ast.Starred) for a in e.args):
                return self.call_star_args(e)
        if isinstance(f, ast.Attribute) and f.attr == 'lower' and not e.args and not e.keywords:
            a, ta = self.expr(f.value)
            if ta == 'text':
                return ('(py_str_lower %s)' % a, 'text')
            if ta == 'color':
                return self.bind('(py_color_lower %s)' % a, 'color')
            if is_list(ta):
                return self.bind('(Err AttributeErr)', 'text')
            raise Untranslatable('lower of %r' % (ta,))
        if isinstance(f, ast.Attribute) and f.attr == 'get' and isinstance(f.value, ast.Name) and len(e.args) == 2 \
                and not e.keywords and self.writers_dict(f.value.id) is not None and f.value.id == '_ALPHA_COMMONS':
            k, tk = self.expr(e.args[0])
            d, td = self.expr(e.args[1])              # the default is evaluated before the lookup
            if tk != 'Z' or td != 'float':
                raise Untranslatable('_ALPHA_COMMONS.get(%r, %r)' % (tk, td))
            self.alpha_table()
            return ('(py_dict_get_default ALPHA_COMMONS_F %s %s)' % (k, d), 'float')
        if isinstance(f, ast.Attribute) and f.attr == 'encode':
            self.unicode_ops += 1
        return TrW.call(self, e)

    def alpha_table(self):
        d = self.writers._ALPHA_COMMONS
        if not all(isinstance(k, int) and not isinstance(k, bool) and isinstance(v, float) for k, v in d.items()):
            raise Untranslatable('_ALPHA_COMMONS is not a dict int -> float')
        return lst('(%s, %s)' % (z(k), float_lit(v)) for k, v in d.items())

    def call_star_args(self, e):
        """f(*pair, k=v, ...) for a translated f with two leading int parameters and a tuple of ints `pair` (TypeError for
        another length: a wrong number of positional arguments)"""
        d = self.funs[e.func.id]
        if len(e.args) != 1 or not isinstance(e.args[0].value, ast.Name):
            raise Untranslatable('call arguments')
        t, ty = self.expr(e.args[0].value)
        if ty != ('list', 'Z') or [pt for _, pt in d['params'][:2]] != ['Z', 'Z']:
            raise Untranslatable('f(*%r)' % (ty,))
        a, b = self.fresh(), self.fresh()
        self.pending.append(('(%s, %s)' % (a, b), '(py_star_args2 %s)' % t))
        self.effects += 1
        call = ast.Call(func=e.func, args=[_Done(a, 'Z'), _Done(b, 'Z')], keywords=e.keywords)
        return self.apply(call, d)

    def call_star_kw(self, e):
        """f(a, b, out, cm, **kw): kw holds exactly the remaining parameters of f, passed on unchanged"""
        kwname, kwparams = self.star_kw
        last = e.keywords[-1]
        if not (isinstance(last.value, ast.Name) and last.value.id == kwname) or len(e.keywords) != 1:
            raise Untranslatable('**kw call shape')
        d = self.funs.get(e.func.id)
        if d is None:
            raise Untranslatable('call of ' + e.func.id)
        given = len(e.args)
        rest = d['src_params'][given:]
        if [p for p, _ in rest] != [p for p, _ in kwparams] or any(isinstance(a, ast.Starred) for a in e.args):
            raise Untranslatable('**%s does not carry the remaining parameters of %s' % (kwname, e.func.id))
        args = []
        for (p, pt), a in zip(d['src_params'][:given], e.args):
            if pt == 'out':
                if not (isinstance(a, ast.Name) and a.id == self.out_name):
                    raise Untranslatable('the output parameter')
                continue
            t, ty = self.expr(a)
            args.append(self.coerce(t, ty, pt))
        args += [self.n(p) for p, _ in kwparams]
        term = '(%s %s)' % (d['coq'], ' '.join(self.ext_args(d) + args))
        self.effects += 1
        return self.bind(term, d['ret'])

    def format_star(self, fmt, arg):
        """'..{0}..{1:02x}..'.format(*seq) for a tuple of numbers: str(int) / repr(float) (a parameter), 02x of an int
        (ValueError for a float)"""
        saved = (list(self.pending), self.counter, self.effects)
        xs, tx = self.expr(arg)
        if tx != CNUMS:
            self.pending, self.counter, self.effects = saved
            return TrW.format_star(self, fmt, arg)
        parts = []
        for lit, field, spec, conv in string.Formatter().parse(fmt):
            if lit:
                parts.append(cps(lit))
            if field is None:
                continue
            if conv is not None or not field.isdigit() or spec not in ('', '02x'):
                raise Untranslatable('replacement field {%s!%s:%s}' % (field, conv, spec))
            v = self.bind('(nthZ %s %s)' % (xs, z(int(field))), 'cnum')[0]
            if spec:
                parts.append(self.bind('(match %s with PyNInt x_ => Ok (py_fmt_02x x_) | PyNFlt _ => Err ValueError end)' % v, 'text')[0])
            else:
                self.uses_float_repr = True
                parts.append('(match %s with PyNInt x_ => py_str_int x_ | PyNFlt x_ => ext_float_repr x_ end)' % v)
        return ('(%s)' % ' ++ '.join(parts) if parts else '(@nil Z)', 'text')

    uses_float_repr = False
    out_name = None

    def compare(self, l, op, r):
        if self.monadic and isinstance(op, (ast.In, ast.NotIn)):
            if isinstance(r, ast.Tuple):
                a, ta = self.expr(l)
                if ta == 'color':
                    parts = []
                    for it, t in [self.expr(x) for x in r.elts]:
                        if t == 'text':
                            parts.append('(py_color_eq_str %s %s)' % (a, it))
                        elif is_list(t) and t[1] in NUM:
                            parts.append('(py_color_eq_tuple %s %s)' % (a, self.coerce(it, t, CNUMS)))
                        else:
                            raise Untranslatable('colour compared with %r' % (t,))
                    out = 'false'
                    for p in reversed(parts):
                        out = '(orb %s %s)' % (p, out)
                    return out if isinstance(op, ast.In) else '(negb %s)' % out
                l = _Done(a, ta)
            elif isinstance(r, ast.Constant) and isinstance(r.value, str):
                a, ta = self.expr(l)
                if ta != 'text':
                    raise Untranslatable('%r in a str' % (ta,))
                out = '(py_str_in %s %s)' % (a, cps(r.value))
                return out if isinstance(op, ast.In) else '(negb %s)' % out
        return TrW.compare(self, l, op, r)

    def float_side(self, a, ta):
        if ta == 'float':
            return a
        m = LIT.match(a.split(' (*')[0].strip())
        if ta == 'Z' and m and abs(int(m.group(1))) < 2 ** 53:
            return '(py_float_of_Z %s)' % a           # an int literal: converted exactly, then compared as floats
        raise Untranslatable('comparison of a float with a non-literal int')

    def compare_vals(self, a, ta, b, tb, op):
        if ta in NUM and tb in NUM and (ta, tb) != ('Z', 'Z'):
            if 'cnum' in (ta, tb):
                if not isinstance(op, (ast.Eq, ast.NotEq)):
                    raise Untranslatable('ordering of a number that may be an int or a float')
                t = '(py_cnum_eqb %s %s)' % (self.coerce(a, ta, 'cnum'), self.coerce(b, tb, 'cnum'))
                return t if isinstance(op, ast.Eq) else '(negb %s)' % t
            fa, fb = self.float_side(a, ta), self.float_side(b, tb)
            if isinstance(op, ast.Eq):
                return '(py_float_eqb %s %s)' % (fa, fb)
            if isinstance(op, ast.NotEq):
                return '(negb (py_float_eqb %s %s))' % (fa, fb)
            if isinstance(op, ast.Lt):
                return '(py_float_ltb %s %s)' % (fa, fb)
            if isinstance(op, ast.LtE):
                return '(py_float_leb %s %s)' % (fa, fb)
            if isinstance(op, ast.Gt):
                return '(py_float_ltb %s %s)' % (fb, fa)
            if isinstance(op, ast.GtE):
                return '(py_float_leb %s %s)' % (fb, fa)
        return TrW.compare_vals(self, a, ta, b, tb, op)

    # ---------------------------------------------------------------- statements
    def message_effects(self, args):
        """The arguments of a raised exception are evaluated first: subscripts of local sequences may raise IndexError
        (the value itself is not modelled); everything else must be what Tr.check_message accepts."""
        for a in args:
            subs = []
            for n in ast.walk(a):
                if isinstance(n, ast.FormattedValue) and isinstance(n.value, ast.Subscript) and n.format_spec is None \
                        and n.conversion == -1 and isinstance(n.value.value, ast.Name) \
                        and is_list(self.env.get(n.value.value.id)) and isinstance(n.value.slice, ast.Constant) \
                        and isinstance(n.value.slice.value, int) and not isinstance(n.value.slice.value, bool):
                    subs.append(n)
            for n in subs:
                self.expr(n.value)                       # emits the bind; the value is dropped
                n.value = ast.Name(id=n.value.value.id, ctx=ast.Load())
        self.check_message(args)

    def stmts(self, ss, ctx):
        if not ss:
            return ctx.fall()
        s, rest = ss[0], ss[1:]
        if self.pending:
            raise Untranslatable('internal: dangling binds')
        if not self.monadic:
            return TrW.stmts(self, ss, ctx)
        if isinstance(s, ast.Raise):
            if s.cause is not None or not isinstance(s.exc, ast.Call) or not isinstance(s.exc.func, ast.Name) or s.exc.keywords:
                raise Untranslatable('raise ' + ast.dump(s)[:80])
            con = self.exn_of(s.exc.func.id, exact=True)[0]
            self.message_effects(list(s.exc.args))
            binds = self.take()
            self.effects += 1
            return self.wrap(binds, 'Err %s' % con)
        if isinstance(s, ast.If) and self.isinstance_test(s.test):
            x, cls, neg = self.isinstance_test(s.test)
            yes, no = (s.orelse, s.body) if neg else (s.body, s.orelse)
            r = self.static_isinstance(self.env[x], cls)
            if r is True:
                return self.stmts(list(yes) + rest, ctx)
            if r is False:
                return self.stmts(list(no) + rest, ctx)
            if x in self.stable or x in self.assigned(s.body + s.orelse):
                raise Untranslatable('isinstance on a variable that is loop state or rebound in the branches')
            (c1, t1), (c2, t2) = self.sum_arms(self.env[x], cls)
            a = self.narrowed_to(x, t1, lambda: self.stmts(list(yes) + rest, ctx))
            b = self.narrowed_to(x, t2, lambda: self.stmts(list(no) + rest, ctx))
            nm = self.n(x)
            return '(match %s with\n | %s %s => %s\n | %s %s => %s\n end)' % (nm, c1, nm, a, c2, nm, b)
        if isinstance(s, ast.Assign) and len(s.targets) == 1 and isinstance(s.targets[0], ast.Name) \
                and s.targets[0].id in self.var_decl:
            name, decl = s.targets[0].id, self.var_decl[s.targets[0].id]
            if T.is_alias(self.env.get(name)) or any(T.is_alias(t) and t[1] == name for t in self.env.values()):
                raise Untranslatable('rebinding of an aliased object ' + name)
            t, ty = self.expr(s.value)
            binds = self.take()
            if isinstance(s.value, ast.Name) and is_list(ty):
                raise Untranslatable('second reference to a mutable object')
            self.env[name] = decl
            self.nonneg.discard(name)
            return self.wrap(binds, '(let %s := %s in\n %s)' % (self.n(name), self.coerce(t, ty, decl), self.stmts(rest, ctx)))
        return TrW.stmts(self, ss, ctx)

    def try_except(self, s, rest, ctx):
        """Tr.try_except, with (1) variables first bound in the body that neither the handler nor the rest reads allowed,
        (2) the marker py_unmodelled (= UnicodeErr) never caught: refused if a genuine UnicodeError can occur in the body."""
        if s.orelse or s.finalbody or len(s.handlers) != 1:
            raise Untranslatable('try shape')
        h = s.handlers[0]
        if not isinstance(h.type, ast.Name) or h.name is not None:
            raise Untranslatable('except clause')
        caught = [c for c in self.exn_of(h.type.id, exact=False) if c != 'UnicodeErr']
        if not caught:
            raise Untranslatable('except clause catches nothing that is modelled')
        before = dict(self.env)
        names = self.assigned(s.body)
        outside = ast.Module(body=list(h.body) + list(rest), type_ignores=[])
        mentioned = set(n.id for n in ast.walk(outside) if isinstance(n, ast.Name))
        local = set(nme for nme in names if nme not in before and nme not in mentioned)
        others = names - local
        if others and not (len(s.body) == 1 and isinstance(s.body[0], ast.Assign)):
            raise Untranslatable('try body rebinds variables')
        if any(nme not in before for nme in others):
            raise Untranslatable('try body defines a new variable')
        if contains(s.body, ast.Continue):
            raise Untranslatable('continue inside try')
        state = sorted(others)
        has_ret = contains(s.body, ast.Return)
        has_brk = contains(s.body, ast.Break)
        p = self.pack(state)
        falls = []

        def fall():
            falls.append(dict(self.env))
            return 'Ok (CNext %s)' % p

        def brk():
            falls.append(dict(self.env))
            return 'Ok (CBrk %s)' % p
        tctx = Ctx(ret=lambda t: 'Ok (CRet %s)' % t if t is not None else self.no_value(), fall=fall,
                   brk=brk if ctx.brk else None)
        self.depth += 1
        self.effects += 1
        u0 = self.unicode_ops
        body = self.stmts(list(s.body), tctx)
        if self.unicode_ops != u0:
            raise Untranslatable('an operation that can raise UnicodeError inside try (the marker shares its constructor)')
        self.depth -= 1
        after = dict(before)
        for nme in state:
            tys = set(repr(f.get(nme)) for f in falls)
            if len(tys) > 1:
                raise Untranslatable('variable %s has different types after try' % nme)
            if falls:
                after[nme] = falls[0][nme]
        self.env = dict(before)
        handler = self.stmts(list(h.body) + rest, ctx)
        retb = ctx.ret("r'") if has_ret else "(match r' return _ with end)"
        if not has_ret or not falls:
            body = '(%s : res (ctl %s %s))' % (body, '_' if has_ret else 'void', '_' if falls else 'void')
        out = "(match %s with\n | %s => %s\n | Err e' => Err e'\n | Ok (CRet r') => %s\n" % (
            body, ' | '.join('Err %s' % c for c in caught), handler, retb)
        if not falls:
            return out + " | Ok (CNext st') | Ok (CBrk st') => (match st' return _ with end)\n end)"
        self.env = dict(after)
        restt = self.unpack(state, "st'", self.stmts(rest, ctx))
        if has_brk:
            self.env = dict(after)
            out += " | Ok (CBrk st') => %s\n | Ok (CNext st') => %s\n end)" % (self.unpack(state, "st'", ctx.brk()), restt)
        else:
            out += " | Ok (CNext st') | Ok (CBrk st') => %s\n end)" % restt
        return out

    def apply(self, e, desc, first=None):
        if desc.get('unicode'):
            self.unicode_ops += 1
        if desc.get('float_repr'):
            self.uses_float_repr = True
        return TrW.apply(self, e, desc, first)

    def ext_args(self, desc):
        out = TrW.ext_args(self, desc)
        if desc.get('float_repr'):
            out = ['ext_float_repr'] + out
        return out


# ------------------------------------------------------------------ function level
class Group:
    def __init__(self, mods, tree, report, funs, deps=()):
        self.mods, self.tree, self.report, self.funs = mods, tree, report, funs
        self.out = [HEADER_C + ''.join('From SegnoSrc Require Import %s.\n' % d for d in deps)]

    def text(self):
        return '\n'.join(self.out) + '\n'

    def attempt(self, name, fn):
        try:
            self.out.append(fn())
            self.report['functions'][name] = 'ok'
        except Untranslatable as ex:
            self.report['functions'][name] = 'untranslatable: %s' % ex
            self.out.append('(* %s: untranslatable: %s *)' % (name, str(ex).replace('*)', '* )').replace('(*', '( *')))
        except Exception as ex:  # source changed shape in a way we do not understand: fail closed
            self.report['functions'][name] = 'untranslatable: %s: %s' % (type(ex).__name__, ex)
            self.out.append('(* %s: untranslatable (%s) *)' % (name, type(ex).__name__))

    def define(self, name, params, var_decl=None, fn_node=None, coqname=None, star_kw=None, out=None, externals=None):
        """Translate writers.<name> for arguments of the declared types (Python is untyped: the bridge theorems speak about
        arguments of these types)."""
        writers = self.mods['writers']

        def go():
            src = fn_node if fn_node is not None else find_top(self.tree, name)
            fn = ast.parse(ast.unparse(src)).body[0]                      # a private copy
            a = fn.args
            if a.vararg or a.kwonlyargs or a.posonlyargs or fn.decorator_list and fn_node is None:
                raise Untranslatable('signature of ' + name)
            if (a.kwarg is not None) != (star_kw is not None) or (a.kwarg and a.kwarg.arg != star_kw[0]):
                raise Untranslatable('**kwargs of ' + name)
            got = [x.arg for x in a.args]
            if got != [p for p, _ in params]:
                raise Untranslatable('parameters changed: %s' % got)
            defaults = dict(zip(got[len(got) - len(a.defaults):], a.defaults))
            for d in defaults.values():
                if not isinstance(d, (ast.Constant, ast.Name)):
                    raise Untranslatable('non-literal default value')
            T.strip_docstrings(fn)
            if contains(fn.body, (ast.Yield, ast.YieldFrom, ast.Await, ast.While, ast.Global, ast.Nonlocal, ast.Delete,
                                  ast.NamedExpr, ast.Import, ast.ImportFrom, ast.ClassDef, ast.With, ast.Lambda, ast.FunctionDef)):
                raise Untranslatable('statement outside the fragment')
            for n in ast.walk(fn):
                if isinstance(n, (ast.Subscript, ast.Attribute)) and not isinstance(n.ctx, ast.Load):
                    raise Untranslatable('store into a sequence / attribute')
            TW.check_one_shot(fn)
            cparams = [(p, t) for p, t in params if t != 'out'] + list(star_kw[1] if star_kw else [])
            ptypes = dict(cparams)
            lfuns = dict(self.funs)
            for en, (eparams, eret) in (externals or {}).items():
                lfuns[en] = {'coq': 'ext_' + en, 'params': list(eparams), 'defaults': {}, 'ret': eret, 'monadic': True, 'mutates': []}

            def run(rt_decl, total=False):
                tr = TrC(self.mods['consts'], env=ptypes, monadic=True, funs=lfuns, mods=self.mods, writers=writers)
                tr.rt_decl = rt_decl
                tr.var_decl = dict(var_decl or {})
                tr.ever_mutated = set()
                tr.star_kw = star_kw
                tr.out_name = out
                try:
                    tr.inplace = tr.changed_in_place(fn.body)
                except Untranslatable:
                    tr.inplace = None

                def ret(t):
                    if t is None:
                        raise Untranslatable('return without value')
                    return t if total else 'Ok %s' % t
                body = tr.stmts(list(ast.parse(ast.unparse(fn)).body[0].body), Ctx(ret=ret, fall=tr.no_fall))
                return tr, body
            tr, body = run(None)
            if not tr.rt_seen:
                raise Untranslatable('function never returns a value')
            t0, rt = tr.rt_seen[0]
            for t, ty in tr.rt_seen[1:]:
                rt = tr.join(t0, rt, t, ty)
            total = tr.effects == 0 and not externals
            tr, body = run(rt, total)
            if total and tr.effects:
                raise Untranslatable('internal: effects in a total function')
            if '?' in repr(rt):
                raise Untranslatable('the item type of the result is not determined')
            cn = coqname or 'src_' + name
            sig = ' '.join('(%s : %s)' % (tr.n(p), ctype(t)) for p, t in cparams)
            if externals:
                sig = ' '.join('(ext_%s : %s -> res (%s))' % (en, ' -> '.join(ctype(t) for _, t in ep), ctype(er))
                               for en, (ep, er) in externals.items()) + ' ' + sig
            if tr.uses_float_repr:
                sig = '(ext_float_repr : py_float -> list Z) ' + sig      # repr(float): CPython's shortest round-trip repr
            self.funs[name] = {'coq': cn, 'params': list(cparams), 'src_params': list(params), 'defaults': defaults, 'ret': rt,
                               'monadic': not total, 'mutates': [], 'externals': list(externals or {}),
                               'partial': tr.partial > 0, 'unicode': tr.unicode_ops > 0, 'float_repr': tr.uses_float_repr}
            return 'Definition %s %s : %s :=\n %s.\n' % (cn, sig, ctype(rt) if total else 'res (%s)' % ctype(rt), body)
        return go


def colorful_wrapper(tree, writers):
    """The function `wrapper` inside `decorate` inside `colorful`, with the closure variables dark / light of the decorator
    call @colorful(dark='#000', light='#fff') (write_ppm) as the defaults of its parameters dark / light."""
    col = find_top(tree, 'colorful')
    want_params = ['dark', 'light']
    if [x.arg for x in col.args.args] != want_params or col.args.defaults or col.args.vararg or col.args.kwarg:
        raise Untranslatable('signature of colorful')
    body = [st for st in T.strip_docstrings(ast.parse(ast.unparse(col))).body[0].body]
    if len(body) != 2 or not isinstance(body[0], ast.FunctionDef) or body[0].name != 'decorate' \
            or not (isinstance(body[1], ast.Return) and isinstance(body[1].value, ast.Name) and body[1].value.id == 'decorate'):
        raise Untranslatable('colorful changed')
    dec = body[0]
    if [x.arg for x in dec.args.args] != ['f'] or dec.args.defaults or dec.args.vararg or dec.args.kwarg or dec.decorator_list:
        raise Untranslatable('colorful.decorate changed')
    db = dec.body
    if len(db) != 2 or not isinstance(db[0], ast.FunctionDef) or db[0].name != 'wrapper' \
            or not (isinstance(db[1], ast.Return) and isinstance(db[1].value, ast.Name) and db[1].value.id == 'wrapper'):
        raise Untranslatable('colorful.decorate changed')
    w = db[0]
    if [ast.unparse(d) for d in w.decorator_list] != ['functools.wraps(f)'] or writers.functools is not __import__('functools'):
        raise Untranslatable('decorators of colorful.wrapper')
    w.decorator_list = []
    return w


def translate_colors(mods, outdir, report):
    writers = mods['writers']
    tree = ast.parse(inspect.getsource(writers))
    Z, B, OZ, TEXT, COLOR, OCOLOR, CNUM = 'Z', 'bool', 'oZ', 'text', 'color', 'ocolor', 'cnum'
    files = {}
    funs = {}
    g = Group(mods, tree, report, funs)

    def table():
        tr = TrC(mods['consts'], env={}, monadic=True, funs={}, mods=mods, writers=writers)
        return 'Definition ALPHA_COMMONS_F : list (Z * py_float) := %s.\n' % tr.alpha_table()
    g.attempt('_ALPHA_COMMONS', table)
    g.attempt('_alpha_value', g.define('_alpha_value', [('color', CNUM), ('alpha_float', B)]))
    g.attempt('_hex_to_rgb_or_rgba', g.define('_hex_to_rgb_or_rgba', [('color', TEXT), ('alpha_float', B)], var_decl={'res': CNUMS}))
    g.attempt('_color_to_rgba', g.define('_color_to_rgba', [('color', COLOR), ('alpha_float', B)], var_decl={'res': CNUMS}))
    g.attempt('_color_to_rgb_or_rgba', g.define('_color_to_rgb_or_rgba', [('color', COLOR), ('alpha_float', B)]))
    g.attempt('_color_to_rgb', g.define('_color_to_rgb', [('color', COLOR)]))
    g.attempt('_color_is_black', g.define('_color_is_black', [('color', COLOR)]))
    g.attempt('_color_is_white', g.define('_color_is_white', [('color', COLOR)]))
    g.attempt('_color_to_webcolor', g.define('_color_to_webcolor', [('color', COLOR), ('allow_css3_colors', B), ('optimize', B)]))
    OPTC = (ORFALSE, OCOLOR)
    cm_opts = ['finder_dark', 'finder_light', 'data_dark', 'data_light', 'version_dark', 'version_light', 'format_dark',
               'format_light', 'alignment_dark', 'alignment_light', 'timing_dark', 'timing_light', 'separator', 'dark_module',
               'quiet_zone']
    g.attempt('_make_colormap', g.define('_make_colormap', [('matrix_width', Z), ('matrix_height', Z), ('dark', OCOLOR), ('light', OCOLOR)]
                                         + [(o, OPTC) for o in cm_opts], var_decl={'unsupported': ('list', Z)}))
    files['SrcColor.v'] = g.text()

    # ---- SrcColorful.v: write_ppm as the user calls it -- the wrapper of @colorful(dark='#000', light='#fff') around the
    #      function translate_writers.py has translated (SrcWrNetpbm.src_write_ppm, which takes the colormap dict)
    g2 = Group(mods, tree, report, funs, deps=('SrcColor', 'SrcWrNetpbm'))

    def wrapper():
        try:
            with open(os.path.join(outdir, 'SrcWrNetpbm.v')) as f:
                netpbm = f.read()
        except OSError:
            netpbm = ''
        want = ('Definition src_write_ppm (ext__color_to_rgb : option py_color -> res (list (Z))) (matrix : list (list (Z))) '
                '(matrix_size : list (Z)) (colormap : list (Z * option py_color)) (scale : Z) (border : option Z) : res (list Z) :=')
        if want not in netpbm:
            raise Untranslatable('no translation of write_ppm with the expected signature')
        ppm = find_top(tree, 'write_ppm')
        if [ast.unparse(d) for d in ppm.decorator_list] != ["colorful(dark='#000', light='#fff')"]:
            raise Untranslatable('decorators of write_ppm')
        src_params = [('matrix', TW.LL), ('matrix_size', ('list', Z)), ('out', 'out'), ('colormap', ('dictZ', OCOLOR)), ('scale', Z),
                      ('border', OZ)]
        if [x.arg for x in ppm.args.args] != [p for p, _ in src_params] or ppm.args.kwarg or ppm.args.vararg:
            raise Untranslatable('parameters of write_ppm changed')
        w = colorful_wrapper(tree, writers)
        # the closure variables dark / light of this decorator call are the defaults of the wrapper's parameters
        g2.funs = dict(funs)
        g2.funs['f'] = {'coq': 'src_write_ppm', 'params': [(p, t) for p, t in src_params if t != 'out'], 'src_params': src_params,
                        'defaults': {}, 'ret': 'stream_b', 'monadic': True, 'mutates': [], 'externals': ['_color_to_rgb']}
        # the colour conversion stays the parameter of src_write_ppm (its type there: colour-or-None -> tuple of ints)
        ext = {'_color_to_rgb': ([('color', OCOLOR)], ('list', Z))}
        wparams = [('matrix', TW.LL), ('matrix_size', ('list', Z)), ('out', 'out'), ('dark', OCOLOR), ('light', OCOLOR)] \
            + [(o, OPTC) for o in cm_opts]
        return g2.define('wrapper', wparams, fn_node=w, coqname='src_write_ppm_colorful', out='out',
                         star_kw=('kw', [('scale', Z), ('border', OZ)]), externals=ext)()
    g2.attempt('colorful(write_ppm)', wrapper)
    files['SrcColorful.v'] = g2.text()
    return files


COLOR_FILES = ('SrcColor.v', 'SrcColorful.v')


def main():
    repo, outdir = sys.argv[1], sys.argv[2]
    sys.path.insert(0, repo)
    os.makedirs(outdir, exist_ok=True)
    report = {'functions': {}, 'changed': []}
    files = {}
    try:
        mods = {m: importlib.import_module('segno.' + m) for m in ('consts', 'encoder', 'utils', 'writers')}
        if not os.path.realpath(mods['writers'].__file__).startswith(os.path.realpath(repo)):
            raise RuntimeError('segno imported from %s, not from %s' % (mods['writers'].__file__, repo))
        files = translate_colors(mods, outdir, report)
    except Exception as ex:
        report['functions']['*'] = 'failed: %s: %s' % (type(ex).__name__, ex)
    for name in COLOR_FILES:
        text = files.get(name)
        if not isinstance(text, str):
            text = HEADER_C + '(* %s: translation failed *)\n' % name
        if write_if_changed(os.path.join(outdir, name), text):
            report['changed'].append(name)
    print(json.dumps(report, indent=1))


if __name__ == '__main__':
    main()
