#!/usr/bin/env python3
"""Fail-closed translator for the simple serializers of /repo/segno/writers.py -> Gallina
(build/gen/SrcWrCommon.v: _valid_width_height_and_border, get_symbol_size at int scale;
 build/gen/SrcWrText.v: write_txt, write_xbm, write_xpm, write_terminal, write_terminal_compact;
 build/gen/SrcWrNetpbm.v: write_pbm, write_pam, write_ppm).

Built on gen/translate.py (class Tr) and gen/translate_utils.py (class TrU: numbers over Q, `is None` narrowing, functions
returning None, generators as lists); nothing of those files is edited.  This file adds, in the subclass TrW and with the
support library theories/Base/PySemIO.v:

* output streams: `with writable(out, mode) as f: BODY` (only as the last statement of a function, only while the source of
  writers.writable is literally WRITABLE_EXPECTED) becomes  f = <empty stream>; BODY; return f  -- the function returns what
  was written; `f.write(x)` and the alias `write = f.write` append x (py_write); the parameter `out` disappears;
* str / bytes as lists of code points / items: constants, f-strings (str and int values, format spec 02x), `str(x)`,
  `sep.join(..)`, `+`, `* n`, `.encode('ascii')`, `'..{0:02x}..'.format(*seq)`, the module constant CREATOR (SrcTables);
* one-shot iterators as lists, with a static check that each is consumed at most once (not inside a loop it was created
  outside of): generator expressions, `zip_longest(*[iter(x)] * n, fillvalue=c)` (py_grouper), `enumerate(x, start=k)`,
  `chain(a, b, ..)`, calls of the generator functions utils.matrix_iter / matrix_iter_verbose (kept unevaluated until they are
  consumed: the code before the first yield runs at the first next());
* `reduce(lambda x, y: e, seq)`, `seq[::-1]`, `bytearray(<iterator>)`, nested functions (Tr.local_def, with this subclass),
  `g = partial(f, k=v)` for a nested function f, `pack(b'>nB', ...)` (py_pack_B), unpacking of a generator expression,
  `x in (t1, t2)` for tuples of ints, `None in d.values()`, `for k, v in d.items(): d[k] = f(v)` (the values replaced in order),
  narrowing of `x is None` for every option type (the `if` joined when its branches only fall through), truthiness of a colour;
* write_terminal_compact: a dict literal with tuple-of-int keys (py_getL), `it = [<generator call>] * 2` with
  `zip_longest(*it, fillvalue=repeat(c))` (py_pairs_fill: consecutive rows paired, the odd last one with the infinite iterator)
  and `zip(a, b)` with such a b (py_zip_inf);
* a decorated function is translated only when the decorator list is literally the expected one (write_ppm: the function
  under @colorful, i.e. write_ppm.__wrapped__, which takes the colormap dict);
* calls of the functions of utils.py that gen/translate_utils.py has translated (SrcUtils.v, SrcUtilsIter.v, SrcUtilsVerbose.v:
  parameter names and defaults are read from the current utils.py, the definitions with the expected signatures are looked up
  in the freshly written files, Coq type-checks the calls);
* untranslated callees (colour conversion) as leading parameters ext_<name> of the generated definition.

Nothing here decides a property: it regenerates Coq text which coqc checks against the models Model/TextFmt.v and
Model/Netpbm.v through the bridge theorems theories/Tie/TieWrText.v and theories/Tie/TieWrNetpbm.v.

Usage: translate_writers.py <repo> <outdir>      (prints a JSON status report on stdout)
"""
import ast
import contextlib
import functools
import importlib
import inspect
import itertools
import json
import os
import string
import sys
import textwrap

sys.path.insert(0, os.path.dirname(os.path.abspath(__file__)))
import translate as T                                                    # noqa: E402
import translate_utils as TU                                             # noqa: E402
from translate import Tr, Ctx, Untranslatable, write_if_changed, coqtype as base_coqtype, contains, is_list, z, lst  # noqa: E402
from translate_utils import TrU, _Done, _Wrap                            # noqa: E402

# ------------------------------------------------------------------ types added to the fragment
# 'text' a str, 'bytes' a bytes object, 'stream_t' / 'stream_b' a text / binary stream (all list Z);
# ('gen', T) a one-shot iterator whose items cannot raise (list T); ('lazygen', T) one whose production may raise, or that
# has not started yet (res (list T)); 'color' / 'ocolor' a colour argument (py_color / option py_color)
T.SCALAR_COQ.update({'text': 'list Z', 'bytes': 'list Z', 'stream_t': 'list Z', 'stream_b': 'list Z',
                     'color': 'py_color', 'ocolor': 'option py_color'})
T.OPT.update({'ocolor': 'color'})
T.OPT_OF.update({'color': 'ocolor'})
T.COQ_RESERVED.update({'app', 'rev', 'concat', 'length', 'fst', 'snd', 'combine', 'repeat', 'firstn', 'skipn', 'nth',
                       'option_map', 'inject_Z', 'SrcUtils', 'SrcUtilsIter', 'SrcUtilsVerbose', 'SrcWrCommon', 'SrcWrText',
                       'SrcWrNetpbm', 'PySemIO', 'fold_left', 'py_color', 'PyCStr', 'PyCTuple'})

LL = TU.LL
SIZE = ('list', 'Z')
STREAMS = {'wt': 'stream_t', 'wb': 'stream_b'}
STREAM_ITEM = {'stream_t': ('text',), 'stream_b': ('bytes', 'buf')}
NEW_STREAM = '__new_stream__'

HEADER_W = ('(* GENERATED by gen/translate_writers.py from the current /repo working tree -- do not edit. *)\n'
            'From Coq Require Import String.\n'
            'From Coq Require Import ZArith QArith List Bool.\n'
            'Import ListNotations.\n'
            'Open Scope Z_scope.\n'
            'From Segno Require Import Base.PyLite Base.PySem Base.PySemGen Base.PySemIO.\n'
            'From SegnoSrc Require SrcTables.\n')

# the context manager every serializer writes through; anything else makes every writer untranslatable
WRITABLE_EXPECTED = '''
@contextmanager
def writable(file_or_path, mode, encoding=None):
    f = file_or_path
    must_close = False
    try:
        file_or_path.write
        if encoding is not None:
            f = codecs.getwriter(encoding)(file_or_path)
    except AttributeError:
        f = open(file_or_path, mode, encoding=encoding)
        must_close = True
    try:
        yield f
    finally:
        if must_close:
            f.close()
'''

TEXT_CONSTS = ('CREATOR',)           # module-level str constants of writers.py dumped into SrcTables.v (code points)


def coqtype(t):
    if isinstance(t, tuple) and t[0] == 'gen':
        return 'list (%s)' % coqtype(t[1])
    if isinstance(t, tuple) and t[0] == 'lazygen':
        return 'res (list (%s))' % coqtype(t[1])
    if isinstance(t, tuple) and t[0] in ('list', 'iter'):
        return 'list (%s)' % coqtype(t[1])
    if isinstance(t, tuple) and t[0] in ('tuple', 'prod'):
        return '(%s)' % ' * '.join(coqtype(x) for x in t[1:])
    if isinstance(t, tuple) and t[0] == 'orinf':        # a tuple of ints or the infinite iterator itertools.repeat(c)
        return 'option (list Z)'
    if isinstance(t, tuple) and t[0] == 'dictL':        # a dict literal with tuple-of-int keys
        return 'list (list Z * %s)' % coqtype(t[1])
    if isinstance(t, tuple) and t[0] == 'shared':       # [it] * n for a one-shot iterator `it`
        return coqtype(t[2])
    return base_coqtype(t)


def cps(s):
    return '(@nil Z)' if not s else lst(z(ord(c)) for c in s)


def bts(b):
    return '(@nil Z)' if not b else lst(z(x) for x in b)


def writable_ok(writers):
    try:
        got = T.strip_docstrings(ast.parse(textwrap.dedent(inspect.getsource(writers.writable))))
        want = T.strip_docstrings(ast.parse(WRITABLE_EXPECTED))
        return ast.dump(got) == ast.dump(want) and writers.contextmanager is contextlib.contextmanager
    except Exception:
        return False


def is_gen(t):
    return isinstance(t, tuple) and t[0] in ('gen', 'lazygen')


class _Iter(ast.expr):
    """An iterable that is already translated: (term of type list T, T)."""
    _fields = ()

    def __init__(self, term, ty):
        ast.expr.__init__(self)
        self.term, self.ty = term, ty


class TrW(TrU):
    def __init__(self, *args, **kw):
        self.writers = kw.pop('writers', None)
        TrU.__init__(self, *args, **kw)

    # ---------------------------------------------------------------- helpers
    def wname(self, name, obj):
        """`name` in the source denotes the module-level object `obj` of writers.py (neither a local nor rebound)."""
        return name not in self.env and name not in self.funs and getattr(self.writers, name, None) is obj

    def builtin(self, name):
        return name not in self.env and name not in self.funs and not hasattr(self.writers, name)

    def consume(self, term, ty):
        """A one-shot iterator used up here: the list of its items."""
        if ty[0] == 'lazygen':
            return self.bind(term, ('list', ty[1]))
        return (term, ('list', ty[1]))

    def narrowable(self, test):
        nt = TU.none_test(test)
        if nt is None:
            return None
        name, positive = nt
        ty = self.env.get(name)
        if not T.is_opt(ty) or name in self.stable:
            return None
        return name, positive, ty

    def narrowed(self, name, ty, f):
        saved = dict(self.env)
        self.env[name] = T.opt_base(ty)
        try:
            return f()
        finally:
            self.env = saved

    def seq(self, e):
        """A finite iterable consumed now, as (term : list T, ('list', T))."""
        if isinstance(e, (ast.GeneratorExp, ast.ListComp)):
            term, ty = self.comprehension(e)
            if ty[0] == 'reslist':
                return self.bind('(py_seq_res %s)' % term, ('list', ty[1]))
            return (term, ty)
        t, ty = self.expr(e)
        if is_gen(ty):
            return self.consume(t, ty)
        if is_list(ty):
            return (t, ty)
        if ty in ('buf', 'bytes'):
            return (t, ('list', 'Z'))
        raise Untranslatable('iteration over %r' % (ty,))

    def str_of(self, t, ty):
        """str(x) / f'{x}'"""
        if ty == 'text':
            return t
        if ty == 'Z':
            return '(py_str_int %s)' % t
        raise Untranslatable('str() of %r' % (ty,))

    def joined(self, e):
        parts = []
        for v in e.values:
            if isinstance(v, ast.Constant) and isinstance(v.value, str):
                if v.value:
                    parts.append(cps(v.value))
            elif isinstance(v, ast.FormattedValue):
                if v.conversion != -1:
                    raise Untranslatable('conversion in an f-string')
                t, ty = self.expr(v.value)
                if v.format_spec is None:
                    parts.append(self.str_of(t, ty))
                elif isinstance(v.format_spec, ast.JoinedStr) and len(v.format_spec.values) == 1 \
                        and isinstance(v.format_spec.values[0], ast.Constant) and v.format_spec.values[0].value == '02x' \
                        and ty == 'Z':
                    parts.append('(py_fmt_02x %s)' % t)
                else:
                    raise Untranslatable('format specification in an f-string')
            else:
                raise Untranslatable('f-string part ' + type(v).__name__)
        if not parts:
            return ('(@nil Z)', 'text')
        return ('(%s)' % ' ++ '.join(parts) if len(parts) > 1 else parts[0], 'text')

    def dict_literal(self, e):
        """{(1, 1): ' ', ...}: distinct tuple-of-int keys, values of one type"""
        keys, vals, vt = [], [], None
        for k, v in zip(e.keys, e.values):
            if not (isinstance(k, ast.Tuple) and k.elts and all(isinstance(x, ast.Constant) and isinstance(x.value, int)
                                                              and not isinstance(x.value, bool) for x in k.elts)):
                raise Untranslatable('dict key other than a tuple of int literals')
            key = tuple(x.value for x in k.elts)
            if key in keys:
                raise Untranslatable('duplicate dict key')
            keys.append(key)
            t, ty = self.pure(lambda v=v: self.expr(v), 'a dict literal')
            if vt is not None and ty != vt:
                raise Untranslatable('dict values of types %r and %r' % (vt, ty))
            vt = ty
            vals.append(t)
        if not keys:
            raise Untranslatable('empty dict literal')
        return (lst('(%s, %s)' % (lst(z(x) for x in k), v) for k, v in zip(keys, vals)), ('dictL', vt))

    def subscript(self, e):
        if self.monadic and isinstance(e.value, ast.Name) and isinstance(self.env.get(e.value.id), tuple) \
                and self.env[e.value.id][0] == 'dictL' and not isinstance(e.slice, ast.Slice):
            k, tk = self.expr(e.slice)
            if tk != ('list', 'Z'):
                raise Untranslatable('key of type %r' % (tk,))
            return self.bind('(py_getL %s %s)' % (k, self.n(e.value.id)), self.env[e.value.id][1])
        return TrU.subscript(self, e)

    def lambda2(self, e):
        """lambda x, y: <int expression>  as a Coq function Z -> Z -> Z"""
        a = e.args
        if not isinstance(e, ast.Lambda) or a.vararg or a.kwarg or a.kwonlyargs or a.posonlyargs or a.defaults \
                or len(a.args) != 2:
            raise Untranslatable('reduce without a two-argument lambda')
        x, y = a.args[0].arg, a.args[1].arg
        if x == y:
            raise Untranslatable('lambda parameters')
        saved, saved_nn = dict(self.env), set(self.nonneg)
        self.env[x] = self.env[y] = 'Z'
        self.nonneg -= {x, y}
        try:
            body, tb = self.pure(lambda: self.expr(e.body), 'a lambda')
        finally:
            self.env, self.nonneg = saved, saved_nn
        if tb != 'Z':
            raise Untranslatable('lambda result is %r' % (tb,))
        return '(fun %s %s => %s)' % (self.n(x), self.n(y), body)

    def grouper(self, e):
        """zip_longest(*[iter(X)] * N, fillvalue=C) -> (term, ('gen', ('list', 'Z'))) or None"""
        if not (isinstance(e, ast.Call) and isinstance(e.func, ast.Name) and e.func.id == 'zip_longest'
                and self.wname('zip_longest', itertools.zip_longest)):
            return None
        if len(e.args) == 1 and isinstance(e.args[0], ast.Starred) and len(e.keywords) == 1 and e.keywords[0].arg == 'fillvalue':
            v = e.args[0].value
            fill = e.keywords[0].value
            if isinstance(v, ast.Name) and isinstance(self.env.get(v.id), tuple) and self.env[v.id][0] == 'shared':
                # zip_longest(*it, fillvalue=repeat(c)) with it = [g] * 2: consecutive items of g are paired
                _, n, gty = self.env[v.id]
                if n != 2 or gty[1] != ('list', 'Z'):
                    raise Untranslatable('zip_longest over %d references to an iterator of %r' % (n, gty[1]))
                if not (isinstance(fill, ast.Call) and isinstance(fill.func, ast.Name) and fill.func.id == 'repeat'
                        and self.wname('repeat', itertools.repeat) and len(fill.args) == 1 and not fill.keywords
                        and isinstance(fill.args[0], ast.Constant) and isinstance(fill.args[0].value, int)
                        and not isinstance(fill.args[0].value, bool)):
                    raise Untranslatable('fill value other than repeat(<int literal>)')
                rows, _ = self.consume(self.n(v.id), gty)
                return ('(py_pairs_fill %s)' % rows, ('gen', ('tuple', ('list', 'Z'), ('orinf', fill.args[0].value))))
            if isinstance(v, ast.BinOp) and isinstance(v.op, ast.Mult) and isinstance(v.left, ast.List) and len(v.left.elts) == 1 \
                    and isinstance(v.right, ast.Constant) and isinstance(v.right.value, int) and not isinstance(v.right.value, bool) \
                    and v.right.value >= 1 and isinstance(fill, ast.Constant) and isinstance(fill.value, int) \
                    and not isinstance(fill.value, bool):
                it = v.left.elts[0]
                if isinstance(it, ast.Call) and isinstance(it.func, ast.Name) and it.func.id == 'iter' and self.builtin('iter') \
                        and len(it.args) == 1 and not it.keywords:
                    xs, tx = self.seq(it.args[0])
                    if tx != ('list', 'Z'):
                        raise Untranslatable('zip_longest over %r' % (tx,))
                    return ('(py_grouper %s %s %s)' % (z(v.right.value), z(fill.value), xs), ('gen', ('list', 'Z')))
        return None

    # ---------------------------------------------------------------- expressions
    def expr(self, e):
        if not self.monadic:
            return TrU.expr(self, e)
        if isinstance(e, _Done):
            return (e.term, e.ty)
        if isinstance(e, ast.Constant) and isinstance(e.value, str):
            return (cps(e.value), 'text')
        if isinstance(e, ast.Constant) and isinstance(e.value, bytes):
            return (bts(e.value), 'bytes')
        if isinstance(e, ast.JoinedStr):
            return self.joined(e)
        if isinstance(e, ast.Name) and e.id in TEXT_CONSTS and e.id not in self.env and e.id not in self.funs \
                and isinstance(getattr(self.writers, e.id, None), str):
            return ('SrcTables.' + e.id, 'text')
        if isinstance(e, ast.Name) and is_gen(self.env.get(e.id)):
            return (self.n(e.id), self.env[e.id])
        if isinstance(e, ast.GeneratorExp):
            term, ty = self.comprehension(e)
            if ty[0] == 'reslist':
                return ('(py_seq_res %s)' % term, ('lazygen', ty[1]))
            return (term, ('gen', ty[1]))
        if isinstance(e, ast.Dict):
            return self.dict_literal(e)
        if isinstance(e, ast.BinOp) and isinstance(e.op, ast.Mult) and isinstance(e.left, ast.List) and len(e.left.elts) == 1 \
                and isinstance(e.right, ast.Constant) and isinstance(e.right.value, int) and not isinstance(e.right.value, bool) \
                and e.right.value >= 1 and isinstance(e.left.elts[0], ast.Call):
            t, ty = self.expr(e.left.elts[0])
            if is_gen(ty):
                return (t, ('shared', e.right.value, ty))       # n references to ONE iterator
            return TrU.expr(self, ast.BinOp(left=ast.List(elts=[_Done(t, ty)], ctx=ast.Load()), op=e.op, right=e.right))
        if isinstance(e, ast.Name) and isinstance(self.env.get(e.id), tuple) and self.env[e.id][0] == 'shared':
            return (self.n(e.id), self.env[e.id])
        if isinstance(e, ast.BinOp) and isinstance(e.op, (ast.Add, ast.Mult)):
            a, ta = self.expr(e.left)
            b, tb = self.expr(e.right)
            if isinstance(e.op, ast.Add) and ta == tb and ta in ('text', 'bytes'):
                return ('(%s ++ %s)' % (a, b), ta)
            if isinstance(e.op, ast.Mult) and ta in ('text', 'bytes') and tb == 'Z':
                return ('(py_repeat %s %s)' % (a, b), ta)
            if ta in ('text', 'bytes') or tb in ('text', 'bytes'):
                raise Untranslatable('operator on %r and %r' % (ta, tb))
            return TrU.expr(self, ast.BinOp(left=_Done(a, ta), op=e.op, right=_Wrap(e.right, b, tb)))
        if isinstance(e, ast.Subscript) and isinstance(e.slice, ast.Slice) and e.slice.lower is None and e.slice.upper is None \
                and isinstance(e.slice.step, ast.UnaryOp) and isinstance(e.slice.step.op, ast.USub) \
                and isinstance(e.slice.step.operand, ast.Constant) and e.slice.step.operand.value == 1:
            a, ta = self.expr(e.value)             # seq[::-1]
            if not is_list(ta):
                raise Untranslatable('[::-1] of %r' % (ta,))
            return ('(rev %s)' % a, ta)
        return TrU.expr(self, e)

    def comprehension(self, e):
        # the iterable is evaluated once, outside; the element once per item
        if len(e.generators) != 1 or e.generators[0].is_async or not isinstance(e.generators[0].target, ast.Name):
            raise Untranslatable('comprehension shape')
        g = e.generators[0]
        if not isinstance(g.iter, _Iter):
            xs, et = self.iterable(g.iter)
            g2 = ast.comprehension(target=g.target, iter=_Iter(xs, et), ifs=g.ifs, is_async=0)
            e = type(e)(elt=e.elt, generators=[g2])
        return TrU.comprehension(self, e)

    def iterable(self, e):
        if isinstance(e, _Iter):
            return (e.term, e.ty)
        if not self.monadic:
            return TrU.iterable(self, e)
        if isinstance(e, ast.Call) and isinstance(e.func, ast.Name) and e.func.id == 'enumerate' and self.builtin('enumerate') \
                and len(e.args) == 1 and (not e.keywords or (len(e.keywords) == 1 and e.keywords[0].arg == 'start')):
            xs, tx = self.seq(e.args[0])
            start = '0'
            if e.keywords:
                start, ts = self.expr(e.keywords[0].value)
                if ts != 'Z':
                    raise Untranslatable('enumerate start is %r' % (ts,))
            return ('(py_enumerate_from %s %s)' % (start, xs), ('tuple', 'Z', tx[1]))
        if isinstance(e, ast.Call) and isinstance(e.func, ast.Name) and e.func.id == 'range':
            return TrU.iterable(self, e)
        if isinstance(e, ast.Call) and isinstance(e.func, ast.Name) and e.func.id == 'zip' and self.builtin('zip') \
                and len(e.args) == 2 and not e.keywords:
            a, ta = self.expr(e.args[0])
            b, tb = self.expr(e.args[1])
            if ta == ('list', 'Z') and isinstance(tb, tuple) and tb[0] == 'orinf':
                return ('(py_zip_inf %s %s %s)' % (a, b, z(tb[1])), ('list', 'Z'))      # the pairs as [x; y]
            raise Untranslatable('zip of %r and %r' % (ta, tb))
        t, ty = self.seq(e)
        return (t, ty[1])

    def call(self, e):
        f = e.func
        if not self.monadic:
            return TrU.call(self, e)
        g = self.grouper(e)
        if g is not None:
            return g
        if isinstance(f, ast.Name) and f.id not in self.env:
            name = f.id
            if name == NEW_STREAM:
                return ('py_stream_new', STREAMS[e.args[0].value])
            if name == 'str' and self.builtin('str') and len(e.args) == 1 and not e.keywords:
                t, ty = self.expr(e.args[0])
                return (self.str_of(t, ty), 'text')
            if name == 'len' and self.builtin('len') and len(e.args) == 1 and not e.keywords:
                t, ty = self.expr(e.args[0])
                if ty in ('text', 'bytes'):
                    return ('(lenZ %s)' % t, 'Z')
                return TrU.call(self, ast.Call(func=f, args=[_Done(t, ty)], keywords=[]))
            if name == 'reduce' and self.wname('reduce', functools.reduce) and len(e.args) == 2 and not e.keywords:
                fn = self.lambda2(e.args[0])
                xs, tx = self.seq(e.args[1])
                if tx != ('list', 'Z'):
                    raise Untranslatable('reduce over %r' % (tx,))
                return self.bind('(py_reduce %s %s)' % (fn, xs), 'Z')
            if name == 'bytearray' and self.builtin('bytearray') and len(e.args) == 1 and not e.keywords:
                t, ty = self.expr(e.args[0])
                if is_gen(ty):
                    t, ty = self.consume(t, ty)
                return TrU.call(self, ast.Call(func=f, args=[_Done(t, ty)], keywords=[]))
            if name == 'pack' and self.wname('pack', __import__('struct').pack) and len(e.args) >= 1 and not e.keywords:
                fmt, tf = self.expr(e.args[0])
                if tf != 'bytes':
                    raise Untranslatable('pack with a format of type %r' % (tf,))
                rest = e.args[1:]
                if len(rest) == 1 and isinstance(rest[0], ast.Starred):
                    vals, tv = self.expr(rest[0].value)
                    if tv != ('list', 'Z'):
                        raise Untranslatable('pack(*%r)' % (tv,))
                elif not any(isinstance(a, ast.Starred) for a in rest):
                    items = [self.expr(a) for a in rest]
                    if any(t != 'Z' for _, t in items):
                        raise Untranslatable('pack of non-ints')
                    vals = lst(t for t, _ in items)
                else:
                    raise Untranslatable('pack arguments')
                return self.bind('(py_pack_B %s %s)' % (fmt, vals), 'bytes')
            if name == 'chain' and self.wname('chain', itertools.chain) and len(e.args) >= 1 and not e.keywords \
                    and not any(isinstance(a, ast.Starred) for a in e.args):
                parts = [self.expr(a) for a in e.args]       # the arguments are evaluated at the call, in order
                out, et = [], None
                for t, ty in parts:
                    if is_gen(ty):
                        if ty[0] == 'lazygen':
                            raise Untranslatable('chain over an iterator that may raise')
                        ty = ('list', ty[1])
                    if not is_list(ty) or (et is not None and ty[1] != et):
                        raise Untranslatable('chain of %r' % (ty,))
                    et = ty[1]
                    out.append(t)
                return ('(%s)' % ' ++ '.join(out), ('gen', et))
        if isinstance(f, ast.Attribute) and f.attr == 'encode' and len(e.args) == 1 and not e.keywords \
                and isinstance(e.args[0], ast.Constant) and e.args[0].value == 'ascii':
            t, ty = self.expr(f.value)
            if ty != 'text':
                raise Untranslatable('encode of %r' % (ty,))
            return self.bind('(py_encode_ascii %s)' % t, 'bytes')
        if isinstance(f, ast.Attribute) and f.attr == 'join' and len(e.args) == 1 and not e.keywords:
            sep, ts = self.expr(f.value)
            if ts not in ('text', 'bytes'):
                raise Untranslatable('join on %r' % (ts,))
            xs, tx = self.seq(e.args[0])
            if tx[1] != ts and not (ts == 'bytes' and tx[1] == 'buf'):
                raise Untranslatable('join of items of type %r' % (tx[1],))
            return ('(py_join %s %s)' % (sep, xs), ts)
        if isinstance(f, ast.Attribute) and f.attr == 'format' and isinstance(f.value, ast.Constant) \
                and isinstance(f.value.value, str) and len(e.args) == 1 and isinstance(e.args[0], ast.Starred) and not e.keywords:
            return self.format_star(f.value.value, e.args[0].value)
        return TrU.call(self, e)

    def format_star(self, fmt, arg):
        """'..{0:02x}..'.format(*seq) for a sequence of ints"""
        xs, tx = self.expr(arg)
        if tx != ('list', 'Z'):
            raise Untranslatable('format(*%r)' % (tx,))
        parts = []
        for lit, field, spec, conv in string.Formatter().parse(fmt):
            if lit:
                parts.append(cps(lit))
            if field is None:
                continue
            if conv is not None or not field.isdigit() or spec not in ('', '02x'):
                raise Untranslatable('replacement field {%s!%s:%s}' % (field, conv, spec))
            v = self.bind('(nthZ %s %s)' % (xs, z(int(field))), 'Z')[0]
            parts.append('(py_fmt_02x %s)' % v if spec else '(py_str_int %s)' % v)
        return ('(%s)' % ' ++ '.join(parts) if parts else '(@nil Z)', 'text')

    def apply(self, e, desc, first=None):
        if desc.get('ext_color'):
            self.effects += 1
        return TrU.apply(self, e, desc, first)

    def compare(self, l, op, r):
        if self.monadic and isinstance(op, (ast.In, ast.NotIn)):
            if isinstance(l, ast.Constant) and l.value is None and isinstance(r, ast.Call) and isinstance(r.func, ast.Attribute) \
                    and r.func.attr == 'values' and not r.args and not r.keywords:
                d, td = self.expr(r.func.value)          # None in d.values()
                if not (isinstance(td, tuple) and td[0] == 'dictZ' and T.is_opt(td[1])):
                    raise Untranslatable('None in the values of %r' % (td,))
                out = '(existsb (fun kv => match snd kv with None => true | Some _ => false end) %s)' % d
                return out if isinstance(op, ast.In) else '(negb %s)' % out
            if isinstance(r, ast.Tuple):
                a, ta = self.expr(l)
                if ta == ('list', 'Z'):
                    c, tc = self.expr(r)                # a tuple of ints `in` a tuple of tuples
                    if tc != ('list', ('list', 'Z')):
                        raise Untranslatable('in: %r in %r' % (ta, tc))
                    out = '(py_mem_list %s %s)' % (a, c)
                    return out if isinstance(op, ast.In) else '(negb %s)' % out
                return TrU.compare(self, _Done(a, ta), op, r)
        return TrU.compare(self, l, op, r)

    def compare_vals(self, a, ta, b, tb, op):
        if ta == tb and ta in ('text', 'bytes') and isinstance(op, (ast.Eq, ast.NotEq)):
            t = '(py_list_eqb %s %s)' % (a, b)
            return t if isinstance(op, ast.Eq) else '(negb %s)' % t
        return TrU.compare_vals(self, a, ta, b, tb, op)

    def as_bool(self, e):
        t, ty = self.expr(e)
        if ty in ('text', 'bytes'):
            return '(negb (Z.eqb (lenZ %s) 0))' % t
        if ty == 'ocolor':
            return '(py_color_truthy %s)' % t
        if ty == 'color':
            return '(py_color_truthy (Some %s))' % t
        return TrU.as_bool(self, _Done(t, ty))

    # ---------------------------------------------------------------- statements
    def mutator(self, call):
        f = call.func
        if isinstance(f, ast.Name) and T.is_alias(self.env.get(f.id)) and self.env[f.id][0] == 'method':
            return self.env[f.id][1], self.env[f.id][2]
        if isinstance(f, ast.Attribute) and isinstance(f.value, ast.Name) and f.attr == 'write' \
                and self.env.get(f.value.id) in STREAM_ITEM:
            return f.value.id, 'write'
        return TrU.mutator(self, call)

    def mutation(self, call, rest, ctx):
        m = self.mutator(call)
        if m is not None and m[1] == 'write' and self.env.get(m[0]) in STREAM_ITEM:
            obj, ty = m[0], self.env[m[0]]
            if len(call.args) != 1 or call.keywords:
                raise Untranslatable('write with other than one argument')
            a, ta = self.expr(call.args[0])
            binds = self.take()
            if ta not in STREAM_ITEM[ty]:
                raise Untranslatable('write of %r to a %s' % (ta, ty))       # Python: TypeError
            o = self.n(obj)
            return self.wrap(binds, '(let %s := (py_write %s %s) in\n %s)' % (o, o, a, self.stmts(rest, ctx)))
        return TrU.mutation(self, call, rest, ctx)

    def stmts(self, ss, ctx):
        if not ss:
            return ctx.fall()
        s, rest = ss[0], ss[1:]
        if self.pending:
            raise Untranslatable('internal: dangling binds')
        if not self.monadic:
            return TrU.stmts(self, ss, ctx)
        if isinstance(s, ast.FunctionDef):
            return self.local_def(s, rest, ctx)
        if isinstance(s, ast.If) and self.narrowable(s.test) \
                and not contains(s.body + s.orelse, (ast.Return, ast.Raise, ast.Break, ast.Continue)):
            return Tr.joined_if(self, s, rest, ctx)      # the tail is translated once
        if isinstance(s, ast.Assign) and len(s.targets) == 1 and isinstance(s.targets[0], ast.Name) \
                and isinstance(s.value, ast.Call) and isinstance(s.value.func, ast.Name) and s.value.func.id == 'partial' \
                and self.wname('partial', functools.partial):
            return self.partial_def(s, rest, ctx)
        if isinstance(s, ast.For) and not s.orelse and isinstance(s.target, ast.Tuple) and len(s.target.elts) == 2 \
                and all(isinstance(x, ast.Name) for x in s.target.elts) and isinstance(s.iter, ast.Call) \
                and isinstance(s.iter.func, ast.Attribute) and s.iter.func.attr == 'items' and not s.iter.args \
                and not s.iter.keywords and isinstance(s.iter.func.value, ast.Name):
            return self.dict_update_loop(s, rest, ctx)
        if isinstance(s, ast.Assign) and len(s.targets) == 1 and isinstance(s.targets[0], ast.Name) \
                and isinstance(s.value, ast.Attribute) and s.value.attr == 'write' and isinstance(s.value.value, ast.Name) \
                and self.env.get(s.value.value.id) in STREAM_ITEM:
            # write = f.write : an alias of the bound method of the stream
            name = s.targets[0].id
            if self.depth or name in self.env or name in self.funs:
                raise Untranslatable('bound-method alias not at top level')
            self.env[name] = ('method', s.value.value.id, 'write')
            return self.stmts(rest, ctx)
        return TrU.stmts(self, ss, ctx)

    def unpack_assign(self, target, value, rest, ctx):
        if isinstance(value, ast.GeneratorExp):
            t, ty = self.seq(value)          # the unpacking consumes the generator
            value = _Done(t, ty)
        return TrU.unpack_assign(self, target, value, rest, ctx)

    def partial_def(self, s, rest, ctx):
        """g = partial(f, k=v) for a nested function f: g is f with the parameter k fixed to the value v has now."""
        name, c = s.targets[0].id, s.value
        if len(c.args) != 1 or not isinstance(c.args[0], ast.Name) or not c.keywords or any(k.arg is None for k in c.keywords):
            raise Untranslatable('partial shape')
        fname = c.args[0].id
        d = self.funs.get(fname)
        if d is None or fname in self.env or d['coq'] != self.n(fname) or d.get('mutates') or name in self.env or name in self.funs \
                or self.depth:
            raise Untranslatable('partial of ' + fname)
        fixed = {}
        for k in c.keywords:
            if k.arg not in dict(d['params']) or k.arg in fixed:
                raise Untranslatable('partial keyword ' + k.arg)
            t, ty = self.expr(k.value)
            fixed[k.arg] = self.coerce(t, ty, dict(d['params'])[k.arg])
        binds = self.take()
        free = [(p, t) for p, t in d['params'] if p not in fixed]
        for nme in ast.walk(ast.Module(body=list(rest), type_ignores=[])):
            if isinstance(nme, ast.Name) and nme.id == name and isinstance(nme.ctx, ast.Store):
                raise Untranslatable('rebinding of ' + name)
        args = ' '.join(fixed[p] if p in fixed else 'pa_' + p for p, _ in d['params'])
        sig = ' '.join('(pa_%s : %s)' % (p, coqtype(t)) for p, t in free)
        self.funs = dict(self.funs)
        self.funs[name] = dict(d, coq=self.n(name), params=free, defaults={})
        return self.wrap(binds, '(let %s := (fun %s => %s %s) in\n %s)' % (self.n(name), sig, d['coq'], args, self.stmts(rest, ctx)))

    def dict_update_loop(self, s, rest, ctx):
        """for k, v in d.items(): d[k] = f(v)  -- every value replaced by f(value), in insertion order (no key is added, so
        the iteration is not disturbed); the first exception wins.  The values may change their type."""
        d = s.iter.func.value.id
        k, v = s.target.elts[0].id, s.target.elts[1].id
        td = self.env.get(d)
        if not (isinstance(td, tuple) and td[0] == 'dictZ') or d in self.stable or self.depth:
            raise Untranslatable('loop over the items of %r' % (td,))
        if len(s.body) != 1 or not isinstance(s.body[0], ast.Assign) or len(s.body[0].targets) != 1:
            raise Untranslatable('loop over the items of a dict')
        tgt, val = s.body[0].targets[0], s.body[0].value
        if not (isinstance(tgt, ast.Subscript) and isinstance(tgt.value, ast.Name) and tgt.value.id == d
                and isinstance(tgt.slice, ast.Name) and tgt.slice.id == k and k != v and k not in self.env and v not in self.env):
            raise Untranslatable('loop over the items of a dict')
        if any(isinstance(n, ast.Name) and n.id in (d, k) for n in ast.walk(val)):
            raise Untranslatable('the new value reads the dict')
        saved = dict(self.env)
        self.env[k], self.env[v] = 'Z', td[1]
        self.depth += 1
        try:
            (t, ty), binds = self.isolated(lambda: self.expr(val))
        finally:
            self.env = saved
            self.depth -= 1
        self.effects += 1
        o = self.n(d)
        self.env[d] = ('dictZ', ty)
        body = self.wrap(binds, '(Ok (%s, %s))' % (self.n(k), t))
        return '(do %s <- (py_seq_res (map (fun kv_ => (let \'(%s, %s) := kv_ in %s)) %s));\n %s)' % (
            o, self.n(k), self.n(v), body, o, self.stmts(rest, ctx))

    def local_def(self, s, rest, ctx):
        """Tr.local_def with this subclass for the body (a total or monadic local function over its parameters and the
        variables visible now that are never rebound or changed afterwards)."""
        params = self.local_types.get(s.name)
        a = s.args
        if params is None or a.vararg or a.kwarg or a.kwonlyargs or a.posonlyargs or s.decorator_list \
                or [x.arg for x in a.args] != [p for p, _ in params]:
            raise Untranslatable('nested function ' + s.name)
        if s.name in self.env or s.name in self.funs:
            raise Untranslatable('nested function shadows ' + s.name)
        got = [x.arg for x in a.args]
        defaults = dict(zip(got[len(got) - len(a.defaults):], a.defaults))
        if any(not isinstance(d, ast.Constant) for d in defaults.values()):
            raise Untranslatable('non-literal default value')
        for n in ast.walk(s):
            if isinstance(n, (ast.FunctionDef, ast.ClassDef, ast.Yield, ast.YieldFrom, ast.With, ast.Global, ast.Nonlocal)) and n is not s:
                raise Untranslatable('statement %s in the nested function %s' % (type(n).__name__, s.name))
        own = set(got) | set(n.id for n in ast.walk(s) if isinstance(n, ast.Name) and isinstance(n.ctx, ast.Store))
        free = set(n.id for n in ast.walk(s) if isinstance(n, ast.Name) and isinstance(n.ctx, ast.Load)) - own
        later = self.assigned(rest)
        for nme in free:
            if nme in later or (nme not in self.env and any(isinstance(x, ast.Name) and x.id == nme and isinstance(x.ctx, ast.Store)
                                                          for st in rest for x in ast.walk(st))):
                raise Untranslatable('free variable %s of %s is rebound after the definition' % (nme, s.name))
        captured = dict((k, v) for k, v in self.env.items()
                        if not T.is_alias(v) and v != 'none' and not is_gen(v) and v not in STREAM_ITEM
                        and k not in dict(params) and k not in later)
        body_stmts = list(T.strip_docstrings(ast.parse(ast.unparse(s))).body[0].body)

        def run(total):
            sub = type(self)(self.consts, env=dict(captured, **dict(params)), monadic=True, funs=self.funs, mods=self.mods,
                             writers=self.writers)
            sub.ever_mutated = set()
            sub.counter = self.counter + 100

            def ret(t):
                if t is None:
                    raise Untranslatable('return without value')
                return t if total else 'Ok %s' % t
            return sub, sub.stmts(list(body_stmts), Ctx(ret=ret, fall=sub.no_fall))
        sub, body = run(False)
        total = sub.effects == 0
        if total:
            sub, body = run(True)
        tys = set(repr(ty) for _, ty in sub.rt_seen)
        if len(tys) != 1:
            raise Untranslatable('return types of nested function differ')
        rt = sub.rt_seen[0][1]
        self.funs = dict(self.funs)
        self.funs[s.name] = {'coq': self.n(s.name), 'params': list(params), 'defaults': defaults, 'ret': rt,
                             'monadic': not total, 'mutates': []}
        sig = ' '.join('(%s : %s)' % (self.n(p), coqtype(t)) for p, t in params)
        return '(let %s := (fun %s => %s) in\n %s)' % (self.n(s.name), sig, body, self.stmts(rest, ctx))


# ------------------------------------------------------------------ static checks on the function
def parents_of(root):
    par = {}
    for n in ast.walk(root):
        for c in ast.iter_child_nodes(n):
            par[c] = n
    return par


def field_of(parent, child):
    for name, val in ast.iter_fields(parent):
        if val is child or (isinstance(val, list) and any(v is child for v in val)):
            return name
    return None


ONE_SHOT_CALLS = ('zip_longest', 'enumerate', 'chain', 'zip', 'iter', 'map', 'filter', 'reversed', 'matrix_iter',
                  'matrix_iter_verbose', 'matrix_to_lines', 'repeat', 'islice')


def one_shot_value(v, local_gens):
    if isinstance(v, ast.GeneratorExp):
        return True
    if isinstance(v, ast.BinOp) and isinstance(v.op, ast.Mult) and isinstance(v.left, ast.List) and len(v.left.elts) == 1:
        return one_shot_value(v.left.elts[0], local_gens)          # [it] * n: n references to one iterator
    if isinstance(v, ast.Call) and isinstance(v.func, ast.Name) and (v.func.id in ONE_SHOT_CALLS or v.func.id in local_gens):
        return True
    return False


def check_one_shot(fn):
    """Every variable bound to a one-shot iterator is bound exactly once, and each later use consumes it at most once:
    two uses must lie in different branches of an `if`, and no use may sit in a loop body / comprehension element /
    nested function that the binding is outside of (only the iterable position of a `for` / comprehension is evaluated once)."""
    par = parents_of(fn)
    local_gens = set(d.name for d in ast.walk(fn) if isinstance(d, ast.FunctionDef) and d is not fn
                     and any(isinstance(r, ast.Return) and isinstance(r.value, ast.GeneratorExp) for r in ast.walk(d)))
    for st in ast.walk(fn):
        if not (isinstance(st, ast.Assign) and one_shot_value(st.value, local_gens)):
            continue
        if len(st.targets) == 1 and isinstance(st.targets[0], (ast.Tuple, ast.List)) \
                and all(isinstance(x, ast.Name) for x in st.targets[0].elts):
            continue           # unpacking consumes the iterator at once
        if len(st.targets) != 1 or not isinstance(st.targets[0], ast.Name):
            raise Untranslatable('one-shot iterator bound to ' + ast.dump(st.targets[0])[:40])
        name = st.targets[0].id
        block_owner = par[st]
        stores = [n for n in ast.walk(fn) if isinstance(n, ast.Name) and n.id == name and isinstance(n.ctx, (ast.Store, ast.Del))]
        args = [a for a in ast.walk(fn) if isinstance(a, ast.arg) and a.arg == name]
        if len(stores) != 1 or args:
            raise Untranslatable('the iterator variable %s is bound more than once' % name)
        loads = [n for n in ast.walk(fn) if isinstance(n, ast.Name) and n.id == name and isinstance(n.ctx, ast.Load)]
        chains = []
        for ld in loads:
            chain, c = [], ld
            while c is not block_owner:
                p = par.get(c)
                if p is block_owner:
                    break
                if p is None:
                    raise Untranslatable('the iterator %s is used outside the block that binds it' % name)
                fld = field_of(p, c)
                if isinstance(p, (ast.For, ast.AsyncFor)) and fld != 'iter' or isinstance(p, ast.While) \
                        or isinstance(p, (ast.FunctionDef, ast.Lambda, ast.ClassDef)) \
                        or isinstance(p, (ast.ListComp, ast.SetComp, ast.GeneratorExp, ast.DictComp)) and fld != 'generators' \
                        or isinstance(p, ast.comprehension) and (fld != 'iter' or p is not par[p].generators[0]):
                    raise Untranslatable('the iterator %s is used inside a loop / function it was created outside of' % name)
                chain.append((p, fld))
                c = p
            chains.append(chain)
        for i in range(len(chains)):
            for j in range(i + 1, len(chains)):
                di = dict((id(p), f) for p, f in chains[i] if isinstance(p, ast.If))
                if not any(isinstance(p, ast.If) and id(p) in di and {di[id(p)], f} == {'body', 'orelse'} for p, f in chains[j]):
                    raise Untranslatable('the iterator %s is consumed twice' % name)


def desugar_with(fn, writers):
    """with writable(out, MODE) as f: BODY   (last statement)  ->  f = <new stream>; BODY; return f"""
    withs = [n for n in ast.walk(fn) if isinstance(n, (ast.With, ast.AsyncWith))]
    if not withs:
        return fn, None
    w = fn.body[-1]
    if len(withs) != 1 or w is not withs[0] or not isinstance(w, ast.With) or len(w.items) != 1:
        raise Untranslatable('`with` other than one statement at the end of the function')
    it = w.items[0]
    c = it.context_expr
    if not (isinstance(c, ast.Call) and isinstance(c.func, ast.Name) and c.func.id == 'writable' and len(c.args) == 2
            and not c.keywords and isinstance(c.args[0], ast.Name) and isinstance(c.args[1], ast.Constant)
            and c.args[1].value in STREAMS and isinstance(it.optional_vars, ast.Name)):
        raise Untranslatable('context manager other than writable(out, mode) as f')
    if not writable_ok(writers):
        raise Untranslatable('writers.writable changed')
    out, f = c.args[0].id, it.optional_vars.id
    if [a.arg for a in fn.args.args].count(out) != 1:
        raise Untranslatable('writable() on something that is not a parameter')
    for n in ast.walk(fn):
        if isinstance(n, ast.Name) and n.id == out and n is not c.args[0]:
            raise Untranslatable('the output parameter is used outside writable()')
        if isinstance(n, ast.Name) and n.id == f and isinstance(n.ctx, ast.Store) and n is not it.optional_vars:
            raise Untranslatable('the stream variable is rebound')
        if isinstance(n, ast.Name) and n.id == NEW_STREAM:
            raise Untranslatable('reserved name')
    for n in ast.walk(ast.Module(body=fn.body[:-1], type_ignores=[])):
        if isinstance(n, ast.Name) and n.id == f:
            raise Untranslatable('the stream variable is used before the with statement')
    if contains([st for st in fn.body if not isinstance(st, ast.FunctionDef)], (ast.Return,)):
        raise Untranslatable('return in a function that writes to a stream')
    # the stream object may only be used as f.write(..) / write = f.write
    par = parents_of(w)
    for n in ast.walk(w):
        if isinstance(n, ast.Name) and n.id == f and n is not it.optional_vars:
            p = par.get(n)
            if not (isinstance(p, ast.Attribute) and p.attr == 'write'):
                raise Untranslatable('the stream is used otherwise than through write')
    new = ast.Assign(targets=[ast.Name(id=f, ctx=ast.Store())],
                     value=ast.Call(func=ast.Name(id=NEW_STREAM, ctx=ast.Load()), args=[ast.Constant(value=c.args[1].value)], keywords=[]))
    fn.body = fn.body[:-1] + [new] + list(w.body) + [ast.Return(value=ast.Name(id=f, ctx=ast.Load()))]
    return fn, out


# ------------------------------------------------------------------ function level
def find_top(tree, name):
    hits = [n for n in tree.body if isinstance(n, ast.FunctionDef) and n.name == name]
    if len(hits) != 1:
        raise Untranslatable('no unique definition of ' + name)
    return hits[0]


def utils_fun(utils_tree, gen_text, name, params, ret, generator=False, coq=None, defaults_ok=True):
    """Description of a function of utils.py that gen/translate_utils.py has translated (definition in gen_text)."""
    fn = find_top(utils_tree, name)
    a = fn.args
    if a.vararg or a.kwarg or a.kwonlyargs or a.posonlyargs or fn.decorator_list:
        raise Untranslatable('signature of utils.' + name)
    got = [x.arg for x in a.args]
    if got != [p for p, _ in params]:
        raise Untranslatable('parameters of utils.%s changed: %s' % (name, got))
    defaults = dict(zip(got[len(got) - len(a.defaults):], a.defaults))
    if any(not isinstance(d, ast.Constant) for d in defaults.values()):
        raise Untranslatable('non-literal default value')
    coq = coq or 'src_' + name
    sig = 'Definition %s %s : res (%s) :=' % (coq, ' '.join('(%s : %s)' % (p, coqtype(t)) for p, t in params), coqtype(ret))
    if sig not in gen_text:
        raise Untranslatable('no translation of utils.%s with the expected signature' % name)
    if generator != contains(fn.body, (ast.Yield, ast.YieldFrom)):
        raise Untranslatable('utils.%s: generator / function' % name)
    if generator:
        # the call only creates the generator: the body (translated as res (list item)) runs when it is consumed
        return {'coq': coq, 'params': list(params), 'defaults': defaults, 'ret': ('lazygen', ret[1]), 'monadic': False, 'mutates': []}
    return {'coq': coq, 'params': list(params), 'defaults': defaults, 'ret': ret, 'monadic': True, 'mutates': []}


class Group:
    def __init__(self, mods, tree, report, funs, deps=()):
        self.mods, self.tree, self.report, self.funs = mods, tree, report, funs
        self.out = [HEADER_W + ''.join('From SegnoSrc Require Import %s.\n' % d for d in deps)]

    def text(self):
        return '\n'.join(self.out) + '\n'

    def attempt(self, name, fn):
        try:
            self.out.append(fn())
            self.report['functions'][name] = 'ok'
        except Untranslatable as ex:
            self.report['functions'][name] = 'untranslatable: %s' % ex
            self.out.append('(* %s: untranslatable: %s *)' % (name, str(ex).replace('*)', '* )').replace('(*', '( *')))
        except Exception as ex:  # source changed shape in a way we do not understand: fail closed
            self.report['functions'][name] = 'untranslatable: %s: %s' % (type(ex).__name__, ex)
            self.out.append('(* %s: untranslatable (%s) *)' % (name, type(ex).__name__))

    def define(self, name, params, local_types=None, externals=None, decorator=None, variants=None):
        """Translate writers.<name> for arguments of the declared types (Python is untyped: the bridge theorems speak about
        arguments of these types).  A parameter of type 'out' is the file argument: it has no counterpart."""
        writers = self.mods['writers']

        def go():
            fn = find_top(ast.parse(ast.unparse(find_top(self.tree, name))), name)     # a private copy
            a = fn.args
            if a.vararg or a.kwarg or a.kwonlyargs or a.posonlyargs:
                raise Untranslatable('signature of ' + name)
            if decorator is None and fn.decorator_list:
                raise Untranslatable('decorators of ' + name)
            if decorator is not None and [ast.unparse(d) for d in fn.decorator_list] != [decorator]:
                raise Untranslatable('decorators of %s: %s' % (name, [ast.unparse(d) for d in fn.decorator_list]))
            got = [x.arg for x in a.args]
            if got != [p for p, _ in params]:
                raise Untranslatable('parameters changed: %s' % got)
            defaults = dict(zip(got[len(got) - len(a.defaults):], a.defaults))
            for d in defaults.values():
                if not isinstance(d, ast.Constant):
                    raise Untranslatable('non-literal default value')
            T.strip_docstrings(fn)
            if contains(fn.body, (ast.Yield, ast.YieldFrom, ast.Await, ast.While, ast.Global, ast.Nonlocal, ast.Delete,
                                  ast.NamedExpr, ast.Import, ast.ImportFrom, ast.ClassDef, ast.Try)):
                raise Untranslatable('statement outside the fragment')
            fn, out = desugar_with(fn, writers)
            check_one_shot(fn)
            cparams = [(p, t) for p, t in params if t != 'out']
            if [p for p, t in params if t == 'out'] != ([out] if out else []):
                raise Untranslatable('the output parameter')
            ptypes = dict(cparams)
            lfuns = dict(self.funs)
            for en, (eparams, eret) in (externals or {}).items():
                if en in self.funs or not callable(getattr(writers, en, None)):
                    raise Untranslatable('external function ' + en)
                efn = find_top(self.tree, en)
                ea = efn.args
                got_e = [x.arg for x in ea.args]
                if got_e != [pn for pn, _ in eparams] or ea.vararg or ea.kwarg or ea.kwonlyargs or efn.decorator_list:
                    raise Untranslatable('parameters of %s changed: %s' % (en, got_e))
                edefaults = dict(zip(got_e[len(got_e) - len(ea.defaults):], ea.defaults))
                if any(not isinstance(d, ast.Constant) for d in edefaults.values()):
                    raise Untranslatable('non-literal default value of ' + en)
                lfuns[en] = {'coq': 'ext_' + en, 'params': list(eparams), 'defaults': edefaults, 'ret': eret,
                             'monadic': True, 'mutates': []}

            def run(rt_decl, total=False):
                tr = TrW(self.mods['consts'], env=ptypes, monadic=True, funs=lfuns, mods=self.mods, writers=writers)
                tr.rt_decl = rt_decl
                tr.local_types = dict(local_types or {})
                tr.ever_mutated = set()        # no matrix is changed in place by a serializer (checked: no subscript stores)

                def ret(t):
                    if t is None:
                        raise Untranslatable('return without value')
                    return t if total else 'Ok %s' % t
                body = tr.stmts(list(fn.body), Ctx(ret=ret, fall=tr.no_fall))
                return tr, body
            for n in ast.walk(fn):
                if isinstance(n, (ast.Subscript, ast.Attribute)) and not isinstance(n.ctx, ast.Load):
                    # only d[k] = .. on a dict parameter (TrW.dict_update_loop); no sequence is changed in place
                    if not (isinstance(n, ast.Subscript) and isinstance(n.value, ast.Name)
                            and isinstance(ptypes.get(n.value.id), tuple) and ptypes[n.value.id][0] == 'dictZ'):
                        raise Untranslatable('store into a sequence / attribute')
            tr, body = run(None)
            if not tr.rt_seen:
                raise Untranslatable('function never returns a value')
            t0, rt = tr.rt_seen[0]
            for t, ty in tr.rt_seen[1:]:
                rt = tr.join(t0, rt, t, ty)
            total = tr.effects == 0 and not out and not externals
            tr, body = run(rt, total)
            if total and tr.effects:
                raise Untranslatable('internal: effects in a total function')
            if '?' in repr(rt):
                raise Untranslatable('the item type of the result is not determined')
            coqname = 'src_' + name
            sig = ' '.join('(%s : %s)' % (tr.n(p), coqtype(t)) for p, t in cparams)
            if externals:
                sig = ' '.join('(ext_%s : %s -> res (%s))' % (en, ' -> '.join(coqtype(t) for _, t in ep), coqtype(er))
                               for en, (ep, er) in externals.items()) + ' ' + sig
            self.funs[name] = {'coq': coqname, 'params': list(cparams), 'defaults': defaults, 'ret': rt,
                               'monadic': not total, 'mutates': [], 'externals': list(externals or {})}
            kind = ' (* the stream: what was written to `%s` *)' % out if out else ''
            return 'Definition %s %s : %s :=%s\n %s.\n' % (coqname, sig, coqtype(rt) if total else 'res (%s)' % coqtype(rt), kind, body)
        return go


def translate_writers(mods, outdir, report):
    tree = ast.parse(inspect.getsource(mods['writers']))
    utils_tree = ast.parse(inspect.getsource(mods['utils']))
    Z, B, OZ, Q, OQ, TEXT = 'Z', 'bool', 'oZ', 'Q', 'oQ', 'text'
    files = {}

    def read(name):
        try:
            with open(os.path.join(outdir, name)) as f:
                return f.read()
        except OSError:
            return ''
    src_utils, src_iter, src_verbose = read('SrcUtils.v'), read('SrcUtilsIter.v'), read('SrcUtilsVerbose.v')
    funs = {}

    def ufun(key, *args, **kw):
        try:
            funs[key] = utils_fun(utils_tree, *args, **kw)
        except Untranslatable as ex:
            report['functions']['utils.' + key] = 'unavailable: %s' % ex
    for nm in ('get_border', 'check_valid_scale', 'check_valid_border', 'matrix_iter', 'matrix_iter_verbose'):
        if getattr(mods['writers'], nm, None) is not getattr(mods['utils'], nm, None):
            raise Untranslatable('writers.%s is not utils.%s' % (nm, nm))
    ufun('get_border', src_utils, 'get_border', [('matrix_size', SIZE), ('border', OZ)], Z)
    ufun('check_valid_scale', src_utils, 'check_valid_scale', [('scale', Q)], 'unit')
    ufun('check_valid_border', src_utils, 'check_valid_border', [('border', OQ)], 'unit')
    ufun('matrix_iter', src_iter, 'matrix_iter', [('matrix', LL), ('matrix_size', SIZE), ('scale', Q), ('border', OZ)],
         ('list', ('list', Z)), generator=True)
    ufun('matrix_iter_verbose', src_verbose, 'matrix_iter_verbose',
         [('matrix', LL), ('matrix_size', SIZE), ('scale', Q), ('border', OZ)], ('list', ('list', Z)), generator=True)

    # ---- SrcWrCommon.v: get_symbol_size of utils.py at an int scale (SrcUtils.v has it over Q), _valid_width_height_and_border
    g = Group(mods, tree, report, funs, deps=('SrcUtils',))
    ug = TU.Group(mods, utils_tree, report, {})
    ug.funs['get_default_border_size'] = {'coq': 'src_get_default_border_size', 'params': [('matrix_size', SIZE)], 'defaults': {},
                                          'ret': Z, 'monadic': True, 'mutates': []}
    if 'Definition src_get_default_border_size (matrix_size : list (Z)) : res (Z) :=' not in src_utils:
        ug.funs.clear()
    ug.out = g.out
    ug.attempt('get_symbol_size (int scale)', ug.define('get_symbol_size', [('matrix_size', SIZE), ('scale', Z), ('border', OZ)],
                                                       coqname='src_get_symbol_size_int', key='get_symbol_size'))
    if getattr(mods['writers'], 'get_symbol_size', None) is mods['utils'].get_symbol_size and 'get_symbol_size' in ug.funs:
        funs['get_symbol_size'] = ug.funs['get_symbol_size']
    g.attempt('_valid_width_height_and_border',
              g.define('_valid_width_height_and_border', [('matrix_size', SIZE), ('scale', Z), ('border', OZ)]))
    files['SrcWrCommon.v'] = g.text()

    # ---- SrcWrText.v
    g = Group(mods, tree, report, funs, deps=('SrcUtils', 'SrcUtilsIter', 'SrcWrCommon'))
    g.attempt('write_txt', g.define('write_txt', [('matrix', LL), ('matrix_size', SIZE), ('out', 'out'), ('border', OZ),
                                                  ('dark', TEXT), ('light', TEXT)]))
    g.attempt('write_xbm', g.define('write_xbm', [('matrix', LL), ('matrix_size', SIZE), ('out', 'out'), ('scale', Z),
                                                  ('border', OZ), ('name', TEXT)]))
    COLOR, OCOLOR = 'color', 'ocolor'
    ext_rgb = {'_color_to_rgb': ([('color', COLOR)], ('list', Z))}
    g.attempt('color_to_rgb_hex', g.define('color_to_rgb_hex', [('color', COLOR)], externals=ext_rgb))
    g.attempt('write_xpm', g.define('write_xpm', [('matrix', LL), ('matrix_size', SIZE), ('out', 'out'), ('scale', Z),
                                                  ('border', OZ), ('dark', OCOLOR), ('light', OCOLOR), ('name', TEXT)],
                                    externals=ext_rgb))
    g.attempt('write_terminal', g.define('write_terminal', [('matrix', LL), ('matrix_size', SIZE), ('out', 'out'), ('border', OZ)]))
    g.attempt('write_terminal_compact', g.define('write_terminal_compact', [('matrix', LL), ('matrix_size', SIZE), ('out', 'out'),
                                                                            ('border', OZ)]))
    files['SrcWrText.v'] = g.text()

    # ---- SrcWrNetpbm.v
    g = Group(mods, tree, report, funs, deps=('SrcUtils', 'SrcUtilsIter', 'SrcWrCommon'))
    g.attempt('write_pbm', g.define('write_pbm', [('matrix', LL), ('matrix_size', SIZE), ('out', 'out'), ('scale', Z),
                                                  ('border', OZ), ('plain', B)],
                                    local_types={'pack_row': [('iterable', ('list', Z))]}))
    ext_rgba = {'_color_to_rgb_or_rgba': ([('color', OCOLOR), ('alpha_float', B)], ('list', Z))}
    g.attempt('_invert_color', g.define('_invert_color', [('rgb_or_rgba', ('list', Z))]))
    g.attempt('write_pam', g.define('write_pam', [('matrix', LL), ('matrix_size', SIZE), ('out', 'out'), ('scale', Z), ('border', OZ),
                                                  ('dark', OCOLOR), ('light', OCOLOR)],
                                    local_types={'row_to_color_values': [('row', ('list', Z)), ('colours', ('list', 'bytes'))]},
                                    externals=ext_rgba))
    g.out[0] += 'From SegnoSrc Require Import SrcUtilsVerbose.\n'
    g.attempt('write_ppm', g.define('write_ppm', [('matrix', LL), ('matrix_size', SIZE), ('out', 'out'), ('colormap', ('dictZ', OCOLOR)),
                                                  ('scale', Z), ('border', OZ)],
                                    externals={'_color_to_rgb': ([('color', OCOLOR)], ('list', Z))},
                                    decorator="colorful(dark='#000', light='#fff')"))
    files['SrcWrNetpbm.v'] = g.text()
    return files


WR_FILES = ('SrcWrCommon.v', 'SrcWrText.v', 'SrcWrNetpbm.v')


def main():
    repo, outdir = sys.argv[1], sys.argv[2]
    sys.path.insert(0, repo)
    os.makedirs(outdir, exist_ok=True)
    report = {'functions': {}, 'changed': []}
    files = {}
    try:
        mods = {m: importlib.import_module('segno.' + m) for m in ('consts', 'encoder', 'utils', 'writers')}
        if not os.path.realpath(mods['writers'].__file__).startswith(os.path.realpath(repo)):
            raise RuntimeError('segno imported from %s, not from %s' % (mods['writers'].__file__, repo))
        files = translate_writers(mods, outdir, report)
    except Exception as ex:
        report['functions']['*'] = 'failed: %s: %s' % (type(ex).__name__, ex)
    for name in WR_FILES:
        text = files.get(name)
        if not isinstance(text, str):
            text = HEADER_W + '(* %s: translation failed *)\n' % name
        if write_if_changed(os.path.join(outdir, name), text):
            report['changed'].append(name)
    print(json.dumps(report, indent=1))


if __name__ == '__main__':
    main()
