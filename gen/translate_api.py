#!/usr/bin/env python3
"""Fail-closed translator for the thin API LAYER of /repo/segno -> Gallina
(build/gen/SrcApiUri.v: segno/writers.py -- the keyword entry of every serializer of _VALID_SERIALIZERS (and of
                         write_terminal_compact), `as_png_data_uri`, `as_svg_data_uri`, and `save` ONCE MORE, now with the call
                         of the chosen serializer connected to the translated writers (gen/translate_route.py leaves it as the
                         parameter ext_call);
 build/gen/SrcApiQr.v:  segno/__init__.py -- `make`, `make_qr`, `make_micro` (bytes content / a list of items), `make_sequence`,
                         `QRCode.__init__`, the properties `is_micro`, `default_border_size`, `mode`, and the methods
                         `symbol_size`, `matrix_iter`, `svg_data_uri`, `svg_inline`, `png_data_uri`, `terminal`, `save`).

Built on gen/translate.py (class Tr), translate_seg.py (TrS), translate_glue.py (TrG) and translate_route.py (TrR: str as code
points, the `out` argument, try / except with plain assignments, f-strings); nothing of those files or of the existing
theories/Base/PySem*.v is edited.  This file adds the subclass TrA and the support library theories/Base/PySemApi.v:

* values the layer only PASSES ON are of type 'dyn' (PySemApi.py_dyn); `**kw` is 'kw' (py_kw, an association list).  A call
  `f(a1, .., an, k=v, .., **kw)` of a function with a keyword entry is  do d <- pya_kw_merge [(k, v); ..] kw; src_f_kw<n> .. a1 .. an d,
  and the keyword entry src_f_kw<n>, GENERATED FROM THE CURRENT SIGNATURE of f (names, defaults, **kw or not), spells the Python call
  protocol out: pya_kw_check_pos, pya_kw_check_unexpected, pya_kw_arg with the default, pya_kw_rest for **kw; a dyn value that reaches
  a typed parameter is read by pya_int / pya_oint / pya_ocolor .. (the marker outside the declared type);
* the keyword entry of a translated serializer (src_write_png_kw ..) binds the keyword dictionary to the definition the other
  translators generated (src_write_png_colorful ..): parameter names and defaults from inspect.signature of the CURRENT function (for
  @colorful writers: wrapper level, then the wrapped function), the Coq parameter list from the freshly written Src*.v (names must
  agree, the Coq types select the reading functions), the mode of `writable(out, 'wb' | 'wt' [, encoding=..])` from the current ast
  (bytes / text with its encoding: PySemApi.py_written);
* binary streams: `buff = io.BytesIO()`; a serializer / save call with `buff` as its stream argument appends what was written
  (pya_bin_write: text goes through the codec, a parameter); `buff.getvalue()`; `with gzip.open(out, 'wb', compresslevel=E) as f:` as
  the last statement (the function returns PWBytes (ext_gzip out E <what was written to f>));
* "the function returns what was written": a function with an `out` parameter may call a serializer / another save function with
  its own `out` (or `out or sys.stdout`) as the stream argument ONLY IN TAIL POSITION; the statement becomes the `return` of what
  the callee wrote (checked on the ast; anything else is refused);
* `kw.pop(k, dflt)` / `kw.get(k, dflt)`, `serializer(..)` for a value of _VALID_SERIALIZERS (dispatch over the CURRENT table),
  `base64.b64encode` (PySemApi.pya_b64encode), `.decode('ascii')`, `.decode(<run-time name>)` (parameter ext_codec_decode),
  `partial(quote, safe=b'..')` (parameter ext_quote), `_replace_quotes(..)` (a compiled regular expression: parameter
  ext_replace_quotes, accepted while the module-level definition equals its fingerprint), truthiness and `'..' + x` on dyn values,
  `sys.platform` (parameter), a `try` whose body calls writers.write_terminal_win (ctypes): the marker;
* segno/__init__.py: `self.<slot>` of QRCode as the fields of PySemApi.py_qrcode (QRCode.__slots__ checked), `__init__` as the
  function code -> record, `QRCode(code)`, fields of encoder.Code, `len(segments)` / `segments[0]` (Segments.__len__ as translated
  in SrcFit.v, __getitem__ under a fingerprint), calls of the functions translated before with positional / keyword arguments
  resolved statically against their CURRENT signature (encoder.encode as src_encode_bytes / src_encode_items, utils.*,
  encoder.get_mode_name; the Coq signature is looked up in the generated file), function values (`iterfn = a if c else b`),
  `map(QRCode, xs)`; encoder.encode_sequence is the parameter ext_encode_sequence (its body belongs to gen/translate_seqbody.py).

Nothing here decides a property: it regenerates Coq text which coqc checks through theories/Tie/TieApiUri.v, TieApiQr.v,
TieApiMake.v (DESIGN.md 11.20).

Usage: translate_api.py <repo> <outdir>      (prints a JSON status report on stdout)
"""
import ast
import importlib
import inspect
import json
import os
import re
import sys
import textwrap

sys.path.insert(0, os.path.dirname(os.path.abspath(__file__)))
import translate as T                                                    # noqa: E402
import translate_utils as TU                                             # noqa: E402,F401  (registers the type 'Q')
import translate_seg as TS                                               # noqa: E402
import translate_glue as TG                                              # noqa: E402,F401
import translate_route as TR                                             # noqa: E402
from translate import Ctx, Untranslatable, write_if_changed, coqtype, contains, is_list, is_opt, z, lst   # noqa: E402
from translate_seg import _Done                                          # noqa: E402
from translate_route import TrR, cps, is_const                           # noqa: E402

# ------------------------------------------------------------------ types added to the fragment
T.SCALAR_COQ.update({'dyn': 'py_dyn', 'kw': 'py_kw', 'written': 'py_written', 'binstream': 'list Z', 'bytes': 'list Z',
                     'dest': 'py_dest', 'qrcode': 'py_qrcode', 'ustr': 'list Z', 'outarg': 'py_out', 'serializer': 'list Z'})
T.COQ_RESERVED.update({'SrcApiUri', 'SrcApiQr', 'PySemApi', 'DNone', 'DBool', 'DInt', 'DFlt', 'DStr', 'DTup', 'DObj', 'PWBytes',
                       'PWText', 'PDOut', 'PDStdout', 'py_dyn', 'py_kw', 'py_written', 'py_dest', 'py_qrcode'})
MATZ = ('list', ('list', 'Z'))
LZ = ('list', 'Z')
OUSTR = ('opt', 'ustr')
OOUT = ('opt', 'outarg')
CODE = ('tuple', MATZ, 'Z', 'oZ', 'Z', 'segs')
CODE_FIELDS = ('matrix', 'version', 'error', 'mask', 'segments')
QR_SLOTS = [('matrix', MATZ), ('mask', 'Z'), ('_version', 'Z'), ('_error', 'oZ'), ('_mode', 'oZ'), ('_matrix_size', LZ)]

HEADER_A = ('(* GENERATED by gen/translate_api.py from the current /repo working tree -- do not edit. *)\n'
            'From Coq Require Import String.\n'
            'From Coq Require Import ZArith QArith List Bool PrimFloat.\n'
            'Import ListNotations.\n'
            'Open Scope Z_scope.\n'
            'From Segno Require Import Base.PyLite Base.PySem Base.PySemExt Base.PySemGen Base.PySemIO Base.PySemSeg Base.PySemGlue '
            'Base.PySemColor Base.PySemPng Base.PySemVec Base.PySemSvg Base.PySemRoute Base.PySemApi.\n'
            'From SegnoSrc Require SrcTables.\n')

# reading a dyn value at a declared type (translator type or Coq type of a generated parameter) / injecting it back
FROM_DYN = {'Z': 'pya_int', 'oZ': 'pya_oint', 'bool': 'pya_bool', 'obool': 'pya_obool', 'ustr': 'pya_str', OUSTR: 'pya_ostr',
            'Q': 'pya_q', 'outarg': 'pya_out', OOUT: 'pya_oout'}
COQ_FROM_DYN = {'Z': ('pya_int', 'pya_of_int'), 'option Z': ('pya_oint', 'pya_of_oint'), 'bool': ('pya_bool', 'pya_of_bool'),
                'list Z': ('pya_str', 'pya_of_str'), 'option list Z': ('pya_ostr', 'pya_of_ostr'),
                'py_vnum': ('pya_vnum', 'pya_of_vnum'), 'option py_vnum': ('pya_ovnum', 'pya_of_ovnum'),
                'py_color': ('pya_color', 'pya_of_color'), 'option py_color': ('pya_ocolor', 'pya_of_ocolor'),
                'option option py_color': ('pya_oocolor', 'pya_of_oocolor')}        # keyed by flat_type

REPLACE_QUOTES_EXPECTED = '_replace_quotes = partial(re.compile(br\'(=)"([^"]+)"\').sub, br"\\1\'\\2\'")'
SEGMENTS_GETITEM_EXPECTED = 'def __getitem__(self, item):\n    return self.segments[item]'
GZIP_WITH_EXPECTED = "gzip.open(out, 'wb', compresslevel=0)"          # shape of the context expression (third argument free)

# the order in which parameters for untranslated code appear in the generated signatures
EXT_TYPES = {}
EXT_ORDER = []


def ext_declare(name, coq, hint=None):
    """Declare a parameter for untranslated code; two callees may use one name at different types: the later one is renamed
    here (the callee receives it positionally).  Returns the name used in the generated text."""
    if name in EXT_TYPES and EXT_TYPES[name] != coq:
        if hint is None:
            raise Untranslatable('external %s used at two types: %s / %s' % (name, EXT_TYPES[name], coq))
        name = '%s_%s' % (name, hint)
        if name in EXT_TYPES and EXT_TYPES[name] != coq:
            raise Untranslatable('external %s used at two types: %s / %s' % (name, EXT_TYPES[name], coq))
    if name not in EXT_TYPES:
        EXT_TYPES[name] = coq
        EXT_ORDER.append(name)
    return name


KEYS_USED = []


def key(text):
    """A keyword name as a Coq term: the constant K_<name> (its code points), defined at the top of the generated file."""
    if not re.fullmatch(r'[A-Za-z_][A-Za-z_0-9]*', text):
        raise Untranslatable('keyword name %r' % (text,))
    if text not in KEYS_USED:
        KEYS_USED.append(text)
    return 'K_' + text


def key_block(names):
    return ''.join('Definition K_%s : list Z := %s.\n' % (k, cps(k)) for k in names)


def keys(names):
    return '[%s]' % '; '.join(key(k) for k in names)


def dyn_of_value(v):
    """A default value of a signature as a py_dyn term."""
    if v is None:
        return 'DNone'
    if isinstance(v, bool):
        return '(DBool %s)' % ('true' if v else 'false')
    if isinstance(v, int):
        return '(DInt %s)' % z(v)
    if isinstance(v, str) and all(32 <= ord(c) < 127 for c in v):
        return '(DStr %s)' % (cps(v) if v else '[]')
    if isinstance(v, tuple) and v and all(isinstance(x, int) and not isinstance(x, bool) for x in v):
        return '(DTup %s)' % lst(z(x) for x in v)
    raise Untranslatable('default value %r' % (v,))


# ------------------------------------------------------------------ generated Coq text: signatures of the callees
def split_top(text):
    """The top-level parenthesised groups at the start of `text`, and the rest."""
    groups, i, n = [], 0, len(text)
    while True:
        while i < n and text[i] in ' \n\t':
            i += 1
        if i >= n or text[i] != '(':
            return groups, text[i:]
        depth, j = 0, i
        while j < n:
            if text[j] == '(':
                depth += 1
            elif text[j] == ')':
                depth -= 1
                if depth == 0:
                    break
            j += 1
        groups.append(text[i + 1:j])
        i = j + 1


def norm_type(t):
    t = re.sub(r'\s+', ' ', t.strip())
    prev = None
    while prev != t:
        prev = t
        t = re.sub(r'\((\w+)\)', r'\1', t)           # (Z) -> Z
    return t


def coq_signature(outdir, fname, name):
    """[(parameter, Coq type)] and the result type of `Definition name` in the freshly written file."""
    path = os.path.join(outdir, fname)
    if not os.path.exists(path):
        raise Untranslatable('%s is missing' % fname)
    text = open(path).read()
    m = re.search(r'^Definition %s\b' % re.escape(name), text, re.M)
    if not m:
        raise Untranslatable('%s has no definition %s' % (fname, name))
    groups, rest = split_top(text[m.end():])
    m2 = re.match(r'\s*:\s*(.*?)\s*:=', rest, re.S)
    if not m2:
        raise Untranslatable('signature of %s in %s' % (name, fname))
    params = []
    for g in groups:
        p, _, t = g.partition(':')
        params.append((p.strip(), norm_type(t)))
    return params, norm_type(m2.group(1))


def flat_type(t):
    """A Coq type with every parenthesis removed: only for COMPARING two spellings of one type."""
    return re.sub(r'\s+', ' ', re.sub(r'[()]', ' ', t)).strip()


def same_param(py, coqname):
    return coqname in (py, py + '_py')


# ------------------------------------------------------------------ callees
class Callee:
    """kind 'typed': arguments resolved statically against params / defaults (ast nodes), Tr.args_of;
       kind 'api':   keyword entry variants[n] (n positional arguments, then the keyword dictionary);
       kind 'unmodelled': a call gives the marker."""
    def __init__(self, kind, coq=None, params=(), defaults=None, kwarg=False, ret=None, exts=(), stream=None, variants=None,
                 monadic=True, prefix=(), uses=()):
        self.uses = list(uses)        # parameters for untranslated code the call mentions without passing them on
        self.kind, self.coq, self.params, self.defaults, self.kwarg, self.ret = kind, coq, list(params), dict(defaults or {}), kwarg, ret
        self.exts, self.stream, self.variants, self.monadic, self.prefix = list(exts), stream, dict(variants or {}), monadic, list(prefix)

    def desc(self):
        return {'coq': self.coq, 'params': self.params, 'defaults': self.defaults, 'ret': self.ret, 'monadic': self.monadic}


class Registry:
    """The callees known so far: by the identity of the Python object (a function may have one translation per declared input
    shape), or by a name for what is no Python object (the dispatch over _VALID_SERIALIZERS)."""
    def __init__(self):
        self.by_id = {}
        self.keep = []

    def add(self, obj, callee):
        self.keep.append(obj)
        self.by_id.setdefault(id(obj), []).append(callee)

    def add_named(self, name, callee):
        self.by_id.setdefault(name, []).append(callee)

    def get(self, obj):
        if isinstance(obj, str):
            return self.by_id.get(obj, [])
        return self.by_id.get(id(obj), [])


class TrA(TrR):
    def __init__(self, *args, **kw):
        TrR.__init__(self, *args, **kw)
        self.reg = None               # Registry
        self.cls = None               # the class whose method is translated (QRCode)
        self.out_param = None         # the function's own `out` parameter (the function returns what was written to it)
        self.exts_used = set()
        self.stream_call = 0          # > 0 while the statement being translated may pass a stream to a callee

    # ---------------------------------------------------------------- helpers
    def n(self, name):
        if name.startswith(('pya_', 'PW', 'PD', 'qr_', 'K_')) or name in ('DNone', 'DBool', 'DInt', 'DFlt', 'DStr', 'DTup', 'DObj'):
            return name + '_py'
        return TrR.n(self, name)

    def use_exts(self, names):
        for en in names:
            self.exts_used.add(en)
        return list(names)

    def modglobal(self, name, expect=None):
        """The module-level object `name` of the module under translation (not shadowed by a local)."""
        if name in self.env or name in self.funs or self.module is None or name not in vars(self.module):
            return None
        v = vars(self.module)[name]
        if expect is not None and v is not expect:
            return None
        return v

    def type_of(self, node):
        """The type of an expression, without emitting anything (None if it is outside the fragment)."""
        snap = (list(self.pending), self.counter, self.effects, self.partial, set(self.exts_used), dict(self.env))
        try:
            (_, ty), _ = self.isolated(lambda: self.expr(node))
        except Untranslatable:
            ty = None
        self.pending, self.counter, self.effects, self.partial, self.exts_used, self.env = snap
        return ty

    def to_dyn(self, term, ty):
        if ty == 'dyn':
            return term
        if ty == 'bool':
            return '(DBool %s)' % term
        if ty == 'Z':
            return '(DInt %s)' % term
        if ty == 'ustr':
            return '(DStr %s)' % term
        if term == 'None' and is_opt(ty):
            return 'DNone'
        if ty == 'oZ':
            return '(pya_of_oint %s)' % term
        if ty == OUSTR:
            return '(pya_of_ostr %s)' % term
        raise Untranslatable('a value of type %r passed on as an arbitrary object' % (ty,))

    def coerce(self, term, frm, to):
        if to == 'dyn':
            return self.to_dyn(term, frm)
        if frm == ('list', 'Z') and to == 'bytes' or frm == 'bytes' and to == ('list', 'Z'):
            return term
        return TrR.coerce(self, term, frm, to)

    def arg_as(self, node, t):
        """The argument `node` for a parameter of type t: a dyn value is READ at a declared type (the marker outside it)."""
        term, ty = self.expr(node)
        if t == 'dyn' or (isinstance(t, tuple) and t[0] == 'coq'):
            return self.to_dyn(term, ty)          # ('coq', T): the keyword entry reads the value at the Coq type T
        if ty == 'dyn':
            if t not in FROM_DYN:
                raise Untranslatable('an arbitrary object used as %r' % (t,))
            return self.bind('(%s %s)' % (FROM_DYN[t], term), t)[0]
        return self.coerce(term, ty, t)

    def as_ustr(self, node, exn):
        t, ty = self.expr(node)
        if ty == 'dyn' and exn == 'TypeErr':
            return self.bind('(pya_str_add [] %s)' % t, 'ustr')[0]           # '<str>' + x
        return TrR.as_ustr(self, _Done(t, ty), exn)

    def as_bool(self, e):
        t, ty = self.expr(e)
        if ty == 'dyn':
            return self.bind('(pya_truthy %s)' % t, 'bool')[0]
        if ty == OOUT:
            raise Untranslatable('truthiness of the out argument')
        return TrR.as_bool(self, _Done(t, ty))

    # ---------------------------------------------------------------- callee resolution
    def callee_object(self, f):
        """(the Python object a call expression denotes, the receiver expression or None)."""
        if isinstance(f, ast.Name):
            if f.id in self.env:
                return None, None
            return self.modglobal(f.id), None
        if isinstance(f, ast.Attribute) and isinstance(f.value, ast.Name):
            if f.value.id == 'self' and self.cls is not None and self.env.get('self') == 'qrcode':
                v = vars(self.cls).get(f.attr)
                return v, f.value
            m = self.modglobal(f.value.id)
            if inspect.ismodule(m):
                return getattr(m, f.attr, None), None
        return None, None

    def typed_call(self, e, callee, first=None):
        args = self.use_exts(callee.exts)
        self.use_exts(callee.uses)
        d = callee.desc()
        vals = self.args_of(e, d, first)
        term = '(%s %s)' % (callee.coq, ' '.join(args + vals))
        return self.bind(term, callee.ret) if callee.monadic else (term, callee.ret)

    def stream_arg(self, node):
        """What a stream argument is: ('own', term) the function's own out, ('dest', term) `out or sys.stdout`,
        ('bin', name) a local binary stream."""
        if not self.stream_call:
            raise Untranslatable('a call that writes to a stream, used as a value')
        if isinstance(node, ast.Name) and node.id == self.out_param and self.env.get(node.id) == 'outarg':
            return ('own', self.n(node.id))
        if isinstance(node, ast.Name) and self.env.get(node.id) == 'binstream':
            return ('bin', node.id)
        t, ty = self.expr(node)
        if ty == 'dest':
            return ('dest', t)
        raise Untranslatable('stream argument ' + ast.unparse(node)[:60])

    def api_call(self, e, callee, receiver=None):
        """f(a1, .., an, k=v, .., **kw) of a function with keyword entries.  Returns (term, type, stream or None)."""
        pos = list(e.args)
        if receiver is not None:
            pos = [receiver] + pos
        if any(isinstance(a, ast.Starred) for a in pos) or len(pos) > len(callee.params):
            raise Untranslatable('positional arguments of ' + ast.unparse(e)[:80])
        n = len(pos)
        if n not in callee.variants:
            raise Untranslatable('no keyword entry of %s for %d positional arguments' % (callee.coq, n))
        vals, stream = [], None
        for k, ((p, t), a) in enumerate(zip(callee.params, pos)):
            if callee.stream == k:
                stream = self.stream_arg(a)
                if t == 'outarg':                      # the callee takes the object: a BytesIO has no name
                    vals.append(stream[1] if stream[0] == 'own' else '(POStream None)' if stream[0] == 'bin' else None)
                    if vals[-1] is None:
                        raise Untranslatable('`out or sys.stdout` passed to a save function')
            else:
                vals.append(self.arg_as(a, t))
        if callee.stream is not None and stream is None:
            raise Untranslatable('stream argument of %s passed by keyword' % callee.coq)
        explicit, star = [], None
        for kw in e.keywords:
            if kw.arg is None:
                if star is not None:
                    raise Untranslatable('two ** arguments')
                t, ty = self.expr(kw.value)
                if ty != 'kw':
                    raise Untranslatable('** of %r' % (ty,))
                star = t
            else:
                if star is not None:
                    raise Untranslatable('keyword argument after **')
                if kw.arg in [k for k, _ in explicit]:
                    raise Untranslatable('keyword repeated')
                t, ty = self.expr(kw.value)
                explicit.append((kw.arg, self.to_dyn(t, ty)))
        lit = '[%s]' % '; '.join('(%s, %s)' % (key(k), v) for k, v in explicit)
        if star is None:
            d = lit
        elif explicit:
            d = self.bind('(pya_kw_merge %s %s)' % (lit, star), 'kw')[0]
        else:
            d = star
        args = self.use_exts(callee.exts) + [self.n(x) for x in callee.prefix] + vals + [d]
        t, ty = self.bind('(%s %s)' % (callee.variants[n], ' '.join(args)), callee.ret)
        return t, ty, stream

    def pick(self, cands, e, receiver):
        """Among the translations of one Python function (one per declared input shape) the one whose first parameter has the
        type of the first argument."""
        if len(cands) == 1:
            return cands[0]
        first = receiver if receiver is not None else (e.args[0] if e.args else None)
        if first is None or isinstance(first, ast.Starred):
            raise Untranslatable('overloaded callee without a first argument')
        (_, ty), _ = self.isolated(lambda: self.expr(first))
        for c in cands:
            if c.params and c.params[0][1] == ty:
                return c
        raise Untranslatable('no translation of the callee for a first argument of type %r' % (ty,))

    # ---------------------------------------------------------------- expressions
    def expr(self, e):
        if isinstance(e, _Done):
            return (e.term, e.ty)
        if not self.monadic:
            return TrR.expr(self, e)
        if isinstance(e, ast.Constant) and isinstance(e.value, bytes):
            return (lst(z(b) for b in e.value) if e.value else '(@nil Z)', 'bytes')
        if isinstance(e, ast.BoolOp) and isinstance(e.op, ast.Or) and len(e.values) == 2 and self.is_sys_attr(e.values[1], 'stdout'):
            # out or sys.stdout
            t, ty = self.expr(e.values[0])
            if ty != OOUT:
                raise Untranslatable('`x or sys.stdout` for x of type %r' % (ty,))
            return ('(pya_or_stdout %s)' % t, 'dest')
        if isinstance(e, ast.Attribute) and self.is_sys_attr(e, 'platform'):
            ext_declare('ext_sys_platform', 'list Z')
            self.use_exts(['ext_sys_platform'])
            return ('ext_sys_platform', 'ustr')
        if isinstance(e, ast.Attribute) and isinstance(e.value, ast.Name) and e.value.id not in self.env:
            obj, _ = self.callee_object(e)
            cands = [c for c in self.reg.get(obj) if c.kind == 'typed'] if obj is not None else []
            if len(cands) == 1:                         # a translated function used as a value
                c = cands[0]
                if c.exts:
                    args = ' '.join(self.use_exts(c.exts))
                    return ('(%s %s)' % (c.coq, args), ('func', tuple(t for _, t in c.params), c.ret, c.monadic))
                return (c.coq, ('func', tuple(t for _, t in c.params), c.ret, c.monadic))
        return TrR.expr(self, e)

    def is_sys_attr(self, e, attr):
        return isinstance(e, ast.Attribute) and e.attr == attr and isinstance(e.value, ast.Name) \
            and self.modglobal(e.value.id, sys) is sys

    def attribute(self, e):
        if self.monadic and isinstance(e.value, ast.Name) and self.env.get(e.value.id) == CODE and e.attr in CODE_FIELDS:
            cls = getattr(vars(self.module).get('encoder'), 'Code', None)
            if cls is None or tuple(getattr(cls, '_fields', ())) != CODE_FIELDS or not issubclass(cls, tuple):
                raise Untranslatable('encoder.Code changed')
            k = CODE_FIELDS.index(e.attr)
            vs = ['c%d_' % i for i in range(5)]
            return ("(let '(%s) := %s in %s)" % (', '.join(vs), self.n(e.value.id), vs[k]), CODE[1 + k])
        return TrR.attribute(self, e)

    def check_field(self, ty, attr):
        # the classes of encoder.py are looked up in encoder.py, not in the module under translation
        enc = vars(self.module).get('encoder') if self.module is not None else None
        saved = self.mods.get('encoder')
        if inspect.ismodule(enc) and enc.__name__ == 'segno.encoder':
            self.mods['encoder'] = enc
        try:
            return TrR.check_field(self, ty, attr)
        finally:
            self.mods['encoder'] = saved

    def subscript(self, e):
        if self.monadic and not isinstance(e.slice, ast.Slice) and self.type_of(e.value) == 'segs':
            if True:
                # Segments.__getitem__ (fingerprinted): self.segments[item]
                cls = getattr(vars(self.module).get('encoder'), 'Segments', None)
                src = ast.parse(textwrap.dedent(inspect.getsource(cls)))
                got = [x for x in ast.walk(src) if isinstance(x, ast.FunctionDef) and x.name == '__getitem__']
                if len(got) != 1 or ast.dump(got[0]) != ast.dump(ast.parse(SEGMENTS_GETITEM_EXPECTED).body[0]):
                    raise Untranslatable('Segments.__getitem__ changed')
                a, _ = self.expr(e.value)
                k, tk = self.expr(e.slice)
                if tk != 'Z':
                    raise Untranslatable('index is not an int')
                return self.bind('(py_index (segs_segments %s) %s)' % (a, k), 'seg')
        return TrR.subscript(self, e)

    def call(self, e):
        f = e.func
        if not self.monadic:
            return TrR.call(self, e)
        # ---- len(segments): Segments.__len__ as translated in SrcFit.v
        if isinstance(f, ast.Name) and f.id == 'len' and self.builtin('len') and len(e.args) == 1 and not e.keywords:
            if self.type_of(e.args[0]) == 'segs':
                a, _ = self.expr(e.args[0])
                return ('(SrcFit.src_Segments_len %s)' % a, 'Z')
        # ---- kw.get(k, dflt)
        if isinstance(f, ast.Attribute) and isinstance(f.value, ast.Name) and self.env.get(f.value.id) == 'kw':
            if f.attr == 'get' and len(e.args) == 2 and not e.keywords and is_const(e.args[0], str):
                d, td = self.expr(e.args[1])
                return ('(pya_kw_arg %s %s %s)' % (key(e.args[0].value), self.to_dyn(d, td), self.n(f.value.id)), 'dyn')
            if f.attr == 'pop' and len(e.args) == 2 and not e.keywords and is_const(e.args[0], str):
                if self.iso_depth:
                    raise Untranslatable('dict.pop in an operand that is evaluated conditionally')
                d, td = self.expr(e.args[1])
                v = self.fresh()
                o = self.n(f.value.id)
                self.pending.append(('(%s, %s)' % (v, o), '(Ok (pya_kw_pop %s %s %s))' % (o, key(e.args[0].value), self.to_dyn(d, td))))
                self.effects += 1
                return (v, 'dyn')
            raise Untranslatable('dict method ' + f.attr)
        # ---- buff.getvalue()
        if isinstance(f, ast.Attribute) and f.attr == 'getvalue' and isinstance(f.value, ast.Name) \
                and self.env.get(f.value.id) == 'binstream' and not e.args and not e.keywords:
            return (self.n(f.value.id), 'bytes')
        # ---- base64.b64encode(x)
        if isinstance(f, ast.Attribute) and f.attr == 'b64encode' and isinstance(f.value, ast.Name) \
                and self.modglobal(f.value.id) is __import__('base64') and len(e.args) == 1 and not e.keywords:
            a, ta = self.expr(e.args[0])
            if ta != 'bytes':
                raise Untranslatable('b64encode of %r' % (ta,))
            return ('(pya_b64encode %s)' % a, 'bytes')
        # ---- x.decode('ascii') / x.decode(<name given at run time>)
        if isinstance(f, ast.Attribute) and f.attr == 'decode' and len(e.args) == 1 and not e.keywords:
            if self.type_of(f.value) == 'bytes':
                a, _ = self.expr(f.value)
                if is_const(e.args[0], str) and e.args[0].value.lower() in ('ascii', 'us-ascii'):
                    return self.bind('(pya_decode_ascii %s)' % a, 'ustr')
                c, tc = self.expr(e.args[0])
                if tc != 'dyn':
                    raise Untranslatable('decode(%r)' % (tc,))
                name = self.bind('(pya_codec_name %s)' % c, 'ustr')[0]
                ext_declare('ext_codec_decode', 'list Z -> list Z -> res (list Z)')
                self.use_exts(['ext_codec_decode'])
                return self.bind('(ext_codec_decode %s %s)' % (name, a), 'ustr')
        # ---- partial(quote, safe=b'..'): urllib.parse.quote on bytes
        if isinstance(f, ast.Name) and f.id == 'partial' and self.modglobal('partial') is __import__('functools').partial \
                and len(e.args) == 1 and isinstance(e.args[0], ast.Name) and e.args[0].id == 'quote' \
                and self.modglobal('quote') is __import__('urllib.parse').parse.quote \
                and len(e.keywords) == 1 and e.keywords[0].arg == 'safe' and is_const(e.keywords[0].value, bytes):
            s, _ = self.expr(e.keywords[0].value)
            ext_declare('ext_quote', 'list Z -> list Z -> list Z')
            self.use_exts(['ext_quote'])
            return ('(fun x_ => ext_quote x_ %s)' % s, ('func', ('bytes',), 'ustr', False))
        # ---- _replace_quotes(x): a compiled regular expression (C code)
        if isinstance(f, ast.Name) and f.id == '_replace_quotes' and self.modglobal('_replace_quotes') is not None \
                and len(e.args) == 1 and not e.keywords:
            tree = ast.parse(inspect.getsource(self.module))
            defs = [s for s in tree.body if isinstance(s, ast.Assign) and any(isinstance(t, ast.Name) and t.id == '_replace_quotes'
                                                                                for t in s.targets)]
            import functools
            import re as _re
            if len(defs) != 1 or ast.dump(defs[0]) != ast.dump(ast.parse(REPLACE_QUOTES_EXPECTED).body[0]) \
                    or vars(self.module).get('partial') is not functools.partial or vars(self.module).get('re') is not _re:
                raise Untranslatable('writers._replace_quotes changed')
            a, ta = self.expr(e.args[0])
            if ta != 'bytes':
                raise Untranslatable('_replace_quotes of %r' % (ta,))
            ext_declare('ext_replace_quotes', 'list Z -> list Z')
            self.use_exts(['ext_replace_quotes'])
            return ('(ext_replace_quotes %s)' % a, 'bytes')
        # ---- serializer(matrix, matrix_size, <stream>, **kw) for a value of _VALID_SERIALIZERS
        if isinstance(f, ast.Name) and self.env.get(f.id) == 'serializer':
            cands = self.reg.get('serializer-dispatch')
            if not cands:
                raise Untranslatable('call of a serializer value')
            c = cands[0]
            c2 = Callee('api', c.coq, c.params, c.defaults, c.kwarg, c.ret, c.exts, c.stream, c.variants, prefix=[f.id])
            t, ty, stream = self.api_call(e, c2)
            return self.finish_stream(t, ty, stream)
        # ---- map(QRCode, xs)
        if isinstance(f, ast.Name) and f.id == 'map' and self.builtin('map') and len(e.args) == 2 and not e.keywords:
            obj, _ = self.callee_object(e.args[0])
            cands = [c for c in self.reg.get(obj) if c.kind == 'typed' and len(c.params) == 1 and not c.exts] if obj is not None else []
            if len(cands) == 1:
                xs, tx = self.expr(e.args[1])
                if not (is_list(tx) and tx[1] == cands[0].params[0][1]):
                    raise Untranslatable('map over %r' % (tx,))
                if cands[0].monadic:
                    return self.bind('(pya_map_res %s %s)' % (cands[0].coq, xs), ('list', cands[0].ret))
                return ('(map %s %s)' % (cands[0].coq, xs), ('list', cands[0].ret))
        # ---- QRCodeSequence(<iterable>): a tuple of the items
        obj, receiver = self.callee_object(f)
        if obj is not None and obj is vars(self.module).get('QRCodeSequence') and isinstance(obj, type) and len(e.args) == 1 \
                and not e.keywords:
            seq_class_ok(obj)
            xs, tx = self.expr(e.args[0])
            if tx != ('list', 'qrcode'):
                raise Untranslatable('QRCodeSequence of %r' % (tx,))
            return (xs, tx)
        # ---- registered callees
        cands = self.reg.get(obj) if obj is not None else []
        if cands:
            c = self.pick(cands, e, receiver)
            if c.kind == 'unmodelled':
                raise Untranslatable('call of %s outside a try that is given up as a whole' % ast.unparse(f))
            if c.kind == 'typed':
                first = None
                if receiver is not None:
                    first = self.expr(receiver)
                return self.typed_call(e, c, first)
            t, ty, stream = self.api_call(e, c, receiver)
            return self.finish_stream(t, ty, stream)
        return TrR.call(self, e)

    def finish_stream(self, t, ty, stream):
        """The value of a call that wrote to a stream, seen from the statement that contains it."""
        if stream is None:
            return (t, ty)
        self.last_stream = stream
        return (t, ty)

    # ---------------------------------------------------------------- statements
    def stmts(self, ss, ctx):
        if not ss:
            return ctx.fall()
        s, rest = ss[0], ss[1:]
        if not self.monadic or self.pending:
            return TrR.stmts(self, ss, ctx)
        # ---- x = code.<field>: a second name for a field of the namedtuple (harmless while the function changes neither in place)
        if isinstance(s, ast.Assign) and len(s.targets) == 1 and isinstance(s.targets[0], ast.Name) \
                and isinstance(s.value, ast.Attribute) and isinstance(s.value.value, ast.Name) \
                and self.env.get(s.value.value.id) == CODE:
            if self.inplace is None or s.targets[0].id in self.inplace or s.value.value.id in self.inplace:
                raise Untranslatable('second reference to a mutable object')
            t, ty = self.expr(s.value)
            return TrR.stmts(self, [ast.Assign(targets=s.targets, value=_Done(t, ty))] + rest, ctx)
        # ---- buff = io.BytesIO()
        if isinstance(s, ast.Assign) and len(s.targets) == 1 and isinstance(s.targets[0], ast.Name) \
                and isinstance(s.value, ast.Call) and isinstance(s.value.func, ast.Attribute) and s.value.func.attr == 'BytesIO' \
                and isinstance(s.value.func.value, ast.Name) and self.modglobal(s.value.func.value.id) is __import__('io') \
                and not s.value.args and not s.value.keywords:
            name = s.targets[0].id
            if name in self.env or self.depth:
                raise Untranslatable('rebinding of the stream ' + name)
            self.env[name] = 'binstream'
            return '(let %s := pya_bin_new in\n %s)' % (self.n(name), self.stmts(rest, ctx))
        # ---- return <call that writes to the function's own out>  (made from a tail statement by rewrite_tail)
        if isinstance(s, ast.Return) and getattr(s, 'written_', False):
            self.stream_call += 1
            self.last_stream = None
            try:
                t, ty = self.expr(s.value)
            finally:
                self.stream_call -= 1
            st = self.last_stream
            if st is None or st[0] not in ('own', 'dest') or ty not in ('written',):
                raise Untranslatable('tail call that does not write to the own out: ' + ast.unparse(s.value)[:60])
            if st[0] == 'dest':
                t, ty = '(%s, %s)' % (st[1], t), ('tuple', 'dest', 'written')
            binds = self.take()
            self.rt_seen.append((t, ty))
            if self.rt_decl is not None:
                t = self.coerce(t, ty, self.rt_decl)
            return self.wrap(binds, ctx.ret(t))
        # ---- f(.., buff, ..): a call that writes to a local binary stream
        if isinstance(s, ast.Expr) and isinstance(s.value, ast.Call) and self.writes_to_local(s.value):
            self.stream_call += 1
            self.last_stream = None
            try:
                t, ty = self.expr(s.value)
            finally:
                self.stream_call -= 1
            st = self.last_stream
            if st is None or st[0] != 'bin' or ty != 'written':
                raise Untranslatable('statement ' + ast.unparse(s)[:60])
            ext_declare('ext_codec_encode', 'list Z -> list Z -> res (list Z)')
            self.use_exts(['ext_codec_encode'])
            b = self.n(st[1])
            self.pending.append((b, '(pya_bin_write ext_codec_encode %s %s)' % (b, t)))
            self.effects += 1
            binds = self.take()
            return self.wrap(binds, self.stmts(rest, ctx))
        # ---- with gzip.open(out, 'wb', compresslevel=E) as f: BODY      (last statement: the function returns the gzip file)
        if isinstance(s, ast.With):
            return self.gzip_with(s, rest, ctx)
        # ---- try: <call of an unmodelled function> except ..: the whole statement is given up (the marker)
        if isinstance(s, ast.Try) and len(s.body) == 1 and isinstance(s.body[0], ast.Expr) and isinstance(s.body[0].value, ast.Call):
            obj, _ = self.callee_object(s.body[0].value.func)
            if obj is not None and any(c.kind == 'unmodelled' for c in self.reg.get(obj)):
                self.partial += 1
                self.effects += 1
                return 'Err pya_unmodelled'
        return TrR.stmts(self, ss, ctx)

    def writes_to_local(self, call):
        return any(isinstance(a, ast.Name) and self.env.get(a.id) == 'binstream' for a in call.args)

    def gzip_with(self, s, rest, ctx):
        import gzip
        if rest or len(s.items) != 1 or not getattr(s, 'written_', False):
            raise Untranslatable('with statement that is not the last statement of a function with an out parameter')
        it = s.items[0]
        c = it.context_expr
        shape = ast.parse(GZIP_WITH_EXPECTED).body[0].value
        if not (isinstance(c, ast.Call) and isinstance(it.optional_vars, ast.Name) and len(c.keywords) == 1
                and c.keywords[0].arg == 'compresslevel' and ast.dump(c.func) == ast.dump(shape.func)
                and [ast.dump(a) for a in c.args] == [ast.dump(a) for a in shape.args]
                and self.modglobal('gzip') is gzip and self.out_param == 'out' and self.env.get('out') == 'outarg'):
            raise Untranslatable('with statement other than the gzip wrapper of save')
        f = it.optional_vars.id
        if f in self.env:
            raise Untranslatable('rebinding of ' + f)
        lvl, tl = self.expr(c.keywords[0].value)            # evaluated before the file is opened (may pop from kw)
        lvl = self.to_dyn(lvl, tl)
        binds = self.take()
        ext_declare('ext_gzip', 'py_out -> py_dyn -> list Z -> list Z')
        self.use_exts(['ext_gzip'])
        self.env[f] = 'binstream'
        term = '(PWBytes (ext_gzip %s %s %s))' % (self.n('out'), lvl, self.n(f))

        def close():
            self.rt_seen.append((term, 'written'))
            return ctx.ret(term)
        body = self.stmts(list(s.body), Ctx(ret=self.no_return, fall=close))
        return self.wrap(binds, '(let %s := pya_bin_new in\n %s)' % (self.n(f), body))

    def no_return(self, t):
        raise Untranslatable('return inside the with block')


def seq_class_ok(cls):
    if not (isinstance(cls, type) and issubclass(cls, tuple) and cls.__bases__ == (tuple,)
            and not any(k in vars(cls) for k in ('__len__', '__iter__', '__getitem__', '__getattribute__', '__init__'))):
        raise Untranslatable('QRCodeSequence is not a plain tuple subclass')
    new = vars(cls).get('__new__')
    if new is not None:
        src = ast.parse(textwrap.dedent(inspect.getsource(new))).body[0]
        want = ast.parse('def __new__(cls, qrcodes):\n    return super().__new__(cls, qrcodes)').body[0]
        if ast.dump(src) != ast.dump(want):
            raise Untranslatable('QRCodeSequence.__new__ changed')


# ------------------------------------------------------------------ ast rewrites (checked, fail closed)
def rewrite_tail(fn, out_param, is_stream_call):
    """A statement call that passes the function's own out (or `out or sys.stdout`) as a stream argument must be in TAIL POSITION;
    it becomes `return <call>` (marked): the function returns what the callee wrote.  The gzip `with` in tail position is marked."""
    def mentions_out(call):
        return any(isinstance(x, ast.Name) and x.id == out_param for a in call.args for x in ast.walk(a))

    def tail(stmts):
        if not stmts:
            return
        last = stmts[-1]
        if isinstance(last, ast.Expr) and isinstance(last.value, ast.Call) and mentions_out(last.value) and is_stream_call(last.value):
            r = ast.Return(value=last.value)
            r.written_ = True
            stmts[-1] = ast.copy_location(r, last)
        elif isinstance(last, ast.If):
            tail(last.body)
            tail(last.orelse)
        elif isinstance(last, ast.With):
            last.written_ = True
        elif isinstance(last, ast.Try):
            for h in last.handlers:
                tail(h.body)
    tail(fn.body)
    # any other statement call that passes out on is refused
    for node in ast.walk(fn):
        if isinstance(node, ast.Expr) and isinstance(node.value, ast.Call) and mentions_out(node.value) and is_stream_call(node.value):
            raise Untranslatable('a call that writes to out is not in tail position: ' + ast.unparse(node)[:60])
    return fn


def rewrite_self(fn, slots, init):
    """self.<slot> -> the local variable self__<slot>.  In __init__ the stores become local assignments (every slot exactly once,
    at top level); elsewhere a store is refused.  Returns the slots that are read."""
    names = dict(slots)
    used, stored = [], []

    class R(ast.NodeTransformer):
        def visit_Attribute(self, node):
            self.generic_visit(node)
            if isinstance(node.value, ast.Name) and node.value.id == 'self' and node.attr in names:
                if isinstance(node.ctx, ast.Load):
                    if node.attr not in used:
                        used.append(node.attr)
                elif isinstance(node.ctx, ast.Store) and init:
                    stored.append(node.attr)
                else:
                    raise Untranslatable('store into self.' + node.attr)
                return ast.copy_location(ast.Name(id='self__' + node.attr, ctx=node.ctx), node)
            return node
    for n in ast.walk(fn):
        if isinstance(n, ast.Name) and n.id.startswith('self__'):
            raise Untranslatable('name ' + n.id)
    R().visit(fn)
    if init:
        top = [t.id[6:] for s in fn.body if isinstance(s, ast.Assign) for t in s.targets
               if isinstance(t, ast.Name) and t.id.startswith('self__')]
        if sorted(stored) != sorted(names) or sorted(top) != sorted(names):
            raise Untranslatable('__init__ does not store every slot exactly once at top level: %r' % (stored,))
    # what is left of self: the receiver of a method call
    for n in ast.walk(fn):
        if isinstance(n, ast.Call) and isinstance(n.func, ast.Attribute) and isinstance(n.func.value, ast.Name) \
                and n.func.value.id == 'self':
            n.func.value.id = 'self'        # allowed
    class C(ast.NodeVisitor):
        def visit_Call(self, node):
            if isinstance(node.func, ast.Attribute) and isinstance(node.func.value, ast.Name) and node.func.value.id == 'self':
                for a in node.args:
                    self.visit(a)
                for k in node.keywords:
                    self.visit(k.value)
                return
            self.generic_visit(node)

        def visit_Name(self, node):
            if node.id == 'self':
                raise Untranslatable('self used otherwise than through its slots and methods')
    for st in fn.body:
        C().visit(st)
    return used


# ------------------------------------------------------------------ function level
class Group:
    def __init__(self, mods, report, outdir, reg, deps=()):
        self.mods, self.report, self.outdir, self.reg = mods, report, outdir, reg
        self.out = [HEADER_A + ''.join('From SegnoSrc Require %s.\n' % d for d in deps)]
        self.ok = {}
        self.keys_before = list(KEYS_USED)

    def text(self):
        new = [k for k in KEYS_USED if k not in self.keys_before]
        return '\n'.join([self.out[0], '(* keyword names *)\n' + key_block(new)] + self.out[1:]) + '\n'

    def attempt(self, name, fn):
        try:
            self.out.append(fn())
            self.report['functions'][name] = 'ok'
            self.ok[name] = True
        except Untranslatable as ex:
            self.report['functions'][name] = 'untranslatable: %s' % ex
            self.out.append('(* %s: untranslatable: %s *)' % (name, str(ex).replace('*)', '* )').replace('(*', '( *')))
        except Exception as ex:  # source changed shape in a way we do not understand: fail closed
            self.report['functions'][name] = 'untranslatable: %s: %s' % (type(ex).__name__, ex)
            self.out.append('(* %s: untranslatable (%s) *)' % (name, type(ex).__name__))

    # ---- a definition of another translator as a typed callee (checked against the generated text)
    def imported(self, obj, fname, coqname, params, ret, exts=(), monadic=True, sig_of=None, qual=None):
        """params: [(name, type)] as declared HERE; the Python signature of `obj` must have these names, the Coq definition
        these names and the corresponding Coq types (after its leading ext_ parameters, which must be `exts`)."""
        sig = inspect.signature(sig_of or obj)
        got = [p.name for p in sig.parameters.values()]
        if got != [p for p, _ in params] or any(p.kind != p.POSITIONAL_OR_KEYWORD for p in sig.parameters.values()):
            raise Untranslatable('parameters of %s changed: %s' % (coqname, got))
        cparams, cret = coq_signature(self.outdir, fname, coqname)
        lead = [(p, t) for p, t in cparams if p.startswith('ext_')]
        body = [(p, t) for p, t in cparams if not p.startswith('ext_')]
        if [p for p, _ in lead] != list(exts):
            raise Untranslatable('parameters of %s for untranslated code: %s' % (coqname, [p for p, _ in lead]))
        if len(body) != len(params) or any(not same_param(p, cp) or flat_type(coqtype(t)) != flat_type(ct)
                                           for (p, t), (cp, ct) in zip(params, body)):
            raise Untranslatable('Coq signature of %s: %s' % (coqname, body))
        want = 'res (%s)' % coqtype(ret) if monadic else coqtype(ret)
        if flat_type(want) != flat_type(cret):
            raise Untranslatable('result type of %s: %s' % (coqname, cret))
        for p, t in lead:
            ext_declare(p, t)
        defaults = {}
        for p in sig.parameters.values():
            if p.default is not p.empty:
                if not (p.default is None or isinstance(p.default, (bool, int))):
                    raise Untranslatable('default of %s.%s' % (coqname, p.name))
                defaults[p.name] = ast.Constant(value=p.default)
        c = Callee('typed', fname[:-2] + '.' + coqname, params, defaults, False, ret, exts=[p for p, _ in lead], monadic=monadic)
        self.reg.add(obj, c)
        return c

    # ---- the keyword entry of a function: the Python call protocol for n positional arguments
    def kw_entry(self, name, callee, n, base, wrap_result=None, inner=None):
        """Definition name <exts> <prefix> <the first n parameters, the stream excepted> (d : py_kw) := ..
        inner: for a @colorful writer, (index where the parameters of the wrapped function start, its positional names)."""
        params = callee.params
        if n > len(params) or (callee.stream is not None and n <= callee.stream):
            raise Untranslatable('keyword entry of %s for %d positional arguments' % (name, n))
        tr = TrA(self.mods['consts'])
        sig = ['(%s : %s)' % (en, EXT_TYPES[en]) for en in callee.exts]
        sig += ['(%s : %s)' % (tr.n(p), coqtype(t)) for p in callee.prefix for t in ['serializer']]
        lines = []
        allnames = [p for p, _ in params]
        lvl1 = allnames if inner is None else allnames[:inner[0]]
        lines.append('do _ <- pya_kw_check_pos %s d;' % keys(allnames[:n]))
        if inner is not None:
            # second level: **kw of the wrapper against the wrapped function
            lines.append('let d2 := pya_kw_rest %s d in' % keys(lvl1))
            lines.append('do _ <- pya_kw_check_pos %s d2;' % keys(inner[1]))
            lines.append('do _ <- pya_kw_check_unexpected %s d2;' % keys(list(inner[1]) + allnames[inner[0]:]))
        elif not callee.kwarg:
            lines.append('do _ <- pya_kw_check_unexpected %s d;' % keys(allnames))
        args = []
        for k, (p, t) in enumerate(params):
            if callee.stream == k and t != 'outarg':
                continue
            v = tr.n(p)
            if k < n:
                sig.append('(%s : %s)' % (v, 'py_dyn' if isinstance(t, tuple) and t[0] == 'coq' else coqtype(t)))
                if isinstance(t, tuple) and t[0] == 'coq':
                    lines.append('do %s <- %s %s;' % (v, COQ_FROM_DYN[t[1]][0], v))
            else:
                if p not in callee.defaults:
                    raise Untranslatable('parameter %s of %s has no default' % (p, name))
                src = 'd2' if inner is not None and k >= inner[0] else 'd'
                val = '(pya_kw_arg %s %s %s)' % (key(p), dyn_of_value(callee.defaults[p]), src)
                if t == 'dyn':
                    lines.append('let %s := %s in' % (v, val))
                elif isinstance(t, tuple) and t[0] == 'coq':
                    lines.append('do %s <- %s %s;' % (v, COQ_FROM_DYN[t[1]][0], val))
                else:
                    if t not in FROM_DYN:
                        raise Untranslatable('no reading of an arbitrary object as %r' % (t,))
                    lines.append('do %s <- %s %s;' % (v, FROM_DYN[t], val))
            args.append(v)
        if callee.kwarg:
            args.append('(pya_kw_rest %s d)' % keys(allnames))
        call = '(%s %s)' % (base, ' '.join(list(callee.exts) + [tr.n(p) for p in callee.prefix] + args))
        if wrap_result:
            lines.append('do r_ <- %s;' % call)
            lines.append('Ok %s' % wrap_result)
        else:
            lines.append(call)
        # the checks come first, in the order of the call protocol; then the readings at the declared types
        checks = [ln for ln in lines if 'pya_kw_check' in ln or ln.startswith('let d2')]
        others = [ln for ln in lines if ln not in checks]
        sig.append('(d : py_kw)')
        body = '\n '.join(checks + others)
        return 'Definition %s %s : res (%s) :=\n (%s).\n' % (name, ' '.join(sig), coqtype(callee.ret), body)

    # ---- a function of the API layer
    def define(self, modname, qualname, params, kwarg=None, out_param=None, decl_types=None, cls=None,
               coqname=None, variants=(), stream=None, init=False, register=True, typed=False):
        """Translate <module>.<qualname>.  params: every parameter with its type ('dyn' unless the body works on it).
        variants: numbers of positional arguments for which a keyword entry is generated."""
        def go():
            module = self.mods[modname]
            tree = ast.parse(inspect.getsource(module))
            fn = ast.parse(ast.unparse(T.find_qualified(tree, qualname))).body[0]        # a private copy
            a = fn.args
            decos = [ast.unparse(d) for d in fn.decorator_list]
            if a.vararg or a.kwonlyargs or a.posonlyargs or (a.kwarg.arg if a.kwarg else None) != kwarg \
                    or decos not in ([], ['property']):
                raise Untranslatable('signature of ' + qualname)
            got = [x.arg for x in a.args]
            if got != [p for p, _ in params]:
                raise Untranslatable('parameters changed: %s' % got)
            dnodes = dict(zip(got[len(got) - len(a.defaults):], a.defaults))
            defaults = {}
            for p, d in dnodes.items():
                if not isinstance(d, ast.Constant):
                    raise Untranslatable('non-literal default value')
                defaults[p] = d.value
            T.strip_docstrings(fn)
            klass = getattr(module, cls) if cls else None
            used = []
            if klass is not None:
                slots = tuple(getattr(klass, '__slots__', ()))
                if slots != tuple(s for s, _ in QR_SLOTS) or klass.__bases__ != (object,) \
                        or any(k in vars(klass) for k in ('__getattribute__', '__setattr__')):
                    raise Untranslatable('%s.__slots__ changed: %r' % (cls, slots))
                used = rewrite_self(fn, QR_SLOTS, init)

            def is_stream_call(call):
                tr0 = TrA(self.mods['consts'], env={}, monadic=True, funs={}, mods={'consts': self.mods['consts'], 'encoder': module})
                tr0.module, tr0.reg, tr0.cls = module, self.reg, klass
                tr0.env = dict((p, t) for p, t in params)
                if isinstance(call.func, ast.Name) and call.func.id == 'serializer':
                    return True
                obj, _ = tr0.callee_object(call.func)
                return obj is not None and any(c.stream is not None for c in self.reg.get(obj))
            if out_param:
                rewrite_tail(fn, out_param, is_stream_call)
            if contains(fn.body, (ast.Yield, ast.YieldFrom, ast.Await, ast.While, ast.Global, ast.Nonlocal, ast.Delete, ast.Lambda,
                                  ast.NamedExpr, ast.Import, ast.ImportFrom, ast.ClassDef, ast.FunctionDef, ast.For)):
                raise Untranslatable('statement outside the fragment')
            ptypes = dict(params)
            if kwarg:
                ptypes[kwarg] = 'kw'
            for sname, st in QR_SLOTS:
                if sname in used:
                    ptypes['self__' + sname] = st
            mods = {'consts': self.mods['consts'], 'encoder': module}     # `builtin()` / `exn_of()` look at this module's globals

            def run(rt_decl):
                tr = TrA(self.mods['consts'], env=ptypes, monadic=True, funs={}, mods=mods)
                tr.module, tr.fn_node, tr.reg, tr.cls, tr.out_param = module, fn, self.reg, klass, out_param
                tr.decl_types = dict(decl_types or {})
                tr.rt_decl = rt_decl
                try:
                    tr.inplace = tr.changed_in_place(fn.body)
                except Untranslatable:
                    tr.inplace = None
                try:
                    tr.ever_mutated = tr.assigned(fn.body)
                except Untranslatable:
                    tr.ever_mutated = None

                def ret(t):
                    if init:
                        raise Untranslatable('return in __init__')
                    return 'Ok tt' if t is None else 'Ok %s' % t

                def fall():
                    if init:
                        return 'Ok (Build_py_qrcode %s)' % ' '.join(tr.n('self__' + s) for s, _ in QR_SLOTS)
                    if tr.rt_seen:
                        raise Untranslatable('function returns a value on some paths only')
                    return 'Ok tt'
                body = tr.stmts(list(fn.body), Ctx(ret=ret, fall=fall))
                return tr, body
            tr, body = run(None)
            if init:
                rt = 'qrcode'
                for s, st in QR_SLOTS:
                    if tr.env.get('self__' + s) != st:
                        raise Untranslatable('slot %s holds a value of type %r' % (s, tr.env.get('self__' + s)))
            elif tr.rt_seen:
                t0, rt = tr.rt_seen[0]
                for t, ty in tr.rt_seen[1:]:
                    rt = tr.join(t0, rt, t, ty)
                tr, body = run(rt)
            else:
                rt = 'unit'
            if tr.uses_fuel:
                raise Untranslatable('loop that needs fuel')
            if not init:
                for s in reversed(used):
                    body = '(let %s := (qr_%s %s) in\n %s)' % (tr.n('self__' + s), s, tr.n('self'), body)
            name = coqname or ('src_' + qualname.replace('.', '_').replace('__', ''))
            exts = [en for en in EXT_ORDER if en in tr.exts_used]
            sig = ' '.join(['(%s : %s)' % (en, EXT_TYPES[en]) for en in exts]
                           + ['(%s : %s)' % (tr.n(p), coqtype(t)) for p, t in params if not (init and p == 'self')]
                           + (['(%s : py_kw)' % tr.n(kwarg)] if kwarg else []))
            text = 'Definition %s %s : res (%s) :=\n %s.\n' % (name, sig, coqtype(rt), body)
            obj = vars(klass)[qualname.split('.')[-1]] if klass is not None else vars(module)[qualname]
            if isinstance(obj, property):
                obj = obj.fget
            if typed:
                c = Callee('typed', name, params, dict((p, ast.Constant(value=v)) for p, v in defaults.items()), False, rt, exts=exts)
            else:
                c = Callee('api', name, params, defaults, bool(kwarg), rt, exts=exts, stream=stream)
                for n in variants:
                    vname = name + '_kw' + ('' if n == len(params) - len(defaults) else str(n))
                    c.variants[n] = vname
                    text += '\n' + self.kw_entry(vname, c, n, name)
            if register:
                self.reg.add(obj, c)
            return text
        return go


# ------------------------------------------------------------------ the keyword entries of the translated serializers
# Python function -> (generated file, definition, extra numbers of positional arguments with a keyword entry)
WRITERS = [('write_svg', 'SrcSvg.v', 'src_write_svg_colorful', ()), ('write_png', 'SrcPng.v', 'src_write_png_colorful', ()),
           ('write_eps', 'SrcVecEps.v', 'src_write_eps', ()), ('write_pdf', 'SrcVecPdf.v', 'src_write_pdf', ()),
           ('write_txt', 'SrcWrText.v', 'src_write_txt', ()), ('write_pbm', 'SrcWrNetpbm.v', 'src_write_pbm', ()),
           ('write_pam', 'SrcWrNetpbm.v', 'src_write_pam', ()), ('write_ppm', 'SrcColorful.v', 'src_write_ppm_colorful', ()),
           ('write_xpm', 'SrcWrText.v', 'src_write_xpm', ()), ('write_xbm', 'SrcWrText.v', 'src_write_xbm', ()),
           ('write_tex', 'SrcVecTex.v', 'src_write_tex', ()), ('write_terminal', 'SrcWrText.v', 'src_write_terminal', (4,)),
           ('write_terminal_compact', 'SrcWrText.v', 'src_write_terminal_compact', (4,))]


def writable_mode(fn_obj):
    """('wb' | 'wt', has an encoding argument) of the single `with writable(out, mode[, encoding=..])` of the function."""
    src = ast.parse(textwrap.dedent(inspect.getsource(fn_obj)))
    hits = [n for n in ast.walk(src) if isinstance(n, ast.Call) and isinstance(n.func, ast.Name) and n.func.id == 'writable']
    if len(hits) != 1:
        raise Untranslatable('%d calls of writable' % len(hits))
    c = hits[0]
    if len(c.args) != 2 or not (isinstance(c.args[0], ast.Name) and c.args[0].id == 'out') or not is_const(c.args[1], str) \
            or c.args[1].value not in ('wb', 'wt') or [k.arg for k in c.keywords] not in ([], ['encoding']):
        raise Untranslatable('arguments of writable: ' + ast.unparse(c))
    return c.args[1].value, bool(c.keywords)


def writer_entries(g, writers_mod):
    """For every translated serializer: its keyword entry src_<f>_kw (and src_<f>_kwargs, the keyword dictionary of given typed
    arguments).  Registers the serializers as callees and returns {python name: Callee}."""
    out = {}
    for pyname, fname, coqname, extra in WRITERS:
        def go(pyname=pyname, fname=fname, coqname=coqname, extra=extra):
            fobj = getattr(writers_mod, pyname)
            wrapped = getattr(fobj, '__wrapped__', None)
            outer = inspect.signature(fobj, follow_wrapped=False)
            plist = list(outer.parameters.values())
            kwarg = bool(plist) and plist[-1].kind == plist[-1].VAR_KEYWORD
            if kwarg:
                plist = plist[:-1]
            if any(p.kind != p.POSITIONAL_OR_KEYWORD for p in plist) or [p.name for p in plist[:3]] != ['matrix', 'matrix_size', 'out']:
                raise Untranslatable('signature of %s: %s' % (pyname, outer))
            inner = None
            ilist = []
            if wrapped is not None:
                # @colorful: wrapper(matrix, matrix_size, out, dark=.., .., **kw) calling f(matrix, matrix_size, out, cm, **kw)
                if not kwarg or fobj.__code__.co_name != 'wrapper' \
                        or os.path.realpath(fobj.__code__.co_filename) != os.path.realpath(writers_mod.__file__):
                    raise Untranslatable('%s is wrapped by something other than colorful' % pyname)
                colorful_ok(writers_mod)
                isig = inspect.signature(wrapped)
                ilist = list(isig.parameters.values())
                if any(p.kind != p.POSITIONAL_OR_KEYWORD for p in ilist) \
                        or [p.name for p in ilist[:4]] != ['matrix', 'matrix_size', 'out', 'colormap']:
                    raise Untranslatable('signature of %s.__wrapped__: %s' % (pyname, isig))
                inner = (len(plist), ['matrix', 'matrix_size', 'out', 'colormap'])
                ilist = ilist[4:]
            elif kwarg:
                raise Untranslatable('%s takes **kw' % pyname)
            mode, has_enc = writable_mode(wrapped or fobj)
            cparams, cret = coq_signature(g.outdir, fname, coqname)
            lead = [(p, t) for p, t in cparams if p.startswith('ext_')]
            body = [(p, t) for p, t in cparams if not p.startswith('ext_')]
            pyparams = plist[3:] + ilist
            if [p for p, _ in body[:2]] != ['matrix', 'matrix_size'] or len(body) - 2 != len(pyparams) \
                    or any(not same_param(p.name, cp) for p, (cp, _) in zip(pyparams, body[2:])):
                raise Untranslatable('Coq signature of %s: %s' % (coqname, [p for p, _ in body]))
            if flat_type(body[0][1]) != 'list list Z' or flat_type(body[1][1]) != 'list Z':
                raise Untranslatable('Coq types of matrix / matrix_size in %s' % coqname)
            lead = [(ext_declare(p, t, pyname[6:]), t) for p, t in lead]
            params = [('matrix', MATZ), ('matrix_size', LZ), ('out', 'stream')]
            defaults = {}
            for p, (cp, ct) in zip(pyparams, body[2:]):
                if flat_type(ct) not in COQ_FROM_DYN:
                    raise Untranslatable('no reading of an arbitrary object as %s (%s of %s)' % (ct, cp, coqname))
                if p.default is p.empty:
                    raise Untranslatable('parameter %s of %s has no default' % (p.name, pyname))
                params.append((p.name, ('coq', flat_type(ct))))
                defaults[p.name] = p.default
            cret = flat_type(cret)
            if cret == 'res list Z' and not has_enc:
                wrap = '(PWBytes r_)' if mode == 'wb' else '(PWText None r_)'
            elif cret == 'res option list Z * list Z' and mode == 'wt' and has_enc:
                wrap = '(PWText (fst r_) (snd r_))'
            else:
                raise Untranslatable('result of %s (%s) and its mode %s' % (coqname, cret, mode))
            if inner is not None:
                inner = (3 + len(plist[3:]), inner[1])
            c = Callee('api', coqname, params, defaults, False, 'written', exts=[p for p, _ in lead], stream=2)
            base = fname[:-2] + '.' + coqname
            text = []
            for n in (3,) + tuple(extra):
                vname = 'src_%s_kw%s' % (pyname, '' if n == 3 else str(n))
                if inner is not None and n != 3:
                    raise Untranslatable('extra positional arguments of a @colorful writer')
                c.variants[n] = vname
                text.append(g.kw_entry(vname, c, n, base, wrap_result=wrap, inner=inner))
            # the keyword dictionary of given typed arguments (the inverse reading; used by the typed corollaries)
            tr = TrA(g.mods['consts'])
            sig = ' '.join('(%s : %s)' % (cp, ct) for cp, ct in body[2:])
            items = '; '.join('(%s, %s %s)' % (key(p.name), COQ_FROM_DYN[flat_type(ct)][1], cp)
                              for p, (cp, ct) in zip(pyparams, body[2:]))
            text.append('Definition src_%s_kwargs %s : py_kw :=\n [%s].\n' % (pyname, sig, items))
            g.reg.add(fobj, c)
            out[pyname] = c
            return '\n'.join(text)
        g.attempt('writers.%s[keywords]' % pyname, go)
    return out


COLORFUL_TAIL = 'return f(matrix, matrix_size, out, cm, **kw)'


def colorful_ok(writers_mod):
    src = ast.parse(textwrap.dedent(inspect.getsource(writers_mod.colorful))).body[0]
    wr = [n for n in ast.walk(src) if isinstance(n, ast.FunctionDef) and n.name == 'wrapper']
    if len(wr) != 1 or not wr[0].body or ast.dump(wr[0].body[-1]) != ast.dump(ast.parse(COLORFUL_TAIL).body[0]) \
            or wr[0].args.kwarg is None or wr[0].args.kwarg.arg != 'kw':
        raise Untranslatable('writers.colorful changed')


def translate_api(mods, report, outdir):
    files = {}
    reg = Registry()
    W = mods['writers']

    # ================================================================= SrcApiUri.v
    deps = sorted(set(f[:-2] for _, f, _, _ in WRITERS))
    g = Group(mods, report, outdir, reg, deps=deps)
    entries = writer_entries(g, W)

    def dispatch():
        table = getattr(W, '_VALID_SERIALIZERS', None)
        if not (isinstance(table, dict) and table and all(isinstance(k, str) for k in table)):
            raise Untranslatable('_VALID_SERIALIZERS is not the serializer table')
        exts, arms = [], []
        for k, fobj in table.items():
            name = getattr(fobj, '__name__', '')
            if getattr(W, name, None) is not fobj or name not in entries:
                raise Untranslatable('serializer %r (%s) has no keyword entry' % (k, name))
            c = entries[name]
            exts += [en for en in c.exts if en not in exts]
            arms.append((k, c))
        exts = [en for en in EXT_ORDER if en in exts]
        sig = ' '.join('(%s : %s)' % (en, EXT_TYPES[en]) for en in exts)
        body = '(Err pya_unmodelled) (* not a key of _VALID_SERIALIZERS *)'
        for k, c in reversed(arms):
            body = '(if pyr_str_eqb serializer %s (* %s *)\n then (%s %s)\n else %s)' % (
                cps(k), k, c.variants[3], ' '.join(list(c.exts) + ['matrix', 'matrix_size', 'd']), body)
        text = ('Definition src_call_serializer %s (serializer : list Z) (matrix : list (list Z)) (matrix_size : list Z) (d : py_kw) '
                ': res (py_written) :=\n %s.\n' % (sig, body))
        c = Callee('api', 'src_call_serializer', [('matrix', MATZ), ('matrix_size', LZ), ('out', 'stream')], {}, True, 'written',
                   exts=exts, stream=2, variants={3: 'src_call_serializer'})
        reg.add_named('serializer-dispatch', c)
        return text
    g.attempt('writers._VALID_SERIALIZERS[dispatch]', dispatch)

    DYN = 'dyn'
    g.attempt('writers.as_png_data_uri',
              g.define('writers', 'as_png_data_uri',
                       [('matrix', MATZ), ('matrix_size', LZ), ('scale', DYN), ('border', DYN), ('compresslevel', DYN)],
                       kwarg='kw', variants=(2,)))
    g.attempt('writers.as_svg_data_uri',
              g.define('writers', 'as_svg_data_uri',
                       [('matrix', MATZ), ('matrix_size', LZ)] + [(p, DYN) for p in (
                           'scale', 'border', 'xmldecl', 'svgns', 'title', 'desc', 'svgid', 'svgclass', 'lineclass', 'omitsize', 'unit',
                           'encoding', 'svgversion', 'nl', 'encode_minimal', 'omit_charset')],
                       kwarg='kw', variants=(2,)))
    g.attempt('writers.save',
              g.define('writers', 'save', [('matrix', MATZ), ('matrix_size', LZ), ('out', 'outarg'), ('kind', OUSTR)],
                       kwarg='kw', out_param='out', decl_types={'fname': 'outarg'}, variants=(3, 4), stream=2))
    files['SrcApiUri.v'] = g.text()

    # ================================================================= SrcApiQr.v
    S = mods['segno']
    enc, utils = mods['encoder'], mods['utils']
    g = Group(mods, report, outdir, reg, deps=['SrcFit', 'SrcMode', 'SrcUtils', 'SrcUtilsIter', 'SrcUtilsVerbose', 'SrcEncodeTop'])
    g.out[0] += 'From SegnoSrc Require Import SrcApiUri.\n'
    OZ, B = 'oZ', 'bool'

    def callees():
        if vars(S).get('encoder') is not enc or vars(S).get('utils') is not utils or vars(S).get('writers') is not W \
                or vars(S).get('sys') is not sys or vars(S).get('io') is not __import__('io'):
            raise Untranslatable('module aliases of segno/__init__.py changed')
        etail = [('error', OZ), ('version', OZ), ('mode', OZ), ('mask', OZ), ('encoding', 'ostr'), ('eci', B), ('micro', 'obool'),
                 ('boost_error', B)]
        ex = ['ext_get_eci_assignment_number', 'ext_evaluate_mask']
        g.imported(enc.encode, 'SrcEncodeTop.v', 'src_encode_bytes', [('content', 'bytes')] + etail, CODE, exts=ex)
        g.imported(enc.encode, 'SrcEncodeTop.v', 'src_encode_items', [('content', ('list', 'pitem'))] + etail, CODE, exts=ex)
        g.imported(enc.get_mode_name, 'SrcMode.v', 'src_get_mode_name', [('mode_const', 'Z')], 'str')
        g.imported(utils.get_default_border_size, 'SrcUtils.v', 'src_get_default_border_size', [('matrix_size', LZ)], 'Z')
        g.imported(utils.get_symbol_size, 'SrcUtils.v', 'src_get_symbol_size', [('matrix_size', LZ), ('scale', 'Q'), ('border', OZ)],
                   ('list', 'Q'))
        for f, fl in (('matrix_iter', 'SrcUtilsIter.v'), ('matrix_iter_verbose', 'SrcUtilsVerbose.v')):
            g.imported(getattr(utils, f), fl, 'src_' + f, [('matrix', MATZ), ('matrix_size', LZ), ('scale', 'Q'), ('border', OZ)],
                       ('list', LZ))
        # Segments.__len__ as translated by gen/translate.py (a total function)
        p, r = coq_signature(outdir, 'SrcFit.v', 'src_Segments_len')
        if [flat_type(t) for _, t in p] != ['py_segs'] or flat_type(r) != 'Z':
            raise Untranslatable('SrcFit.src_Segments_len changed')
        # encoder.encode_sequence: the parameter ext_encode_sequence, typed by its CURRENT signature (bytes content)
        sig = inspect.signature(enc.encode_sequence)
        stypes = {'content': 'bytes', 'error': OZ, 'version': OZ, 'mode': OZ, 'mask': OZ, 'encoding': 'ostr', 'eci': B,
                  'boost_error': B, 'symbol_count': OZ}
        sp = []
        defaults = {}
        for prm in sig.parameters.values():
            if prm.kind != prm.POSITIONAL_OR_KEYWORD or prm.name not in stypes:
                raise Untranslatable('signature of encode_sequence: %s' % sig)
            sp.append((prm.name, stypes[prm.name]))
            if prm.default is not prm.empty:
                if not (prm.default is None or isinstance(prm.default, bool)):
                    raise Untranslatable('default of encode_sequence.%s' % prm.name)
                defaults[prm.name] = ast.Constant(value=prm.default)
        ext_declare('ext_encode_sequence', '%s -> res (list (%s))' % (' -> '.join(coqtype(t) for _, t in sp), coqtype(CODE)))
        reg.add(enc.encode_sequence, Callee('typed', 'ext_encode_sequence', sp, defaults, False, ('list', CODE),
                                            uses=['ext_encode_sequence']))
        reg.add(W.write_terminal_win, Callee('unmodelled'))
        return '(* callees: encoder.encode (src_encode_bytes / src_encode_items), encoder.get_mode_name, utils.*; ' \
               'encoder.encode_sequence is ext_encode_sequence *)'
    g.attempt('segno[callees]', callees)

    # ---- the class QRCode
    g.attempt('QRCode.__init__', g.define('segno', 'QRCode.__init__', [('self', 'qrcode'), ('code', CODE)], cls='QRCode', init=True,
                                          coqname='src_QRCode_init', register=False))

    def register_init():
        if not g.ok.get('QRCode.__init__'):
            raise Untranslatable('QRCode.__init__ is not translated')
        if any(k in vars(S.QRCode) for k in ('__new__', '__init_subclass__')) or type(S.QRCode) is not type:
            raise Untranslatable('QRCode defines __new__ / has a metaclass')
        # QRCode(code): object.__new__ + __init__(self, code); __init__ stores every slot, so the object is what it builds
        reg.add(S.QRCode, Callee('typed', 'src_QRCode_init', [('code', CODE)], {}, False, 'qrcode'))
        return '(* QRCode(code) is src_QRCode_init code *)'
    g.attempt('QRCode[constructor]', register_init)

    for shape, cty in (('bytes', 'bytes'), ('items', ('list', 'pitem'))):
        tail = [('error', OZ), ('version', OZ), ('mode', OZ), ('mask', OZ), ('encoding', 'ostr')]
        g.attempt('make[%s]' % shape,
                  g.define('segno', 'make', [('content', cty)] + tail + [('eci', B), ('micro', 'obool'), ('boost_error', B)],
                           coqname='src_make_' + shape, typed=True))
        g.attempt('make_qr[%s]' % shape,
                  g.define('segno', 'make_qr', [('content', cty)] + tail + [('eci', B), ('boost_error', B)],
                           coqname='src_make_qr_' + shape, typed=True))
        g.attempt('make_micro[%s]' % shape,
                  g.define('segno', 'make_micro', [('content', cty)] + tail + [('boost_error', B)],
                           coqname='src_make_micro_' + shape, typed=True))
    g.attempt('make_sequence[bytes]',
              g.define('segno', 'make_sequence', [('content', 'bytes'), ('error', OZ), ('version', OZ), ('mode', OZ), ('mask', OZ),
                                                  ('encoding', 'ostr'), ('boost_error', B), ('symbol_count', OZ)],
                       coqname='src_make_sequence_bytes', typed=True))

    Q = ('self', 'qrcode')
    g.attempt('QRCode.is_micro', g.define('segno', 'QRCode.is_micro', [Q], cls='QRCode', typed=True))
    g.attempt('QRCode.default_border_size', g.define('segno', 'QRCode.default_border_size', [Q], cls='QRCode', typed=True))
    g.attempt('QRCode.mode', g.define('segno', 'QRCode.mode', [Q], cls='QRCode', typed=True))
    g.attempt('QRCode.symbol_size', g.define('segno', 'QRCode.symbol_size', [Q, ('scale', 'Q'), ('border', OZ)], cls='QRCode',
                                             typed=True))
    g.attempt('QRCode.matrix_iter', g.define('segno', 'QRCode.matrix_iter', [Q, ('scale', 'Q'), ('border', OZ), ('verbose', 'dyn')],
                                             cls='QRCode', typed=True))
    g.attempt('QRCode.save', g.define('segno', 'QRCode.save', [Q, ('out', 'outarg'), ('kind', OUSTR)], kwarg='kw', cls='QRCode',
                                      out_param='out', variants=(2,), stream=1))
    g.attempt('QRCode.svg_data_uri',
              g.define('segno', 'QRCode.svg_data_uri', [Q, ('xmldecl', 'dyn'), ('encode_minimal', 'dyn'), ('omit_charset', 'dyn'),
                                                        ('nl', 'dyn')], kwarg='kw', cls='QRCode', variants=(1,)))
    g.attempt('QRCode.svg_inline', g.define('segno', 'QRCode.svg_inline', [Q], kwarg='kw', cls='QRCode', variants=(1,)))
    g.attempt('QRCode.png_data_uri', g.define('segno', 'QRCode.png_data_uri', [Q], kwarg='kw', cls='QRCode', variants=(1,)))
    g.attempt('QRCode.terminal', g.define('segno', 'QRCode.terminal', [Q, ('out', OOUT), ('border', 'dyn'), ('compact', 'dyn')],
                                          cls='QRCode', out_param='out', variants=(1,)))
    files['SrcApiQr.v'] = g.text()
    return files


API_FILES = ('SrcApiUri.v', 'SrcApiQr.v')


def main():
    repo, outdir = sys.argv[1], sys.argv[2]
    sys.path.insert(0, repo)
    os.makedirs(outdir, exist_ok=True)
    report = {'functions': {}, 'changed': [], 'parameters': {}}
    files = {}
    try:
        mods = {'segno': importlib.import_module('segno')}
        for m in ('consts', 'writers', 'encoder', 'utils'):
            mods[m] = importlib.import_module('segno.' + m)
        for m in mods.values():
            if not os.path.realpath(m.__file__).startswith(os.path.realpath(repo)):
                raise RuntimeError('segno imported from %s, not from %s' % (m.__file__, repo))
        files = translate_api(mods, report, outdir)
        report['parameters'] = dict((en, EXT_TYPES[en]) for en in EXT_ORDER)
    except Exception as ex:
        report['functions']['*'] = 'failed: %s: %s' % (type(ex).__name__, ex)
    for name in API_FILES:
        text = files.get(name)
        if not isinstance(text, str):
            text = HEADER_A + '(* %s: translation failed *)\n' % name
        if write_if_changed(os.path.join(outdir, name), text):
            report['changed'].append(name)
    print(json.dumps(report, indent=1))


if __name__ == '__main__':
    main()
