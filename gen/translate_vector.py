#!/usr/bin/env python3
"""Fail-closed translator for the "operator" writers of /repo/segno/writers.py -> Gallina
(build/gen/SrcVecCommon.v: utils.get_symbol_size and _valid_width_height_and_border at an int-or-float scale;
 build/gen/SrcVecTex.v: write_tex;  build/gen/SrcVecPdf.v: write_pdf;  build/gen/SrcVecEps.v: write_eps).

Built on gen/translate.py (Tr), translate_utils.py (TrU), translate_writers.py (TrW: streams, str as code points, f-strings,
one-shot iterators) and translate_colors.py (TrC: PrimFloat arithmetic, isinstance narrowing, '%.Nf'); nothing of those
files or of the existing theories/Base/PySem*.v is edited.  This file adds, in the subclass TrV and with the support library
theories/Base/PySemVec.v:

* numbers that are an int or a float whose exact value counts (`scale`, the page size, the PGF coordinates): type 'vnum'
  (Coq py_vnum = PVInt z | PVFlt q); `+ - *` (py_vnum_add / sub / mul), `int(x)`, `x != 1`, a float literal that meets an
  int / such a number (`- .5`) as its exact rational; `str(x)` / f'{x}' of such a number is py_vnum_str around the PARAMETER
  ext_q_repr (repr of a float is C code: CPython's shortest round-trip dtoa);
* calls of utils.matrix_to_lines (translated over Q in SrcUtilsIter.v): the int / float type of the yielded coordinates is
  recovered by an abstract interpretation of the current source of matrix_to_lines (kinds_of_lines) and re-attached with
  py_lines_tag; nested tuple targets `(x1, y1), (x2, y2)` in assignments, for loops and generator expressions;
  `next(it)` on such a generator (the variable is rebound to the remaining items);
* things that are C code become leading PARAMETERS of the generated definitions, only where used:
  time.strftime(fmt) -> ext_time_strftime, time.timezone -> ext_time_timezone, textwrap.wrap(s, n) -> ext_textwrap_wrap,
  zlib.compress(data, level) -> ext_zlib_compress, '{}'.format(float) / repr(float) of a binary64 value -> ext_float_repr
  (as in translate_colors.py); `'{:f}'.format(x)` of a binary64 value is NOT a parameter (PySemColor.py_fmt_pct_f 6);
* format specifications `[+]0<w>d` for ints in f-strings (py_fmt_0d), `'..{0}..{1}..'.format(a, b, ..)` with positional
  arguments, `'{} {:f} {0:f}'.format(*floats)`;
* `f.tell()` on the stream (py_tell: what this call has written so far);
* nested functions whose first parameter is the bound `write` method of the stream and that only call it
  (`def write_string(writemeth, s): writemeth(..)`) are translated as procedures on the stream, and
  `g = partial(fn, f.write)` / `g = partial(fn, write)` is resolved by rewriting every statement `g(a, ..)` to `fn(f, a, ..)`;
  nested functions inside nested functions;
* a conditional expression whose branches have unrelated types (`dark if black else <tuple of floats>`) is a sum; an
  operation known for one side only is Err py_unmodelled on the other (never caught: no try in these functions);
* an optional str (`dark`, `url` of write_tex): truthiness, `!= '<literal>'`, f'{x}' ('None' for None).

Nothing here decides a property: it regenerates Coq text which coqc checks against Model/Vector.v through the bridge
theorems theories/Tie/TieVecCommon.v, TieVecTex.v, TieVecPdf.v, TieVecEps.v.

Usage: translate_vector.py <repo> <outdir>      (prints a JSON status report on stdout)
"""
import ast
import functools
import importlib
import inspect
import json
import os
import re
import string
import sys
from fractions import Fraction

sys.path.insert(0, os.path.dirname(os.path.abspath(__file__)))
import translate as T                                                    # noqa: E402
import translate_utils as TU                                             # noqa: E402
import translate_writers as TW                                           # noqa: E402
import translate_colors as TC                                            # noqa: E402
from translate import Tr, Ctx, Untranslatable, write_if_changed, contains, is_list, z, lst  # noqa: E402
from translate_utils import _Done, _Wrap                                 # noqa: E402
from translate_writers import TrW, cps, find_top, is_gen, STREAMS, STREAM_ITEM, NEW_STREAM  # noqa: E402
from translate_colors import TrC, CNUMS                                  # noqa: E402

# ------------------------------------------------------------------ types added to the fragment
# 'vnum': an int or a float given by its exact value (py_vnum); 'otext': a str or None; ('either', A, B): a sum
T.SCALAR_COQ.update({'vnum': 'py_vnum', 'otext': 'option (list Z)'})
T.OPT.update({'otext': 'text'})
T.OPT_OF.update({'text': 'otext'})
T.COQ_RESERVED.update({'PVInt', 'PVFlt', 'PySemVec', 'SrcVecCommon', 'SrcVecEps', 'SrcVecPdf', 'SrcVecTex', 'SrcColor', 'inl', 'inr',
                       'sum', 'Qred', 'ext_q_repr', 'ext_float_repr', 'ext_time_strftime', 'ext_time_timezone',
                       'ext_textwrap_wrap', 'ext_zlib_compress', 'fl_', 'it_'})
VNUM = 'vnum'
PT = ('tuple', VNUM, VNUM)
LINE = ('tuple', PT, PT)                 # ((x1, y1), (x2, y2))
FLOATS = ('list', 'float')

HEADER_V = ('(* GENERATED by gen/translate_vector.py from the current /repo working tree -- do not edit. *)\n'
            'From Coq Require Import String.\n'
            'From Coq Require Import ZArith QArith List Bool PrimFloat.\n'
            'Import ListNotations.\n'
            'Open Scope Z_scope.\n'
            'From Segno Require Import Base.PyLite Base.PySem Base.PySemExt Base.PySemGen Base.PySemIO Base.PySemSeg '
            'Base.PySemColor Base.PySemVec.\n'
            'From SegnoSrc Require SrcTables.\n')

# the parameters that stand for C code: name -> (Coq type, what it is)
EXTS = [('ext_q_repr', 'Q -> list Z', 'repr / str of a float, given by its exact value as a reduced fraction'),
        ('ext_float_repr', 'py_float -> list Z', "repr / '{}'.format of a binary64 value"),
        ('ext_time_strftime', 'list Z -> list Z', 'time.strftime(format)'),
        ('ext_time_timezone', 'Z', 'time.timezone'),
        ('ext_textwrap_wrap', 'list Z -> Z -> list (list Z)', 'textwrap.wrap(text, width)'),
        ('ext_zlib_compress', 'list Z -> Z -> list Z', 'zlib.compress(data, level)')]


def vtype(t):
    if isinstance(t, tuple) and t[0] == 'either':
        return '((%s) + (%s))%%type' % (vtype(t[1]), vtype(t[2]))
    if isinstance(t, tuple) and t[0] in ('list', 'iter', 'gen'):
        return 'list (%s)' % vtype(t[1])
    if isinstance(t, tuple) and t[0] == 'lazygen':
        return 'res (list (%s))' % vtype(t[1])
    if isinstance(t, tuple) and t[0] in ('tuple', 'prod'):
        return '(%s)' % ' * '.join(vtype(x) for x in t[1:])
    return TC.ctype(t)


def qlit(v):
    f = Fraction(v)              # the exact value of the binary64 literal
    return '(%s # %d)%%Q' % (z(f.numerator), f.denominator)


def is_float_lit(node):
    return isinstance(node, ast.Constant) and isinstance(node.value, float) and node.value == node.value \
        and abs(node.value) != float('inf')


# ------------------------------------------------------------------ the number kinds matrix_to_lines yields
def kinds_of_lines(fn, params):
    """Abstract interpretation of a generator that yields ((a, b), (c, d)) over the domain "set of parameters on whose
    float-ness the float-ness of the value depends" (an int literal: the empty set; `+ - *` and augmented assignment: the
    union; loops: iterated to a fixpoint).  Returns [[ka, kb], [kc, kd]], each a frozenset of parameter names, joined over
    all yields.  Anything else that touches a numeric variable is Untranslatable."""
    FLOAT, OTHER = '<float>', '<other>'
    env = dict((p, frozenset([p])) for p in params)
    result = [None]

    def ev(e):
        if isinstance(e, ast.Constant) and isinstance(e.value, int) and not isinstance(e.value, bool):
            return frozenset()
        if isinstance(e, ast.Constant) and isinstance(e.value, float):
            return frozenset([FLOAT])
        if isinstance(e, ast.Name) and e.id in env:
            return env[e.id]
        if isinstance(e, ast.BinOp) and isinstance(e.op, (ast.Add, ast.Sub, ast.Mult)):
            return ev(e.left) | ev(e.right)
        if isinstance(e, ast.UnaryOp) and isinstance(e.op, ast.USub):
            return ev(e.operand)
        return frozenset([OTHER])         # not a tracked number: it must never reach a coordinate (checked at the end)

    def join_yield(v):
        if not (isinstance(v, ast.Tuple) and len(v.elts) == 2 and all(isinstance(p, ast.Tuple) and len(p.elts) == 2 for p in v.elts)):
            raise Untranslatable('yield of something that is not ((a, b), (c, d))')
        ks = [[ev(c) for c in p.elts] for p in v.elts]
        if result[0] is None:
            result[0] = ks
        else:
            result[0] = [[a | b for a, b in zip(r1, r2)] for r1, r2 in zip(result[0], ks)]

    def assign(target, value):
        if isinstance(target, ast.Name):
            env[target.id] = ev(value)
            return
        if isinstance(target, ast.Tuple) and isinstance(value, ast.Tuple) and len(target.elts) == len(value.elts):
            vals = [ev(v) for v in value.elts]          # the right-hand side is evaluated first
            for t, k in zip(target.elts, vals):
                if not isinstance(t, ast.Name):
                    raise Untranslatable('assignment target')
                env[t.id] = k
            return
        raise Untranslatable('assignment ' + ast.dump(target)[:60])

    def run(stmts):
        for s in stmts:
            if isinstance(s, ast.Expr) and isinstance(s.value, ast.Yield):
                join_yield(s.value.value)
            elif isinstance(s, ast.Expr) and isinstance(s.value, ast.Constant):
                pass
            elif isinstance(s, ast.Assign) and len(s.targets) == 1:
                assign(s.targets[0], s.value)
            elif isinstance(s, ast.AugAssign) and isinstance(s.target, ast.Name) and isinstance(s.op, (ast.Add, ast.Sub, ast.Mult)):
                env[s.target.id] = ev(ast.Name(id=s.target.id, ctx=ast.Load())) | ev(s.value)
            elif isinstance(s, ast.If):
                # the test only reads; both branches, joined
                for n in ast.walk(s.test):
                    if isinstance(n, (ast.Call, ast.NamedExpr, ast.Yield)):
                        raise Untranslatable('test ' + ast.dump(s.test)[:60])
                saved = dict(env)
                run(s.body)
                a = dict(env)
                env.clear()
                env.update(saved)
                run(s.orelse)
                for k in set(a) | set(env):
                    if k in a and k in env:
                        env[k] = a[k] | env[k]
                    elif k in a:
                        env[k] = a[k]
            elif isinstance(s, ast.For) and not s.orelse and isinstance(s.target, ast.Name) and isinstance(s.iter, ast.Name) \
                    and s.target.id not in env:
                for _ in range(len(params) + 4):          # the domain is finite: a fixpoint is reached
                    before = dict(env)
                    env[s.target.id] = frozenset([OTHER])
                    run(s.body)
                    env.pop(s.target.id, None)
                    for k in before:
                        env[k] = env.get(k, frozenset()) | before[k]
                    if env == before:
                        break
                else:
                    raise Untranslatable('no fixpoint')
            else:
                raise Untranslatable('statement %s in matrix_to_lines' % type(s).__name__)
    run(T.strip_docstrings(ast.parse(ast.unparse(fn))).body[0].body)
    if result[0] is None:
        raise Untranslatable('matrix_to_lines never yields')
    for row in result[0]:
        for k in row:
            if FLOAT in k or OTHER in k:
                raise Untranslatable('matrix_to_lines yields a coordinate whose kind is not determined by x, y, incby')
    return result[0]


# ------------------------------------------------------------------ the translator class
class TrV(TrC):
    def __init__(self, *args, **kw):
        self.vec = kw.pop('vec', None) or {}       # shared per-function data: stream name / mode, line kinds ...
        TrC.__init__(self, *args, **kw)

    def sub_translator(self, env):
        sub = type(self)(self.consts, env=env, monadic=True, funs=self.funs, mods=self.mods, writers=self.writers, vec=self.vec)
        sub.ever_mutated = set()
        sub.local_types = dict(self.local_types)
        sub.counter = self.counter + 100
        return sub

    # ---------------------------------------------------------------- types
    def coerce(self, term, frm, to):
        if frm == to:
            return term
        if frm == 'Z' and to == VNUM:
            return '(PVInt %s)' % term
        if frm == VNUM and to == 'Q':
            return '(py_vnum_q %s)' % term
        if frm == 'text' and to == 'otext':
            return '(Some %s)' % term
        if frm == 'oZ' and term == 'None' and to == 'otext':
            return 'None'
        return TrC.coerce(self, term, frm, to)

    def module_attr(self, e, mod, attr):
        """`mod.attr` where `mod` is the module of that name imported at the top of writers.py (not a local)"""
        return isinstance(e, ast.Attribute) and e.attr == attr and isinstance(e.value, ast.Name) and e.value.id == mod \
            and mod not in self.env and mod not in self.funs \
            and (getattr(self.writers, mod, None) is importlib.import_module(mod) or mod in self.vec.get('imports', ()))

    # ---------------------------------------------------------------- expressions
    def vnum_side(self, node):
        if is_float_lit(node):
            return ('(PVFlt %s)' % qlit(node.value), VNUM, True)
        t, ty = self.expr(node)
        return (t, ty, False)

    def expr(self, e):
        if not self.monadic:
            return TrC.expr(self, e)
        if isinstance(e, _Done):
            return (e.term, e.ty)
        if isinstance(e, ast.BinOp) and isinstance(e.op, (ast.Add, ast.Sub, ast.Mult)) \
                and not (is_float_lit(e.left) and is_float_lit(e.right)):
            a, ta, la = self.vnum_side(e.left)
            b, tb, lb = self.vnum_side(e.right)
            other = tb if la else ta
            if (la or lb) and other not in ('Z', VNUM):
                # a float literal next to a binary64 value: the PrimFloat arithmetic of translate.py / translate_colors.py
                if la:
                    a, ta = TrC.expr(self, e.left)
                else:
                    b, tb = TrC.expr(self, e.right)
            elif VNUM in (ta, tb):
                if ta not in ('Z', VNUM) or tb not in ('Z', VNUM):
                    raise Untranslatable('operator on %r and %r' % (ta, tb))
                op = {ast.Add: 'py_vnum_add', ast.Sub: 'py_vnum_sub', ast.Mult: 'py_vnum_mul'}[type(e.op)]
                return ('(%s %s %s)' % (op, self.coerce(a, ta, VNUM), self.coerce(b, tb, VNUM)), VNUM)
            return TrC.expr(self, ast.BinOp(left=_Done(a, ta), op=e.op, right=_Wrap(e.right, b, tb)))
        if isinstance(e, ast.UnaryOp) and isinstance(e.op, ast.USub) and not isinstance(e.operand, ast.Constant):
            a, ta = self.expr(e.operand)
            if ta == VNUM:
                return ('(py_vnum_sub (PVInt 0) %s)' % a, VNUM)
            return TrC.expr(self, ast.UnaryOp(op=e.op, operand=_Done(a, ta)))
        if self.module_attr(e, 'time', 'timezone'):
            if not isinstance(getattr(importlib.import_module('time'), 'timezone', None), int):
                raise Untranslatable('time.timezone is not an int')
            return ('ext_time_timezone', 'Z')
        if isinstance(e, ast.IfExp):
            snap = (list(self.pending), self.counter, self.effects, self.partial)
            try:
                return TrC.expr(self, e)
            except Untranslatable as ex:
                if 'do not agree' not in str(ex):
                    raise
                self.pending, self.counter, self.effects, self.partial = list(snap[0]), snap[1], snap[2], snap[3]
            c = self.as_bool(e.test)
            (a, ta), ba = self.isolated(lambda: self.expr(e.body))
            (b, tb), bb = self.isolated(lambda: self.expr(e.orelse))
            ty = ('either', ta, tb)
            vtype(ty)
            if ba or bb:
                return self.bind('(if %s then %s else %s)' % (c, self.wrap(ba, '(Ok (inl %s))' % a), self.wrap(bb, '(Ok (inr %s))' % b)), ty)
            return ('(if %s then (inl %s) else (inr %s))' % (c, a, b), ty)
        return TrC.expr(self, e)

    def str_of(self, t, ty):
        if ty == VNUM:
            return '(py_vnum_str ext_q_repr %s)' % t
        if ty == 'otext':
            return '(match %s with Some s_ => s_ | None => %s end)' % (t, cps('None'))
        return TrC.str_of(self, t, ty)

    FMT_D = re.compile(r'^(\+?)0(\d+)d$')

    def joined(self, e):
        """TrW.joined plus the format specifications [+]0<w>d for ints"""
        parts = []
        for v in e.values:
            if isinstance(v, ast.FormattedValue) and v.conversion == -1 and isinstance(v.format_spec, ast.JoinedStr) \
                    and len(v.format_spec.values) == 1 and isinstance(v.format_spec.values[0], ast.Constant) \
                    and isinstance(v.format_spec.values[0].value, str) and self.FMT_D.match(v.format_spec.values[0].value):
                m = self.FMT_D.match(v.format_spec.values[0].value)
                t, ty = self.expr(v.value)
                if ty != 'Z':
                    raise Untranslatable('format specification %s on %r' % (m.group(0), ty))
                parts.append(('(py_fmt_0d %s %s %s)' % ('true' if m.group(1) else 'false', z(int(m.group(2))), t), 'text'))
            else:
                parts.append(TrC.joined(self, ast.JoinedStr(values=[v])))
        parts = [t for t, _ in parts if t != '(@nil Z)']
        if not parts:
            return ('(@nil Z)', 'text')
        return ('(%s)' % ' ++ '.join(parts) if len(parts) > 1 else parts[0], 'text')

    def float_fields(self, fmt, item):
        """the text of fmt.format(*xs) for a tuple xs of binary64 values; item(k) is the (bound) k-th value"""
        parts, auto = [], 0
        for lit, field, spec, conv in string.Formatter().parse(fmt):
            if lit:
                parts.append(cps(lit))
            if field is None:
                continue
            if conv is not None or not (field == '' or field.isdigit()) or spec not in ('', 'f'):
                raise Untranslatable('replacement field {%s!%s:%s}' % (field, conv, spec))
            if field == '':
                if auto is None:
                    raise Untranslatable('automatic and manual field numbering')
                k, auto = auto, auto + 1
            else:
                if auto:
                    raise Untranslatable('automatic and manual field numbering')
                k, auto = int(field), None
            v = item(k)
            parts.append('(py_fmt_pct_f 6 %s)' % v if spec == 'f' else '(ext_float_repr %s)' % v)
        return '(%s)' % ' ++ '.join(parts) if parts else '(@nil Z)'

    def format_star(self, fmt, arg):
        saved = (list(self.pending), self.counter, self.effects, self.partial)
        xs, tx = self.expr(arg)
        if tx == FLOATS:
            return (self.float_fields(fmt, lambda k: self.bind('(nthZ %s %s)' % (xs, z(k)), 'float')[0]), 'text')
        if isinstance(tx, tuple) and tx[0] == 'either' and FLOATS in tx[1:] and tx[1] != tx[2]:
            # only the tuple-of-floats side is in the fragment: the other side is outside the model
            def side():
                return self.float_fields(fmt, lambda k: self.bind('(nthZ fl_ %s)' % z(k), 'float')[0])
            text, binds = self.isolated(side)
            ok = self.wrap(binds, '(Ok %s)' % text)
            self.partial += 1
            if tx[2] == FLOATS:
                term = '(match %s with inl _ => Err py_unmodelled | inr fl_ => %s end)' % (xs, ok)
            else:
                term = '(match %s with inl fl_ => %s | inr _ => Err py_unmodelled end)' % (xs, ok)
            return self.bind(term, 'text')
        self.pending, self.counter, self.effects, self.partial = saved
        return TrC.format_star(self, fmt, arg)

    def format_args(self, fmt, args):
        """'..{0}..{1}..'.format(a, b, ..): positional arguments, fields by index, no format specification"""
        vals = [self.expr(a) for a in args]          # every argument is evaluated, in order
        parts, auto = [], 0
        for lit, field, spec, conv in string.Formatter().parse(fmt):
            if lit:
                parts.append(cps(lit))
            if field is None:
                continue
            if conv is not None or spec != '' or not (field == '' or field.isdigit()):
                raise Untranslatable('replacement field {%s!%s:%s}' % (field, conv, spec))
            if field == '':
                if auto is None:
                    raise Untranslatable('automatic and manual field numbering')
                k, auto = auto, auto + 1
            else:
                if auto:
                    raise Untranslatable('automatic and manual field numbering')
                k, auto = int(field), None
            if k >= len(vals):
                raise Untranslatable('replacement index out of range')       # Python: IndexError, always
            parts.append(self.str_of(vals[k][0], vals[k][1]))
        return ('(%s)' % ' ++ '.join(parts) if parts else '(@nil Z)', 'text')

    def lines_call(self, e):
        """matrix_to_lines(matrix, x, y, incby): the translated generator over Q, its items typed again"""
        d = self.funs['matrix_to_lines']
        kinds = self.vec.get('line_kinds')
        if kinds is None:
            raise Untranslatable('the kinds of the items of matrix_to_lines are not known')
        params = list(d['params'])
        if len(e.args) > len(params) or any(isinstance(a, ast.Starred) for a in e.args):
            raise Untranslatable('call arguments')
        vals = {}
        for (p, _), a in zip(params, e.args):
            vals[p] = self.expr(a)
        for kw in e.keywords:
            if kw.arg is None or kw.arg in vals or kw.arg not in dict(params):
                raise Untranslatable('keyword argument %r' % (kw.arg,))
        for kw in e.keywords:
            vals[kw.arg] = self.expr(kw.value)
        args = []
        for p, t in params:
            if p not in vals:
                if p not in d['defaults']:
                    raise Untranslatable('missing argument ' + p)
                vals[p] = self.expr(d['defaults'][p])
            args.append(self.coerce(vals[p][0], vals[p][1], t))

        def flag(deps):
            out = 'false'
            for p in sorted(deps):
                t, ty = vals[p]
                if ty == 'Z':
                    continue
                if ty != VNUM:
                    raise Untranslatable('argument %s of matrix_to_lines has type %r' % (p, ty))
                out = '(py_vnum_is_float %s)' % t if out == 'false' else '(orb (py_vnum_is_float %s) %s)' % (t, out)
            return out
        (kx1, ky1), (kx2, ky2) = kinds
        if kx1 != kx2 or ky1 != ky2:
            raise Untranslatable('the two points of a line have different kinds')
        term = '(py_lines_tag %s %s (%s %s))' % (flag(kx1), flag(ky1), d['coq'], ' '.join(args))
        return (term, ('lazygen', LINE))

    def call(self, e):
        f = e.func
        if not self.monadic:
            return TrC.call(self, e)
        if isinstance(f, ast.Name) and f.id not in self.env:
            name = f.id
            if name == 'matrix_to_lines' and 'matrix_to_lines' in self.funs \
                    and getattr(self.writers, 'matrix_to_lines', None) is self.mods['utils'].matrix_to_lines:
                return self.lines_call(e)
            if name == 'int' and self.builtin('int') and len(e.args) == 1 and not e.keywords:
                a, ta = self.expr(e.args[0])
                if ta == VNUM:
                    return ('(py_vnum_int %s)' % a, 'Z')
                return TrC.call(self, ast.Call(func=f, args=[_Done(a, ta)], keywords=[]))
            if name == 'next' and self.builtin('next'):
                raise Untranslatable('next() other than `target = next(it)` as a statement')
        if self.module_attr(f, 'time', 'strftime') and len(e.args) == 1 and not e.keywords:
            a, ta = self.expr(e.args[0])
            if ta != 'text':
                raise Untranslatable('strftime of %r' % (ta,))
            return ('(ext_time_strftime %s)' % a, 'text')
        if self.module_attr(f, 'textwrap', 'wrap') and len(e.args) == 2 and not e.keywords:
            a, ta = self.expr(e.args[0])
            n, tn = self.expr(e.args[1])
            if ta != 'text' or tn != 'Z':
                raise Untranslatable('textwrap.wrap(%r, %r)' % (ta, tn))
            return ('(ext_textwrap_wrap %s %s)' % (a, n), ('list', 'text'))
        if self.module_attr(f, 'zlib', 'compress') and len(e.args) == 2 and not e.keywords:
            a, ta = self.expr(e.args[0])
            n, tn = self.expr(e.args[1])
            if ta != 'bytes' or tn != 'Z':
                raise Untranslatable('zlib.compress(%r, %r)' % (ta, tn))
            return ('(ext_zlib_compress %s %s)' % (a, n), 'bytes')
        if isinstance(f, ast.Attribute) and f.attr == 'tell' and isinstance(f.value, ast.Name) \
                and self.env.get(f.value.id) in STREAM_ITEM and not e.args and not e.keywords:
            return ('(py_tell %s)' % self.n(f.value.id), 'Z')
        if isinstance(f, ast.Attribute) and f.attr == 'format' and isinstance(f.value, ast.Constant) \
                and isinstance(f.value.value, str) and not e.keywords and e.args \
                and not any(isinstance(a, ast.Starred) for a in e.args):
            return self.format_args(f.value.value, e.args)
        return TrC.call(self, e)

    def compare_vals(self, a, ta, b, tb, op):
        if VNUM in (ta, tb) and ta in ('Z', VNUM) and tb in ('Z', VNUM) and isinstance(op, (ast.Eq, ast.NotEq)):
            t = '(py_vnum_eqb %s %s)' % (self.coerce(a, ta, VNUM), self.coerce(b, tb, VNUM))
            return t if isinstance(op, ast.Eq) else '(negb %s)' % t
        if ta == 'otext' and tb == 'text' and isinstance(op, (ast.Eq, ast.NotEq)):
            t = '(match %s with Some s_ => py_list_eqb s_ %s | None => false end)' % (a, b)
            return t if isinstance(op, ast.Eq) else '(negb %s)' % t
        return TrC.compare_vals(self, a, ta, b, tb, op)

    def as_bool(self, e):
        t, ty = self.expr(e)
        if ty == 'otext':
            return '(match %s with Some s_ => negb (Z.eqb (lenZ s_) 0) | None => false end)' % t
        if ty == VNUM:
            raise Untranslatable('truthiness of a number that may be a float')
        return TrC.as_bool(self, _Done(t, ty))

    # ---------------------------------------------------------------- nested tuple targets
    def pattern(self, target, ty):
        """Coq pattern for a (nested) tuple target over a record-like tuple type; binds the names in env"""
        if isinstance(target, ast.Name):
            nme = target.id
            if T.is_alias(self.env.get(nme)) or any(T.is_alias(x) and x[1] == nme for x in self.env.values()):
                raise Untranslatable('rebinding of an aliased object ' + nme)
            if nme in self.stable and self.stable[nme] != ty:
                raise Untranslatable('loop variable %s changes its type' % nme)
            self.env[nme] = ty
            self.nonneg.discard(nme)
            return self.n(nme)
        if isinstance(target, ast.Tuple) and isinstance(ty, tuple) and ty[0] == 'tuple' and len(ty) - 1 == len(target.elts):
            return '(%s)' % ', '.join(self.pattern(x, t) for x, t in zip(target.elts, ty[1:]))
        raise Untranslatable('unpacking of %r' % (ty,))

    @staticmethod
    def target_names(target):
        if isinstance(target, ast.Name):
            return [target.id]
        if isinstance(target, ast.Tuple):
            out = []
            for x in target.elts:
                out += TrV.target_names(x)
            return out
        raise Untranslatable('assignment target ' + type(target).__name__)

    def unpack_assign(self, target, value, rest, ctx):
        nested = any(isinstance(x, ast.Tuple) for x in target.elts)
        if isinstance(value, ast.Call) and isinstance(value.func, ast.Name) and value.func.id == 'next' and self.builtin('next') \
                and len(value.args) == 1 and not value.keywords and isinstance(value.args[0], ast.Name):
            return self.next_assign(target, value.args[0].id, rest, ctx)
        if not nested:
            return TrC.unpack_assign(self, target, value, rest, ctx)
        names = self.target_names(target)
        if len(set(names)) != len(names):
            raise Untranslatable('unpacking target')
        t, ty = self.expr(value)
        binds = self.take()
        pat = self.pattern(target, ty)
        return self.wrap(binds, "(let '%s := %s in\n %s)" % (pat, t, self.stmts(rest, ctx)))

    def next_assign(self, target, it, rest, ctx):
        """target = next(it) for a generator variable: the first remaining item; `it` now holds the others (the generator
        runs when it is first consumed; StopIteration is PySemSeg.py_stop_iteration)"""
        ty = self.env.get(it)
        if not is_gen(ty) or it in self.stable or self.depth:
            raise Untranslatable('next() of %r' % (ty,))
        names = self.target_names(target)
        if len(set(names)) != len(names) or it in names:
            raise Untranslatable('unpacking target')
        items, _ = self.consume(self.n(it), ty)
        binds = self.take()
        self.env[it] = ('gen', ty[1])
        self.effects += 1
        pat = self.pattern(target, ty[1])
        return self.wrap(binds, "(do (it_, %s) <- (py_next %s);\n (let '%s := it_ in\n %s))" % (
            self.n(it), items, pat, self.stmts(rest, ctx)))

    def comprehension(self, e):
        if len(e.generators) == 1 and isinstance(e.generators[0].target, ast.Tuple) and not e.generators[0].is_async \
                and not e.generators[0].ifs:
            g = e.generators[0]
            xs, et = self.iterable(g.iter)
            names = self.target_names(g.target)
            if len(set(names)) != len(names) or any(nme in self.env for nme in names):
                raise Untranslatable('comprehension variable shadows a local')
            saved, saved_nn = dict(self.env), set(self.nonneg)
            try:
                pat = self.pattern(g.target, et)
                (el, te), be = self.isolated(lambda: self.expr(e.elt))
            finally:
                self.env, self.nonneg = saved, saved_nn
            if be:
                return ("(map (fun '%s => %s) %s)" % (pat, self.wrap(be, '(Ok %s)' % el), xs), ('reslist', te))
            return ("(map (fun '%s => %s) %s)" % (pat, el, xs), ('list', te))
        return TrC.comprehension(self, e)

    # ---------------------------------------------------------------- statements
    def mutation(self, call, rest, ctx):
        m = self.mutator(call)
        if m is not None and m[1] == 'extend' and len(call.args) == 1 and not call.keywords and is_list(self.env.get(m[0])):
            a, ta = self.expr(call.args[0])
            if is_gen(ta):
                a, ta = self.consume(a, ta)               # extend() consumes the iterator
                if self.env[m[0]][1] == '?':
                    self.env[m[0]] = ta
            call = ast.Call(func=call.func, args=[_Done(a, ta)], keywords=[])
        return TrC.mutation(self, call, rest, ctx)

    def stmts(self, ss, ctx):
        if not ss:
            return ctx.fall()
        s = ss[0]
        if self.pending:
            raise Untranslatable('internal: dangling binds')
        if self.monadic and isinstance(s, ast.Assign) and len(s.targets) == 1 and isinstance(s.targets[0], ast.Name) \
                and isinstance(s.value, ast.Call) and isinstance(s.value.func, ast.Name) and s.value.func.id == 'next':
            raise Untranslatable('next() bound to a plain name')
        return TrC.stmts(self, ss, ctx)

    def local_def(self, s, rest, ctx):
        """TrW.local_def, with nested functions inside nested functions, and with stream procedures: a nested function
        declared with a first parameter of type 'stream' receives the bound `write` method of the stream and only calls
        it; it is translated as the function from the stream (what was written so far) to the stream afterwards."""
        params = self.local_types.get(s.name)
        a = s.args
        if params is None or a.vararg or a.kwarg or a.kwonlyargs or a.posonlyargs or s.decorator_list \
                or [x.arg for x in a.args] != [p for p, _ in params]:
            raise Untranslatable('nested function ' + s.name)
        if s.name in self.env or s.name in self.funs:
            raise Untranslatable('nested function shadows ' + s.name)
        proc = bool(params) and params[0][1] == 'stream'
        if proc:
            mode = self.vec.get('mode')
            if mode is None:
                raise Untranslatable('stream procedure in a function without a stream')
            params = [(params[0][0], STREAMS[mode])] + list(params[1:])
        got = [x.arg for x in a.args]
        if a.defaults:
            raise Untranslatable('default values of the nested function ' + s.name)
        for n in ast.walk(s):
            if isinstance(n, (ast.ClassDef, ast.Yield, ast.YieldFrom, ast.With, ast.Global, ast.Nonlocal, ast.Lambda, ast.Try,
                              ast.While, ast.Import, ast.ImportFrom)):
                raise Untranslatable('statement %s in the nested function %s' % (type(n).__name__, s.name))
        own = set(got) | set(n.id for n in ast.walk(s) if isinstance(n, ast.Name) and isinstance(n.ctx, ast.Store)) \
            | set(n.name for n in ast.walk(s) if isinstance(n, ast.FunctionDef)) \
            | set(x.arg for n in ast.walk(s) if isinstance(n, ast.FunctionDef) for x in n.args.args)
        free = set(n.id for n in ast.walk(s) if isinstance(n, ast.Name) and isinstance(n.ctx, ast.Load)) - own
        later = self.assigned(rest)
        for nme in free:
            if nme in later or (nme not in self.env and any(isinstance(x, ast.Name) and x.id == nme and isinstance(x.ctx, ast.Store)
                                                          for st in rest for x in ast.walk(st))):
                raise Untranslatable('free variable %s of %s is rebound after the definition' % (nme, s.name))
        captured = dict((k, v) for k, v in self.env.items()
                        if not T.is_alias(v) and v != 'none' and not is_gen(v) and v not in STREAM_ITEM
                        and not (isinstance(v, tuple) and v[0] == 'shared')
                        and k not in dict(params) and k not in later)
        body_stmts = list(T.strip_docstrings(ast.parse(ast.unparse(s))).body[0].body)
        if proc:
            wm = params[0][0]
            body_stmts = rewrite_writemeth(body_stmts, wm)

        def run(total):
            sub = self.sub_translator(dict(captured, **dict(params)))

            def ret(t):
                if proc:
                    if t is not None:
                        raise Untranslatable('return of a value from a stream procedure')
                    return 'Ok %s' % sub.n(params[0][0])
                if t is None:
                    raise Untranslatable('return without value')
                return t if total else 'Ok %s' % t

            def fall():
                if not proc:
                    raise Untranslatable('fall-through without return')
                if sub.env.get(params[0][0]) != params[0][1]:
                    raise Untranslatable('the stream parameter changes its type')
                return 'Ok %s' % sub.n(params[0][0])
            return sub, sub.stmts(list(body_stmts), Ctx(ret=ret, fall=fall))
        sub, body = run(False)
        total = sub.effects == 0 and not proc
        if total:
            sub, body = run(True)
        if proc:
            if sub.rt_seen:
                raise Untranslatable('return of a value from a stream procedure')
            rt = params[0][1]
        else:
            tys = set(repr(ty) for _, ty in sub.rt_seen)
            if len(tys) != 1:
                raise Untranslatable('return types of nested function differ')
            rt = sub.rt_seen[0][1]
        self.funs = dict(self.funs)
        self.funs[s.name] = {'coq': self.n(s.name), 'params': list(params), 'defaults': {}, 'ret': rt,
                             'monadic': not total, 'mutates': [params[0][0]] if proc else [], 'partial': sub.partial > 0,
                             'unicode': sub.unicode_ops > 0}
        sig = ' '.join('(%s : %s)' % (self.n(p), vtype(t)) for p, t in params)
        return '(let %s := (fun %s => %s) in\n %s)' % (self.n(s.name), sig, body, self.stmts(rest, ctx))


# ------------------------------------------------------------------ ast rewriting before the translation
def rewrite_writemeth(body, wm):
    """Inside a stream procedure the first parameter `wm` is the bound write method: `wm(e)` as a statement becomes
    `wm.write(e)` on a stream variable of that name; any other use of `wm` is refused."""
    mod = ast.Module(body=list(body), type_ignores=[])
    par = TW.parents_of(mod)
    for n in list(ast.walk(mod)):
        if isinstance(n, ast.Name) and n.id == wm:
            p = par.get(n)
            pp = par.get(p)
            if not (isinstance(n.ctx, ast.Load) and isinstance(p, ast.Call) and p.func is n and isinstance(pp, ast.Expr)
                    and len(p.args) == 1 and not p.keywords and not isinstance(p.args[0], ast.Starred)):
                raise Untranslatable('the write method %s is used otherwise than called as a statement' % wm)
            p.func = ast.Attribute(value=ast.Name(id=wm, ctx=ast.Load()), attr='write', ctx=ast.Load())
        if isinstance(n, ast.FunctionDef):
            raise Untranslatable('function nested in a stream procedure')
    return mod.body


def desugar_with_v(fn, writers):
    """TW.desugar_with, the stream may also be asked for its position: f.tell()"""
    withs = [n for n in ast.walk(fn) if isinstance(n, (ast.With, ast.AsyncWith))]
    if not withs:
        return fn, None, None, None
    w = fn.body[-1]
    if len(withs) != 1 or w is not withs[0] or not isinstance(w, ast.With) or len(w.items) != 1:
        raise Untranslatable('`with` other than one statement at the end of the function')
    it = w.items[0]
    c = it.context_expr
    if not (isinstance(c, ast.Call) and isinstance(c.func, ast.Name) and c.func.id == 'writable' and len(c.args) == 2
            and not c.keywords and isinstance(c.args[0], ast.Name) and isinstance(c.args[1], ast.Constant)
            and c.args[1].value in STREAMS and isinstance(it.optional_vars, ast.Name)):
        raise Untranslatable('context manager other than writable(out, mode) as f')
    if not TW.writable_ok(writers):
        raise Untranslatable('writers.writable changed')
    out, f, mode = c.args[0].id, it.optional_vars.id, c.args[1].value
    if [a.arg for a in fn.args.args].count(out) != 1:
        raise Untranslatable('writable() on something that is not a parameter')
    for n in ast.walk(fn):
        if isinstance(n, ast.Name) and n.id == out and n is not c.args[0]:
            raise Untranslatable('the output parameter is used outside writable()')
        if isinstance(n, ast.Name) and n.id == f and isinstance(n.ctx, ast.Store) and n is not it.optional_vars:
            raise Untranslatable('the stream variable is rebound')
        if isinstance(n, ast.arg) and n.arg == f:
            raise Untranslatable('the stream variable is also a parameter')
        if isinstance(n, ast.Name) and n.id == NEW_STREAM:
            raise Untranslatable('reserved name')
    for n in ast.walk(ast.Module(body=fn.body[:-1], type_ignores=[])):
        if isinstance(n, ast.Name) and n.id == f:
            raise Untranslatable('the stream variable is used before the with statement')
    if contains([st for st in fn.body if not isinstance(st, ast.FunctionDef)], (ast.Return,)):
        raise Untranslatable('return in a function that writes to a stream')
    par = TW.parents_of(w)
    for n in ast.walk(w):
        if isinstance(n, ast.Name) and n.id == f and n is not it.optional_vars:
            p = par.get(n)
            if not (isinstance(p, ast.Attribute) and p.attr in ('write', 'tell') and isinstance(p.ctx, ast.Load)):
                raise Untranslatable('the stream is used otherwise than through write / tell')
            if p.attr == 'tell' and not (isinstance(par.get(p), ast.Call) and par[p].func is p):
                raise Untranslatable('f.tell used as a value')
    new = ast.Assign(targets=[ast.Name(id=f, ctx=ast.Store())],
                     value=ast.Call(func=ast.Name(id=NEW_STREAM, ctx=ast.Load()), args=[ast.Constant(value=mode)], keywords=[]))
    fn.body = fn.body[:-1] + [new] + list(w.body) + [ast.Return(value=ast.Name(id=f, ctx=ast.Load()))]
    return fn, out, f, mode


def desugar_partial(fn, f, writers, procs):
    """g = partial(proc, f.write)  /  g = partial(proc, write) with write = f.write, at the top level of the function body:
    functools.partial(proc, w)(a, ..) is proc(w, a, ..), so the binding is dropped and every statement `g(a, ..)` becomes
    `proc(f, a, ..)` -- a call of the stream procedure on the stream itself.  g may not be used in any other way."""
    aliases = set()
    for st in fn.body:
        if isinstance(st, ast.Assign) and len(st.targets) == 1 and isinstance(st.targets[0], ast.Name) \
                and isinstance(st.value, ast.Attribute) and st.value.attr == 'write' and isinstance(st.value.value, ast.Name) \
                and st.value.value.id == f:
            aliases.add(st.targets[0].id)
    bound = {}
    body = []
    for st in fn.body:
        if isinstance(st, ast.Assign) and len(st.targets) == 1 and isinstance(st.targets[0], ast.Name) \
                and isinstance(st.value, ast.Call) and isinstance(st.value.func, ast.Name) and st.value.func.id == 'partial' \
                and len(st.value.args) == 2 and not st.value.keywords and isinstance(st.value.args[0], ast.Name) \
                and st.value.args[0].id in procs:
            if getattr(writers, 'partial', None) is not functools.partial:
                raise Untranslatable('partial is not functools.partial')
            w = st.value.args[1]
            ok = (isinstance(w, ast.Attribute) and w.attr == 'write' and isinstance(w.value, ast.Name) and w.value.id == f) \
                or (isinstance(w, ast.Name) and w.id in aliases)
            g = st.targets[0].id
            if not ok or g in bound or g in procs or g in aliases or g == f:
                raise Untranslatable('partial(%s, ..) on something other than the write method of the stream' % st.value.args[0].id)
            bound[g] = st.value.args[0].id
            continue
        body.append(st)
    if not bound:
        return fn
    fn.body = body
    # every binding of an alias / g must be the single top-level one
    for n in ast.walk(fn):
        if isinstance(n, ast.Name) and isinstance(n.ctx, (ast.Store, ast.Del)) and (n.id in bound or n.id in procs):
            raise Untranslatable('rebinding of ' + n.id)
        if isinstance(n, ast.arg) and (n.arg in bound):
            raise Untranslatable('rebinding of ' + n.arg)
    for al in aliases:
        stores = [n for n in ast.walk(fn) if isinstance(n, ast.Name) and n.id == al and isinstance(n.ctx, (ast.Store, ast.Del))]
        if len(stores) != 1:
            raise Untranslatable('rebinding of ' + al)
    par = TW.parents_of(fn)
    for n in list(ast.walk(fn)):
        if isinstance(n, ast.Name) and n.id in bound:
            p = par.get(n)
            pp = par.get(p)
            inside = pp
            while inside is not None and not isinstance(inside, (ast.FunctionDef, ast.Lambda)):
                inside = par.get(inside)
            if not (isinstance(p, ast.Call) and p.func is n and isinstance(pp, ast.Expr) and not p.keywords
                    and not any(isinstance(a, ast.Starred) for a in p.args) and inside is fn):
                raise Untranslatable('%s is used otherwise than called as a statement' % n.id)
            p.func = ast.Name(id=bound[n.id], ctx=ast.Load())
            p.args = [ast.Name(id=f, ctx=ast.Load())] + list(p.args)
    # the use of a procedure must come after its binding: the partial statements were after the definitions, and the
    # definitions are nested function definitions at the top of the body (checked by the translation itself: unknown name)
    return fn


def strip_imports(fn, allowed):
    """`import textwrap` at the top level of the body (the standard library module, not rebound): dropped, the calls
    textwrap.f(..) are resolved by TrV.module_attr"""
    body, found = [], []
    for st in fn.body:
        if isinstance(st, ast.Import):
            if len(st.names) == 1 and st.names[0].asname is None and st.names[0].name in allowed:
                found.append(st.names[0].name)
                continue
            raise Untranslatable('import ' + ast.unparse(st))
        body.append(st)
    for n in ast.walk(ast.Module(body=body, type_ignores=[])):
        if isinstance(n, (ast.Import, ast.ImportFrom)):
            raise Untranslatable('import inside a statement')
        if isinstance(n, ast.Name) and n.id in found and not isinstance(n.ctx, ast.Load):
            raise Untranslatable('rebinding of the module ' + n.id)
        if isinstance(n, ast.arg) and n.arg in found:
            raise Untranslatable('rebinding of the module ' + n.arg)
    fn.body = body
    return found


def check_one_shot_v(fn):
    """TW.check_one_shot, where `target = next(it)` as a top-level statement of the function body does not count as the
    consumption of `it` (TrV.next_assign rebinds `it` to the remaining items); it must come before the other use."""
    copy = ast.parse(ast.unparse(ast.fix_missing_locations(fn))).body[0]
    seen_use = set()
    for st in copy.body:
        if isinstance(st, ast.Assign) and isinstance(st.value, ast.Call) and isinstance(st.value.func, ast.Name) \
                and st.value.func.id == 'next' and len(st.value.args) == 1 and isinstance(st.value.args[0], ast.Name):
            it = st.value.args[0].id
            if it in seen_use:
                raise Untranslatable('next(%s) after the iterator was consumed' % it)
            st.value = ast.Constant(value=0)
            continue
        if isinstance(st, ast.Assign) and len(st.targets) == 1 and isinstance(st.targets[0], ast.Name):
            for n in ast.walk(st.value):
                if isinstance(n, ast.Name):
                    seen_use.add(n.id)
            continue
        for n in ast.walk(st):
            if isinstance(n, ast.Name) and isinstance(n.ctx, ast.Load):
                seen_use.add(n.id)
    for n in ast.walk(copy):
        if isinstance(n, ast.Call) and isinstance(n.func, ast.Name) and n.func.id == 'next':
            raise Untranslatable('next() other than `target = next(it)` as a top-level statement')
    TW.check_one_shot(copy)


# ------------------------------------------------------------------ function level
class Group:
    def __init__(self, mods, report, funs, deps=(), vec=None):
        self.mods, self.report, self.funs = mods, report, funs
        self.vec = dict(vec or {})
        self.out = [HEADER_V + ''.join('From SegnoSrc Require Import %s.\n' % d for d in deps)]

    def text(self):
        return '\n'.join(self.out) + '\n'

    def attempt(self, name, fn):
        try:
            self.out.append(fn())
            self.report['functions'][name] = 'ok'
        except Untranslatable as ex:
            self.report['functions'][name] = 'untranslatable: %s' % ex
            self.out.append('(* %s: untranslatable: %s *)' % (name, str(ex).replace('*)', '* )').replace('(*', '( *')))
        except Exception as ex:  # source changed shape in a way we do not understand: fail closed
            self.report['functions'][name] = 'untranslatable: %s: %s' % (type(ex).__name__, ex)
            self.out.append('(* %s: untranslatable (%s) *)' % (name, type(ex).__name__))

    def define(self, tree, name, params, coqname=None, key=None, local_types=None):
        """Translate <module of tree>.<name> for arguments of the declared types (Python is untyped: the bridge theorems
        speak about arguments of these types).  A parameter of type 'out' is the file argument: it has no counterpart."""
        writers = self.mods['writers']
        key = key or name
        coqname = coqname or 'src_' + name

        def go():
            fn = find_top(ast.parse(ast.unparse(find_top(tree, name))), name)     # a private copy
            a = fn.args
            if a.vararg or a.kwarg or a.kwonlyargs or a.posonlyargs or fn.decorator_list:
                raise Untranslatable('signature of ' + name)
            got = [x.arg for x in a.args]
            if got != [p for p, _ in params]:
                raise Untranslatable('parameters changed: %s' % got)
            defaults = dict(zip(got[len(got) - len(a.defaults):], a.defaults))
            for d in defaults.values():
                if not isinstance(d, ast.Constant):
                    raise Untranslatable('non-literal default value')
            T.strip_docstrings(fn)
            imports = strip_imports(fn, ('textwrap',))
            if contains(fn.body, (ast.Yield, ast.YieldFrom, ast.Await, ast.While, ast.Global, ast.Nonlocal, ast.Delete,
                                  ast.NamedExpr, ast.Import, ast.ImportFrom, ast.ClassDef, ast.Try, ast.Lambda)):
                raise Untranslatable('statement outside the fragment')
            for n in ast.walk(fn):
                if isinstance(n, (ast.Subscript, ast.Attribute)) and not isinstance(n.ctx, ast.Load):
                    raise Untranslatable('store into a sequence / attribute')
            fn, out, f, mode = desugar_with_v(fn, writers)
            procs = [k for k, v in (local_types or {}).items() if v and v[0][1] == 'stream']
            if f is not None:
                fn = desugar_partial(fn, f, writers, procs)
            check_one_shot_v(fn)
            cparams = [(p, t) for p, t in params if t != 'out']
            if [p for p, t in params if t == 'out'] != ([out] if out else []):
                raise Untranslatable('the output parameter')
            ptypes = dict(cparams)
            vec = dict(self.vec, mode=mode, stream=f, imports=tuple(imports))

            def run(rt_decl, total=False):
                tr = TrV(self.mods['consts'], env=ptypes, monadic=True, funs=dict(self.funs), mods=self.mods, writers=writers, vec=vec)
                tr.rt_decl = rt_decl
                tr.local_types = dict(local_types or {})
                tr.ever_mutated = set()
                try:
                    tr.inplace = tr.changed_in_place(fn.body)
                except Untranslatable:
                    tr.inplace = None

                def ret(t):
                    if t is None:
                        raise Untranslatable('return without value')
                    return t if total else 'Ok %s' % t
                body = tr.stmts(list(ast.parse(ast.unparse(ast.fix_missing_locations(fn))).body[0].body), Ctx(ret=ret, fall=tr.no_fall))
                return tr, body
            tr, body = run(None)
            if not tr.rt_seen:
                raise Untranslatable('function never returns a value')
            t0, rt = tr.rt_seen[0]
            for t, ty in tr.rt_seen[1:]:
                rt = tr.join(t0, rt, t, ty)
            total = tr.effects == 0 and not out
            tr, body = run(rt, total)
            if total and tr.effects:
                raise Untranslatable('internal: effects in a total function')
            if '?' in repr(rt):
                raise Untranslatable('the item type of the result is not determined')
            used = [(en, et) for en, et, _ in EXTS if re.search(r'\b%s\b' % en, body)]
            sig = ' '.join(['(%s : %s)' % (en, et) for en, et in used] + ['(%s : %s)' % (tr.n(p), vtype(t)) for p, t in cparams])
            self.funs[key] = {'coq': coqname, 'params': list(cparams), 'defaults': defaults, 'ret': rt,
                              'monadic': not total, 'mutates': [], 'partial': tr.partial > 0, 'unicode': tr.unicode_ops > 0,
                              'vec_exts': [en for en, _ in used]}
            self.report.setdefault('parameters', {})[name] = [en for en, _ in used]
            kind = ' (* the stream: what was written to `%s` *)' % out if out else ''
            return 'Definition %s %s : %s :=%s\n %s.\n' % (coqname, sig, vtype(rt) if total else 'res (%s)' % vtype(rt), kind, body)
        return go


def translate_vector(mods, outdir, report):
    writers, utils = mods['writers'], mods['utils']
    tree = ast.parse(inspect.getsource(writers))
    utils_tree = ast.parse(inspect.getsource(utils))
    Z, OZ, Q, OQ, TEXT, COLOR, OCOLOR = 'Z', 'oZ', 'Q', 'oQ', 'text', 'color', 'ocolor'
    SIZE, LL = TW.SIZE, TW.LL
    files = {}

    def read(name):
        try:
            with open(os.path.join(outdir, name)) as f:
                return f.read()
        except OSError:
            return ''
    src_utils, src_iter, src_color = read('SrcUtils.v'), read('SrcUtilsIter.v'), read('SrcColor.v')
    funs = {}

    def ufun(key, *args, **kw):
        try:
            funs[key] = TW.utils_fun(utils_tree, *args, **kw)
        except Untranslatable as ex:
            report['functions']['utils.' + key] = 'unavailable: %s' % ex
    for nm in ('get_border', 'check_valid_scale', 'check_valid_border', 'matrix_to_lines', 'get_symbol_size'):
        if getattr(writers, nm, None) is not getattr(utils, nm, None):
            raise Untranslatable('writers.%s is not utils.%s' % (nm, nm))
    ufun('get_border', src_utils, 'get_border', [('matrix_size', SIZE), ('border', OZ)], Z)
    ufun('get_default_border_size', src_utils, 'get_default_border_size', [('matrix_size', SIZE)], Z)
    ufun('check_valid_scale', src_utils, 'check_valid_scale', [('scale', Q)], 'unit')
    ufun('check_valid_border', src_utils, 'check_valid_border', [('border', OQ)], 'unit')
    ufun('matrix_to_lines', src_iter, 'matrix_to_lines', [('matrix', LL), ('x', Q), ('y', Q), ('incby', Q)],
         ('list', ('list', ('list', Q))), generator=True)
    vec = {}
    try:
        vec['line_kinds'] = kinds_of_lines(find_top(utils_tree, 'matrix_to_lines'), ['x', 'y', 'incby'])
        report['line_kinds'] = [[sorted(k) for k in row] for row in vec['line_kinds']]
    except Untranslatable as ex:
        report['functions']['utils.matrix_to_lines (kinds)'] = 'unavailable: %s' % ex

    # the colour helpers translate_colors.py has translated (SrcColor.v)
    def cfun(name, params, ret, sigret):
        fn = find_top(tree, name)
        a = fn.args
        got = [x.arg for x in a.args]
        if got != [p for p, _ in params] or a.vararg or a.kwarg or a.kwonlyargs or a.defaults or fn.decorator_list:
            report['functions']['writers.' + name] = 'unavailable: parameters changed: %s' % got
            return
        sig = 'Definition src_%s %s : res (%s) :=' % (name, ' '.join('(%s : %s)' % (p, vtype(t)) for p, t in params), sigret)
        if sig not in src_color:
            report['functions']['writers.' + name] = 'unavailable: no translation with the expected signature'
            return
        funs[name] = {'coq': 'src_' + name, 'params': list(params), 'defaults': {}, 'ret': ret, 'monadic': True, 'mutates': [],
                      'partial': True}
    cfun('_color_to_rgb', [('color', COLOR)], CNUMS, 'list (py_cnum)')
    cfun('_color_is_black', [('color', COLOR)], 'bool', 'bool')

    # ---- SrcVecCommon.v
    g = Group(mods, report, funs, deps=('SrcUtils',), vec=vec)
    g.attempt('get_symbol_size (int-or-float scale)',
              g.define(utils_tree, 'get_symbol_size', [('matrix_size', SIZE), ('scale', VNUM), ('border', OZ)],
                       coqname='src_get_symbol_size_v'))
    g.attempt('_valid_width_height_and_border (int-or-float scale)',
              g.define(tree, '_valid_width_height_and_border', [('matrix_size', SIZE), ('scale', VNUM), ('border', OZ)],
                       coqname='src__valid_width_height_and_border_v'))
    files['SrcVecCommon.v'] = g.text()

    FLOAT_FN = [('c', 'cnum')]
    # ---- SrcVecTex.v
    g = Group(mods, report, funs, deps=('SrcUtils', 'SrcUtilsIter', 'SrcVecCommon'), vec=vec)
    g.attempt('write_tex', g.define(tree, 'write_tex', [('matrix', LL), ('matrix_size', SIZE), ('out', 'out'), ('scale', VNUM),
                                                        ('border', OZ), ('dark', 'otext'), ('unit', TEXT), ('url', 'otext')],
                                    local_types={'point': [('x', VNUM), ('y', VNUM)]}))
    files['SrcVecTex.v'] = g.text()

    # ---- SrcVecPdf.v
    g = Group(mods, report, funs, deps=('SrcUtils', 'SrcUtilsIter', 'SrcColor', 'SrcVecCommon'), vec=vec)
    g.attempt('write_pdf', g.define(tree, 'write_pdf', [('matrix', LL), ('matrix_size', SIZE), ('out', 'out'), ('scale', VNUM),
                                                        ('border', OZ), ('dark', COLOR), ('light', OCOLOR), ('compresslevel', Z)],
                                    local_types={'write_string': [('writemeth', 'stream'), ('s', TEXT)],
                                                 'to_pdf_color': [('clr', COLOR)], 'to_float': FLOAT_FN}))
    files['SrcVecPdf.v'] = g.text()

    # ---- SrcVecEps.v
    g = Group(mods, report, funs, deps=('SrcUtils', 'SrcUtilsIter', 'SrcColor', 'SrcVecCommon'), vec=vec)
    g.attempt('write_eps', g.define(tree, 'write_eps', [('matrix', LL), ('matrix_size', SIZE), ('out', 'out'), ('scale', VNUM),
                                                        ('border', OZ), ('dark', COLOR), ('light', OCOLOR)],
                                    local_types={'write_line': [('writemeth', 'stream'), ('content', TEXT)],
                                                 'rgb_to_floats': [('clr', COLOR)], 'to_float': FLOAT_FN}))
    files['SrcVecEps.v'] = g.text()
    return files


VEC_FILES = ('SrcVecCommon.v', 'SrcVecTex.v', 'SrcVecPdf.v', 'SrcVecEps.v')


def main():
    repo, outdir = sys.argv[1], sys.argv[2]
    sys.path.insert(0, repo)
    os.makedirs(outdir, exist_ok=True)
    report = {'functions': {}, 'changed': []}
    files = {}
    try:
        mods = {m: importlib.import_module('segno.' + m) for m in ('consts', 'encoder', 'utils', 'writers')}
        if not os.path.realpath(mods['writers'].__file__).startswith(os.path.realpath(repo)):
            raise RuntimeError('segno imported from %s, not from %s' % (mods['writers'].__file__, repo))
        files = translate_vector(mods, outdir, report)
    except Exception as ex:
        report['functions']['*'] = 'failed: %s: %s' % (type(ex).__name__, ex)
    for name in VEC_FILES:
        text = files.get(name)
        if not isinstance(text, str):
            text = HEADER_V + '(* %s: translation failed *)\n' % name
        if write_if_changed(os.path.join(outdir, name), text):
            report['changed'].append(name)
    print(json.dumps(report, indent=1))


if __name__ == '__main__':
    main()
