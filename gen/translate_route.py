#!/usr/bin/env python3
"""Fail-closed translator for the ROUTING code of /repo/segno -> Gallina
(build/gen/SrcRouteSave.v: writers.save -- which serializer is called and whether its output is gzipped;
 build/gen/SrcRouteSeq.v:  QRCodeSequence.save -- the file name each symbol of a sequence is saved under;
 build/gen/SrcRouteCli.v:  cli.build_config -- which command line values reach the serializer).

Built on gen/translate.py (class Tr), gen/translate_seg.py (TrS) and gen/translate_glue.py (TrG: str as code points,
try / except with plain assignments in the body); nothing of those files or of the existing theories/Base/PySem*.v is
edited.  This file adds, in the subclass TrR and with the support library theories/Base/PySemRoute.v:

* str constants as lists of code points ('ustr'), `a + b`, `a == b`, `s.rfind(sub)`, `s.lower()`, slices `s[a:]` / `s[:b]`,
  `s.format(i, j)` with a RUN-TIME format string and int arguments (pyr_format: `{{`, `}}`, `{k}`, `{k:02d}`; everything else
  is the marker Err pyr_unmodelled -- see PySemRoute.v);
* the `out` argument (type 'outarg': a str, or a stream object with or without a str `name`): `out.name`
  (AttributeError for a str / a nameless stream), str operations on it (AttributeError / TypeError for a stream),
  `isinstance(out, str)`; a local variable declared 'outarg' (`fname`) holds a str as `POStr s`;
* `_VALID_SERIALIZERS[k]` (the function is identified by its key; KeyError), `_EXT_TO_KW_MAPPING.get(k, ())`
  (both tables are dumped into SrcTables.v by gen/translate.py from the imported modules);
* the dict `config` (type 'cfg': str keys, values given by their repr -- the typing of Model/Route.v): `d.pop(k, dflt)` as an
  expression (the dict variable is rebound, like `next(it)` in translate_seg.py) and as a statement, `d.get(k, dflt)`, `d[k]`,
  `d[k] = v`, `del d[k]` (rewritten to the statement `d.pop(k)`), `{k: e for k in d if c}`, iteration over the keys,
  `v is None`, `v in (<str constants>)`, truthiness of a value; constants used as values are written as their CPython repr;
* f-strings over str values and int values with a literal specification (`{m:02d}`: pyr_pad_zero 2 m, a total term);
* `x = lambda a, b: e` for a variable with a declared signature (a local function value, always in the res monad; its free
  variables must be bound exactly once in the function), joined over `if` like any other variable;
* `enumerate(xs, start=k)`;
* calls that leave the translated fragment become PARAMETERS of the generated definition:
    writers.save:  `serializer(matrix, matrix_size, out, **kw)`                                    -> ext_call serializer false
                   `with gzip.open(out, 'wb', compresslevel=kw.pop('compresslevel', 9)) as f:
                        serializer(matrix, matrix_size, f, **kw)`                                  -> ext_call serializer true
                   (both statements are recognised by ast equality with the text above, nothing else may mention
                   matrix / matrix_size / kw);
    QRCodeSequence.save:  `qrcode.save(<name>, kind=kind, **kw)`                                    -> ext_save qrcode <name>
                   (`kind` and `kw` may not be mentioned otherwise).

Typing (Python is untyped; the bridge theorems speak about arguments of these types): see translate_route() below and
DESIGN.md 11.15.

Nothing here decides a property: it regenerates Coq text which coqc checks against Model/Route.v through the bridge theorems
theories/Tie/TieRouteSave.v, TieRouteSeq.v, TieRouteCli.v.

Usage: translate_route.py <repo> <outdir>      (prints a JSON status report on stdout)
"""
import ast
import importlib
import inspect
import json
import os
import sys

sys.path.insert(0, os.path.dirname(os.path.abspath(__file__)))
import translate as T                                                    # noqa: E402
import translate_seg as TS                                               # noqa: E402
import translate_glue as TG                                              # noqa: E402
from translate import Ctx, Untranslatable, write_if_changed, coqtype, contains, is_list, z, lst   # noqa: E402
from translate_seg import _Done                                          # noqa: E402
from translate_glue import TrG                                           # noqa: E402

# ------------------------------------------------------------------ types added to the fragment
# 'outarg': the `out` argument (PySemRoute.py_out); 'pyv': a value given by its repr; 'cfg': dict str -> pyv;
# 'serializer': a serializer function identified by its key; 'qr': an opaque object
T.SCALAR_COQ.update({'ustr': 'list Z', 'outarg': 'py_out', 'pyv': 'list Z', 'cfg': 'py_cfg', 'serializer': 'list Z',
                     'qr': 'py_obj'})
T.COQ_RESERVED.update({'SrcRouteSave', 'SrcRouteSeq', 'SrcRouteCli', 'PySemRoute', 'POStr', 'POStream', 'PFText', 'PFIndex',
                       'PFSpec', 'py_out', 'py_obj', 'py_cfg', 'fst', 'snd', 'map', 'filter', 'app', 'length'})

HEADER_R = ('(* GENERATED by gen/translate_route.py from the current /repo working tree -- do not edit. *)\n'
            'From Coq Require Import ZArith List Bool.\n'
            'Import ListNotations.\n'
            'Open Scope Z_scope.\n'
            'From Segno Require Import Base.PyLite Base.PySem Base.PySemRoute.\n'
            'From SegnoSrc Require SrcTables.\n')

# the two statements of writers.save that leave the fragment (compared by ast equality)
SAVE_PLAIN_EXPECTED = 'serializer(matrix, matrix_size, out, **kw)'
SAVE_GZIP_EXPECTED = ("with gzip.open(out, 'wb', compresslevel=kw.pop('compresslevel', 9)) as f:\n"
                      "    serializer(matrix, matrix_size, f, **kw)")
EXT_CALL = 'ext_call__'          # the name the two statements are rewritten to (not a valid name of the source: checked)


def cps(text):
    return lst(z(ord(c)) for c in text)


def is_const(node, types):
    return isinstance(node, ast.Constant) and isinstance(node.value, types)


class TrR(TrG):
    def __init__(self, *args, **kw):
        TrG.__init__(self, *args, **kw)
        self.module = None            # the module the function lives in (its globals)
        self.fn_node = None           # the function definition (for the binding counts of captured variables)
        self.decl_types = {}          # declared types of local variables (like the parameter types)
        self.lambda_types = {}        # variable -> ([(param, type)], result type) of the lambdas assigned to it
        self.lambda_target = None
        self.passthrough = ()         # parameters that are only passed on to an external call
        self.ext = {}                 # external calls: kind -> Coq name of the parameter

    # ---------------------------------------------------------------- helpers
    def n(self, name):
        if name.startswith(('pyr_', 'PO', 'PF', 'ext_')):
            return name + '_py'
        return TrG.n(self, name)

    def global_of(self, name):
        """The module-level object `name` of the module under translation, if no local shadows it."""
        if name in self.env or name in self.funs or self.module is None or name not in vars(self.module):
            return None
        return vars(self.module)[name]

    def pyv_of(self, node):
        """A value of the dict `config`: a constant is written as its CPython repr, anything else must be such a value."""
        if isinstance(node, ast.Constant) and (node.value is None or isinstance(node.value, (bool, int, str, float))):
            r = repr(node.value)
            if any(ord(c) > 126 or ord(c) < 32 for c in r):
                raise Untranslatable('repr of a constant outside printable ASCII')
            return '%s (* repr %s *)' % (cps(r), r.replace('*)', '* )').replace('(*', '( *'))
        t, ty = self.expr(node)
        if ty != 'pyv':
            raise Untranslatable('a dict value of type %r' % (ty,))
        return t

    def as_ustr(self, node, exn):
        """A str operand: a str as it is; on an 'outarg' the operation raises `exn` for a stream."""
        t, ty = self.expr(node)
        if ty == 'ustr':
            return t
        if ty == 'outarg':
            return self.bind('(pyr_out_str %s %s)' % (exn, t), 'ustr')[0]
        raise Untranslatable('str operation on %r' % (ty,))

    def cfg_name(self, node):
        if isinstance(node, ast.Name) and self.env.get(node.id) == 'cfg':
            return node.id
        return None

    def coerce(self, term, frm, to):
        if frm == 'ustr' and to == 'outarg':
            return '(POStr %s)' % term
        return TrG.coerce(self, term, frm, to)

    # ---------------------------------------------------------------- expressions
    def expr(self, e):
        if isinstance(e, _Done):
            return (e.term, e.ty)
        if not self.monadic:
            return TrG.expr(self, e)
        if is_const(e, str):
            return (cps(e.value), 'ustr')
        if isinstance(e, ast.BinOp) and isinstance(e.op, ast.Add):
            a, ta = self.expr(e.left)
            if ta in ('ustr', 'outarg'):
                # str + str (on a stream object `+` is TypeError)
                if ta == 'outarg':
                    a = self.bind('(pyr_out_str TypeErr %s)' % a, 'ustr')[0]
                b = self.as_ustr(e.right, 'TypeErr')
                return ('(%s ++ %s)' % (a, b), 'ustr')
            return TrG.expr(self, ast.BinOp(left=_Done(a, ta), op=e.op, right=e.right))
        if isinstance(e, ast.Lambda):
            return self.lambda_expr(e)
        if isinstance(e, ast.JoinedStr):
            return self.fstring(e)
        if isinstance(e, ast.DictComp):
            return self.dict_comp(e)
        return TrG.expr(self, e)

    def fstring(self, e):
        """f'..{s}..{i:02d}..': the concatenation of the constant parts and the formatted values.  A str value without
        conversion / specification stands for itself; an int value takes a LITERAL specification of the fragment of
        PySemRoute.pyr_fmt_int_spec (`` / `d`, `0<width>[d]`, `<width>[d]`), decided here, so the result is a total term."""
        import re
        parts = []
        for v in e.values:
            if is_const(v, str):
                if v.value:
                    parts.append(cps(v.value))
                continue
            if not isinstance(v, ast.FormattedValue) or v.conversion != -1:
                raise Untranslatable('f-string part ' + ast.dump(v)[:60])
            spec = ''
            if v.format_spec is not None:
                fs = v.format_spec
                if not (isinstance(fs, ast.JoinedStr) and all(is_const(x, str) for x in fs.values)):
                    raise Untranslatable('computed format specification')
                spec = ''.join(x.value for x in fs.values)
            t, ty = self.expr(v.value)
            if ty == 'ustr' and spec == '':
                parts.append(t)
            elif ty == 'Z' and spec in ('', 'd'):
                parts.append('(pyr_str_int %s)' % t)
            elif ty == 'Z' and re.fullmatch(r'0[0-9]{0,6}d?', spec):
                parts.append('(pyr_pad_zero %s %s)' % (z(int(spec.rstrip('d') or '0')), t))
            elif ty == 'Z' and re.fullmatch(r'[1-9][0-9]{0,5}d?', spec):
                parts.append('(pyr_pad_space %s %s)' % (z(int(spec.rstrip('d'))), t))
            else:
                raise Untranslatable('f-string value of type %r with specification %r' % (ty, spec))
        if not parts:
            return ('(@nil Z)', 'ustr')
        out = parts[-1]
        for p in reversed(parts[:-1]):
            out = '(%s ++ %s)' % (p, out)
        return (out, 'ustr')

    def lambda_expr(self, e):
        name = self.lambda_target
        self.lambda_target = None
        if name is None or name not in self.lambda_types:
            raise Untranslatable('lambda that is not assigned to a variable with a declared signature')
        params, rt = self.lambda_types[name]
        a = e.args
        if a.vararg or a.kwarg or a.kwonlyargs or a.posonlyargs or a.defaults or a.kw_defaults \
                or [x.arg for x in a.args] != [p for p, _ in params]:
            raise Untranslatable('parameters of the lambda assigned to ' + name)
        own = set(p for p, _ in params)
        for x in ast.walk(e.body):
            if isinstance(x, (ast.Lambda, ast.NamedExpr, ast.ListComp, ast.DictComp, ast.SetComp, ast.GeneratorExp)):
                raise Untranslatable('expression nested in a lambda')
            if isinstance(x, ast.Name) and x.id not in own and x.id in self.env:
                # a captured variable is looked up when the function is CALLED: it must have exactly one binding
                stores = [y for y in ast.walk(self.fn_node) if (isinstance(y, ast.Name) and y.id == x.id
                                                                 and isinstance(y.ctx, (ast.Store, ast.Del)))
                          or (isinstance(y, ast.arg) and y.arg == x.id)]
                if len(stores) != 1 or x.id in self.stable:
                    raise Untranslatable('captured variable %s is bound more than once' % x.id)
        saved_env, saved_pending = dict(self.env), self.pending
        self.env.update(dict(params))
        self.pending = []
        try:
            t, ty = self.expr(e.body)
            binds = self.take()
            body = self.wrap(binds, '(Ok %s)' % self.coerce(t, ty, rt))
        finally:
            self.env, self.pending = saved_env, saved_pending
        sig = ' '.join('(%s : %s)' % (self.n(p), coqtype(t)) for p, t in params)
        return ('(fun %s => %s)' % (sig, body), ('func', tuple(t for _, t in params), rt, True))

    def dict_comp(self, e):
        """{k: v for k in d if c} over the keys of a dict of type 'cfg'."""
        if len(e.generators) != 1 or e.generators[0].is_async or not isinstance(e.generators[0].target, ast.Name):
            raise Untranslatable('dict comprehension shape')
        g = e.generators[0]
        src = self.cfg_name(g.iter)
        if src is None:
            raise Untranslatable('dict comprehension over ' + ast.dump(g.iter)[:60])
        x = g.target.id
        if x in self.env:
            raise Untranslatable('comprehension variable %s is also used otherwise' % x)
        saved = dict(self.env)
        self.env[x] = 'ustr'
        try:
            conds = [self.pure(lambda c=c: self.as_bool(c), 'a comprehension condition') for c in g.ifs]
            k, tk = self.pure(lambda: self.expr(e.key), 'the key of a dict comprehension')
            (v, tv), bv = self.isolated(lambda: self.expr(e.value))
        finally:
            self.env = saved
        if tk != 'ustr' or tv != 'pyv':
            raise Untranslatable('dict comprehension of %r: %r' % (tk, tv))
        keys = '(pyr_cfg_keys %s)' % self.n(src)
        if conds:
            c = conds[-1]
            for p in reversed(conds[:-1]):
                c = '(andb %s %s)' % (p, c)
            keys = '(filter (fun %s => %s) %s)' % (self.n(x), c, keys)
        if bv:
            items = self.bind('(py_seq_res (map (fun %s => %s) %s))' % (self.n(x), self.wrap(bv, '(Ok (%s, %s))' % (k, v)), keys),
                              ('list', ('tuple', 'ustr', 'pyv')))[0]
        else:
            items = '(map (fun %s => (%s, %s)) %s)' % (self.n(x), k, v, keys)
        return ('(pyr_cfg_of_items %s)' % items, 'cfg')

    def attribute(self, e):
        if self.monadic and isinstance(e.value, ast.Name) and self.env.get(e.value.id) == 'outarg' and e.attr == 'name':
            return self.bind('(pyr_out_name %s)' % self.n(e.value.id), 'ustr')
        return TrG.attribute(self, e)

    def subscript(self, e):
        if not self.monadic:
            return TrG.subscript(self, e)
        if isinstance(e.value, ast.Name) and e.value.id == '_VALID_SERIALIZERS' and not isinstance(e.slice, ast.Slice):
            d = self.global_of('_VALID_SERIALIZERS')
            if not (isinstance(d, dict) and d and all(isinstance(k, str) and callable(v) for k, v in d.items())
                    and getattr(self.module, '__name__', '') == 'segno.writers'):
                raise Untranslatable('_VALID_SERIALIZERS is not the serializer table of segno.writers')
            k, tk = self.expr(e.slice)
            if tk != 'ustr':
                raise Untranslatable('key of _VALID_SERIALIZERS is %r' % (tk,))
            return self.bind('(pyr_strkey_get %s SrcTables.VALID_SERIALIZERS)' % k, 'serializer')
        c = self.cfg_name(e.value)
        if c is not None and not isinstance(e.slice, ast.Slice):
            k, tk = self.expr(e.slice)
            if tk != 'ustr':
                raise Untranslatable('key of a dict is %r' % (tk,))
            return self.bind('(pyr_cfg_index %s %s)' % (self.n(c), k), 'pyv')
        if isinstance(e.value, ast.Name) and self.env.get(e.value.id) in ('ustr', 'outarg') and isinstance(e.slice, ast.Slice):
            if e.slice.step is not None:
                raise Untranslatable('slice with a step')
            lo = hi = None
            if e.slice.lower is not None:
                lo, tl = self.expr(e.slice.lower)
                if tl != 'Z':
                    raise Untranslatable('slice bound is not an int')
            if e.slice.upper is not None:
                hi, th = self.expr(e.slice.upper)
                if th != 'Z':
                    raise Untranslatable('slice bound is not an int')
            # the object is subscripted after the bounds are evaluated (TypeError for a stream object)
            a = self.as_ustr(e.value, 'TypeErr')
            if lo is None and hi is None:
                return (a, 'ustr')
            if hi is None:
                return ('(py_slice_from %s %s)' % (a, lo), 'ustr')
            return ('(py_slice %s %s %s)' % (a, lo or '0', hi), 'ustr')
        return TrG.subscript(self, e)

    def call(self, e):
        f = e.func
        if not self.monadic:
            return TrG.call(self, e)
        if isinstance(f, ast.Name) and f.id == 'isinstance' and self.builtin('isinstance') and len(e.args) == 2 \
                and not e.keywords and isinstance(e.args[0], ast.Name) and self.env.get(e.args[0].id) == 'outarg' \
                and isinstance(e.args[1], ast.Name) and e.args[1].id == 'str' and self.builtin('str'):
            return ('(pyr_out_is_str %s)' % self.n(e.args[0].id), 'bool')
        if isinstance(f, ast.Attribute) and not e.keywords:
            c = self.cfg_name(f.value)
            if c is not None and f.attr == 'get' and len(e.args) == 2:
                k, tk = self.expr(e.args[0])
                if tk != 'ustr':
                    raise Untranslatable('key of a dict is %r' % (tk,))
                return ('(pyr_cfg_get_default %s %s %s)' % (self.n(c), k, self.pyv_of(e.args[1])), 'pyv')
            if c is not None and f.attr == 'pop' and len(e.args) == 2:
                if self.iso_depth:
                    raise Untranslatable('dict.pop in an operand that is evaluated conditionally')
                k, tk = self.expr(e.args[0])
                if tk != 'ustr':
                    raise Untranslatable('key of a dict is %r' % (tk,))
                d = self.pyv_of(e.args[1])
                v = self.fresh()
                self.pending.append(('(%s, %s)' % (v, self.n(c)), '(Ok (pyr_cfg_pop %s %s %s))' % (self.n(c), k, d)))
                self.effects += 1
                return (v, 'pyv')          # the value; the dict variable now holds the dict without the key
            if c is not None:
                raise Untranslatable('dict method ' + f.attr)
            if isinstance(f.value, ast.Name) and f.value.id == '_EXT_TO_KW_MAPPING' and f.attr == 'get' and len(e.args) == 2:
                d = self.global_of('_EXT_TO_KW_MAPPING')
                if not (isinstance(d, dict) and d and getattr(self.module, '__name__', '') == 'segno.cli'
                        and all(isinstance(k, str) and isinstance(v, (frozenset, set, tuple))
                                and all(isinstance(x, str) for x in v) for k, v in d.items())):
                    raise Untranslatable('_EXT_TO_KW_MAPPING is not the keyword table of segno.cli')
                if not (isinstance(e.args[1], ast.Tuple) and not e.args[1].elts):
                    raise Untranslatable('default of _EXT_TO_KW_MAPPING.get')
                k, tk = self.expr(e.args[0])
                if tk != 'ustr':
                    raise Untranslatable('key of _EXT_TO_KW_MAPPING is %r' % (tk,))
                return ('(pyr_strdict_get_default SrcTables.EXT_TO_KW %s [])' % k, ('list', 'ustr'))
            if f.attr in ('rfind', 'lower', 'format'):
                # the attribute is looked up first (AttributeError on a stream object), then the arguments are evaluated
                (_, tv), _ = self.isolated(lambda: self.expr(f.value))
                if tv in ('ustr', 'outarg'):
                    a = self.as_ustr(f.value, 'AttributeErr')
                    if f.attr == 'lower' and not e.args:
                        return ('(pyr_lower %s)' % a, 'ustr')
                    if f.attr == 'rfind' and len(e.args) == 1:
                        sub, ts = self.expr(e.args[0])
                        if ts != 'ustr':
                            raise Untranslatable('rfind of %r' % (ts,))
                        return ('(pyr_rfind %s %s)' % (a, sub), 'Z')
                    if f.attr == 'format' and e.args and not any(isinstance(x, ast.Starred) for x in e.args):
                        items = [self.expr(x) for x in e.args]
                        if any(t != 'Z' for _, t in items):
                            raise Untranslatable('format of non-int arguments')
                        self.partial += 1          # format strings outside the fragment: Err pyr_unmodelled
                        return self.bind('(pyr_format %s %s)' % (a, lst(t for t, _ in items)), 'ustr')
                    raise Untranslatable('call of str.%s' % f.attr)
        return TrG.call(self, e)

    def iterable(self, e):
        if isinstance(e, ast.Call) and isinstance(e.func, ast.Name) and e.func.id == 'enumerate' and self.builtin('enumerate') \
                and len(e.args) == 1 and len(e.keywords) == 1 and e.keywords[0].arg == 'start':
            t, ty = self.expr(e.args[0])
            k, tk = self.expr(e.keywords[0].value)
            if not is_list(ty) or tk != 'Z':
                raise Untranslatable('enumerate of %r from %r' % (ty, tk))
            return ('(pyr_enumerate_start %s %s)' % (k, t), ('tuple', 'Z', ty[1]))
        c = self.cfg_name(e)
        if c is not None:
            return ('(pyr_cfg_keys %s)' % self.n(c), 'ustr')
        return TrG.iterable(self, e)

    def compare(self, l, op, r):
        if not self.monadic:
            return TrG.compare(self, l, op, r)
        if isinstance(op, (ast.Is, ast.IsNot)) and is_const(r, type(None)):
            a, ta = self.expr(l)
            if ta == 'pyv':
                t = '(pyr_repr_is_none %s)' % a
                return t if isinstance(op, ast.Is) else '(negb %s)' % t
            return TrG.compare(self, _Done(a, ta), op, r)
        if isinstance(op, (ast.In, ast.NotIn)):
            a, ta = self.expr(l)
            if ta == 'pyv' and isinstance(r, ast.Tuple) and r.elts and all(is_const(x, str) for x in r.elts):
                # v in ('a', 'b'): v == 'a' or v == 'b', on values given by their repr
                out = 'false'
                for x in reversed(r.elts):
                    out = '(orb (pyr_str_eqb %s %s) %s)' % (a, self.pyv_of(x), out)
                return out if isinstance(op, ast.In) else '(negb %s)' % out
            if ta == 'ustr' and not isinstance(r, ast.Tuple):
                c, tc = self.expr(r)
                if tc == ('list', 'ustr'):
                    out = '(pyr_str_in %s %s)' % (a, c)
                    return out if isinstance(op, ast.In) else '(negb %s)' % out
                return TrG.compare(self, _Done(a, ta), op, _Done(c, tc))
            return TrG.compare(self, _Done(a, ta), op, r)
        return TrG.compare(self, l, op, r)

    def compare_vals(self, a, ta, b, tb, op):
        if ta == 'ustr' and tb == 'ustr' and isinstance(op, (ast.Eq, ast.NotEq)):
            t = '(pyr_str_eqb %s %s)' % (a, b)
            return t if isinstance(op, ast.Eq) else '(negb %s)' % t
        return TrG.compare_vals(self, a, ta, b, tb, op)

    def as_bool(self, e):
        t, ty = self.expr(e)
        if ty == 'pyv':
            return '(pyr_repr_truthy %s)' % t
        return TrG.as_bool(self, _Done(t, ty))

    # ---------------------------------------------------------------- statements
    def mutator(self, call):
        f = call.func
        if isinstance(f, ast.Attribute) and self.cfg_name(f.value) is not None:
            if f.attr in ('get', 'keys', 'values', 'items', 'copy'):
                return None
            return f.value.id, f.attr          # any other method may change the dict
        return TrG.mutator(self, call)

    def mutation(self, call, rest, ctx):
        f = call.func
        # the two statements of writers.save that call the chosen serializer (rewritten by rewrite_save_tail)
        if isinstance(f, ast.Name) and f.id == EXT_CALL and 'call' in self.ext:
            s, ts = self.expr(call.args[0])
            g, tg = self.expr(call.args[1])
            if ts != 'serializer' or tg != 'bool':
                raise Untranslatable('call of a value of type %r' % (ts,))
            binds = self.take()
            self.effects += 1
            return self.wrap(binds, '(do _ <- (%s %s %s);\n %s)' % (self.ext['call'], s, g, self.stmts(rest, ctx)))
        # qrcode.save(<name>, kind=kind, **kw)
        if isinstance(f, ast.Attribute) and f.attr == 'save' and isinstance(f.value, ast.Name) \
                and self.env.get(f.value.id) == 'qr' and 'save' in self.ext:
            want = [(p, p) for p in self.passthrough[:-1]] + [(None, self.passthrough[-1])]
            got = [(kw.arg, kw.value.id if isinstance(kw.value, ast.Name) else '?') for kw in call.keywords]
            if len(call.args) != 1 or isinstance(call.args[0], ast.Starred) or got != want:
                raise Untranslatable('arguments of ' + ast.unparse(call)[:80])
            a, ta = self.expr(call.args[0])
            a = self.coerce(a, ta, 'outarg')
            binds = self.take()
            self.effects += 1
            return self.wrap(binds, '(do _ <- (%s %s %s);\n %s)' % (self.ext['save'], self.n(f.value.id), a, self.stmts(rest, ctx)))
        c = self.cfg_name(f.value) if isinstance(f, ast.Attribute) else None
        if c is not None and f.attr == 'pop' and not call.keywords and len(call.args) in (1, 2):
            k, tk = self.expr(call.args[0])
            if tk != 'ustr':
                raise Untranslatable('key of a dict is %r' % (tk,))
            o = self.n(c)
            if len(call.args) == 2:
                d = self.pyv_of(call.args[1])
                binds = self.take()
                return self.wrap(binds, '(let %s := (snd (pyr_cfg_pop %s %s %s)) in\n %s)' % (o, o, k, d, self.stmts(rest, ctx)))
            binds = self.take()
            self.effects += 1           # d.pop(k) / del d[k]: KeyError
            return self.wrap(binds, '(do %s <- (pyr_cfg_del %s %s);\n %s)' % (o, o, k, self.stmts(rest, ctx)))
        if c is not None:
            raise Untranslatable('dict method ' + f.attr)
        return TrG.mutation(self, call, rest, ctx)

    def stmts(self, ss, ctx):
        if not ss:
            return ctx.fall()
        s, rest = ss[0], ss[1:]
        if not self.monadic or self.pending:
            return TrG.stmts(self, ss, ctx)
        if isinstance(s, ast.Assign) and len(s.targets) == 1 and isinstance(s.targets[0], ast.Name) \
                and not isinstance(s.value, _Done):
            name = s.targets[0].id
            if isinstance(s.value, ast.Lambda):
                if name in self.stable and self.stable[name] != self.env.get(name):
                    raise Untranslatable('function variable %s in a loop' % name)
                self.lambda_target = name
                t, ty = self.expr(s.value)
                if name in self.env and self.env[name] != ty:
                    raise Untranslatable('variable %s holds functions of different types' % name)
                return TrG.stmts(self, [ast.Assign(targets=s.targets, value=_Done(t, ty))] + rest, ctx)
            if name in self.decl_types:
                # a variable with a declared type: the value is stored at that type (a str in an 'outarg' variable is POStr s)
                t, ty = self.expr(s.value)
                binds = self.take()
                s2 = ast.Assign(targets=s.targets, value=_Done(self.coerce(t, ty, self.decl_types[name]), self.decl_types[name]))
                if id(s) in self.stmt_marks:
                    self.stmt_marks[id(s2)] = self.stmt_marks.pop(id(s))
                return self.wrap(binds, TrG.stmts(self, [s2] + rest, ctx))
        if isinstance(s, ast.Assign) and len(s.targets) == 1 and isinstance(s.targets[0], ast.Subscript) \
                and self.cfg_name(s.targets[0].value) is not None and not isinstance(s.targets[0].slice, ast.Slice):
            # d[k] = v : the value is evaluated first, then the key
            c = self.cfg_name(s.targets[0].value)
            v = self.pyv_of(s.value)
            k, tk = self.expr(s.targets[0].slice)
            if tk != 'ustr':
                raise Untranslatable('key of a dict is %r' % (tk,))
            binds = self.take()
            o = self.n(c)      # evaluated after the binds: a pop inside the value has already rebound the dict variable
            return self.wrap(binds, '(let %s := (pyr_cfg_set %s %s %s) in\n %s)' % (o, o, k, v, self.stmts(rest, ctx)))
        return TrG.stmts(self, ss, ctx)


# ------------------------------------------------------------------ ast rewrites (checked, fail closed)
def rewrite_save_tail(fn, module):
    """The two statements of writers.save that call the serializer -> ext_call__(serializer, <gzip?>)."""
    import gzip
    for n in ast.walk(fn):
        if isinstance(n, ast.Name) and n.id == EXT_CALL:
            raise Untranslatable('name ' + EXT_CALL)
    plain = ast.dump(ast.parse(SAVE_PLAIN_EXPECTED).body[0])
    gz = ast.dump(ast.parse(SAVE_GZIP_EXPECTED).body[0])
    hits = {'plain': 0, 'gzip': 0}

    def repl(flag):
        return ast.Expr(value=ast.Call(func=ast.Name(id=EXT_CALL, ctx=ast.Load()),
                                       args=[ast.Name(id='serializer', ctx=ast.Load()), ast.Constant(value=flag)], keywords=[]))

    class R(ast.NodeTransformer):
        def visit_With(self, node):
            if ast.dump(node) == gz:
                if getattr(module, 'gzip', None) is not gzip:
                    raise Untranslatable('writers.gzip is not the gzip module')
                hits['gzip'] += 1
                return repl(True)
            raise Untranslatable('with statement other than the gzip wrapper of save')

        def visit_Expr(self, node):
            if ast.dump(node) == plain:
                hits['plain'] += 1
                return repl(False)
            return self.generic_visit(node)
    R().visit(fn)
    if hits != {'plain': 1, 'gzip': 1}:
        raise Untranslatable('the serializer is not called exactly once directly and once through gzip: %r' % (hits,))
    return ast.fix_missing_locations(fn)


def rewrite_del(fn):
    """del d[k] -> the statement d.pop(k) (both remove the key, both raise KeyError when it is missing)."""
    class R(ast.NodeTransformer):
        def visit_Delete(self, node):
            out = []
            for t in node.targets:
                if not (isinstance(t, ast.Subscript) and isinstance(t.value, ast.Name) and not isinstance(t.slice, ast.Slice)):
                    raise Untranslatable('del ' + ast.dump(t)[:60])
                out.append(ast.Expr(value=ast.Call(
                    func=ast.Attribute(value=ast.Name(id=t.value.id, ctx=ast.Load()), attr='pop', ctx=ast.Load()),
                    args=[t.slice], keywords=[])))
            return out

    def block(stmts):
        res = []
        for st in stmts:
            r = R().visit(st)
            res.extend(r if isinstance(r, list) else [r])
        return res
    for n in ast.walk(fn):
        for fld in ('body', 'orelse', 'finalbody'):
            if isinstance(getattr(n, fld, None), list) and n is not fn:
                setattr(n, fld, block(getattr(n, fld)))
    fn.body = block(fn.body)
    return ast.fix_missing_locations(fn)


# ------------------------------------------------------------------ function level
class Group(TS.Group):
    def __init__(self, mods, report, deps=()):
        self.mods, self.report = mods, report
        self.out = [HEADER_R + ''.join('From SegnoSrc Require Import %s.\n' % d for d in deps)]

    def define(self, modname, qualname, params, drop=(), kwarg=None, externals=(), decl_types=None, lambda_types=None,
               passthrough=(), rewrite=None, coqname=None, check=None):
        """Translate <module>.<qualname> for arguments of the declared types.
        params: every positional parameter with its type, in order; the parameters in `drop` (and **kwarg) have no counterpart
        in the Coq definition: the translated code may not mention them outside the recognised external calls.
        externals: [(kind, Coq name, Coq type)] -- leading parameters of the definition."""
        def go():
            module = self.mods[modname]
            tree = ast.parse(inspect.getsource(module))
            fn = ast.parse(ast.unparse(T.find_qualified(tree, qualname))).body[0]        # a private copy
            a = fn.args
            if a.vararg or a.kwonlyargs or a.posonlyargs or fn.decorator_list or (a.kwarg.arg if a.kwarg else None) != kwarg:
                raise Untranslatable('signature of ' + qualname)
            got = [x.arg for x in a.args]
            if got != [p for p, _ in params]:
                raise Untranslatable('parameters changed: %s' % got)
            defaults = dict(zip(got[len(got) - len(a.defaults):], a.defaults))
            for d in defaults.values():
                if not isinstance(d, ast.Constant):
                    raise Untranslatable('non-literal default value')
            if check:
                check(module)
            T.strip_docstrings(fn)
            if rewrite:
                rewrite(fn, module)
            if contains(fn.body, (ast.Yield, ast.YieldFrom, ast.Await, ast.While, ast.With, ast.Global, ast.Nonlocal, ast.Delete,
                                  ast.NamedExpr, ast.Import, ast.ImportFrom, ast.ClassDef, ast.FunctionDef)):
                raise Untranslatable('statement outside the fragment')
            ptypes = dict((p, t) for p, t in params if p not in drop)
            mods = {'consts': self.mods['consts'], 'encoder': module}     # `builtin()` / `exn_of()` look at this module's globals

            def run(rt_decl):
                tr = TrR(self.mods['consts'], env=ptypes, monadic=True, funs={}, mods=mods)
                tr.module, tr.fn_node = module, fn
                tr.decl_types = dict(decl_types or {})
                tr.lambda_types = dict(lambda_types or {})
                tr.passthrough = tuple(passthrough)
                tr.ext = dict((kind, name) for kind, name, _ in externals)
                tr.rt_decl = rt_decl
                tr.inplace = None
                try:
                    tr.ever_mutated = tr.assigned(fn.body)
                except Untranslatable:
                    tr.ever_mutated = None

                def ret(t):
                    return 'Ok tt' if t is None else 'Ok %s' % t
                body = tr.stmts(list(fn.body), Ctx(ret=ret, fall=lambda: 'Ok tt'))
                return tr, body
            tr, body = run(None)
            if tr.rt_seen:
                t0, rt = tr.rt_seen[0]
                for t, ty in tr.rt_seen[1:]:
                    rt = tr.join(t0, rt, t, ty)
                # a function that returns a value on some paths and falls off its end on others is outside the fragment
                if not always_returns(fn.body):
                    raise Untranslatable('function returns a value on some paths only')
                tr, body = run(rt)
            else:
                rt = 'unit'
            if tr.uses_fuel:
                raise Untranslatable('loop that needs fuel')
            name = coqname or ('src_' + qualname.replace('.', '_').replace('__', ''))
            sig = ' '.join(['(%s : %s)' % (en, et) for _, en, et in externals]
                           + ['(%s : %s)' % (tr.n(p), coqtype(t)) for p, t in params if p not in drop])
            return 'Definition %s %s : res (%s) :=\n %s.\n' % (name, sig, coqtype(rt), body)
        return go


def always_returns(stmts):
    if not stmts:
        return False
    last = stmts[-1]
    if isinstance(last, (ast.Return, ast.Raise)):
        return True
    if isinstance(last, ast.If):
        return always_returns(last.body) and always_returns(last.orelse)
    return False


def translate_route(mods, report):
    files = {}
    OSTR = ('opt', 'ustr')

    # ---- SrcRouteSave.v: writers.save(matrix, matrix_size, out, kind=None, **kw)
    g = Group(mods, report)
    g.attempt('writers.save',
              g.define('writers', 'save', [('matrix', None), ('matrix_size', None), ('out', 'outarg'), ('kind', OSTR)],
                       drop=('matrix', 'matrix_size'), kwarg='kw', rewrite=rewrite_save_tail,
                       externals=[('call', 'ext_call', 'list Z -> bool -> res unit')], decl_types={'fname': 'outarg'}))
    files['SrcRouteSave.v'] = g.text()

    # ---- SrcRouteSeq.v: QRCodeSequence.save(self, out, kind=None, **kw)
    def seq_class_ok(module):
        cls = getattr(module, 'QRCodeSequence', None)
        if not (isinstance(cls, type) and issubclass(cls, tuple) and cls.__bases__ == (tuple,)
                and not any(k in vars(cls) for k in ('__len__', '__iter__', '__getitem__', '__getattribute__'))):
            raise Untranslatable('QRCodeSequence is not a plain tuple subclass')
    g = Group(mods, report)
    g.attempt('QRCodeSequence.save',
              g.define('segno', 'QRCodeSequence.save', [('self', ('list', 'qr')), ('out', 'outarg'), ('kind', None)],
                       drop=('kind',), kwarg='kw', passthrough=('kind', 'kw'), check=seq_class_ok,
                       externals=[('save', 'ext_save', 'py_obj -> py_out -> res unit')], decl_types={'out': 'outarg'},
                       lambda_types={'filename': ([('o', 'outarg'), ('n', 'Z')], 'outarg')}))
    files['SrcRouteSeq.v'] = g.text()

    # ---- SrcRouteCli.v: cli.build_config(config, filename=None)
    g = Group(mods, report)
    g.attempt('cli.build_config',
              g.define('cli', 'build_config', [('config', 'cfg'), ('filename', OSTR)], rewrite=lambda fn, module: rewrite_del(fn)))
    files['SrcRouteCli.v'] = g.text()
    return files


ROUTE_FILES = ('SrcRouteSave.v', 'SrcRouteSeq.v', 'SrcRouteCli.v')


def main():
    repo, outdir = sys.argv[1], sys.argv[2]
    sys.path.insert(0, repo)
    os.makedirs(outdir, exist_ok=True)
    report = {'functions': {}, 'changed': []}
    files = {}
    try:
        mods = {'segno': importlib.import_module('segno')}
        for m in ('consts', 'writers', 'cli'):
            mods[m] = importlib.import_module('segno.' + m)
        for m in mods.values():
            if not os.path.realpath(m.__file__).startswith(os.path.realpath(repo)):
                raise RuntimeError('segno imported from %s, not from %s' % (m.__file__, repo))
        files = translate_route(mods, report)
    except Exception as ex:
        report['functions']['*'] = 'failed: %s: %s' % (type(ex).__name__, ex)
    for name in ROUTE_FILES:
        text = files.get(name)
        if not isinstance(text, str):
            text = HEADER_R + '(* %s: translation failed *)\n' % name
        if write_if_changed(os.path.join(outdir, name), text):
            report['changed'].append(name)
    print(json.dumps(report, indent=1))


if __name__ == '__main__':
    main()
