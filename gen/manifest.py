#!/usr/bin/env python3
"""Writes MANIFEST.json from the table below (kept as code so that it stays consistent)."""
import json, os
HERE = os.path.dirname(os.path.dirname(os.path.abspath(__file__)))
NOTE = ('Trusted: Coq 8.16.1 kernel + vm_compute (no native_compute); no axioms declared (Print Assumptions recorded in evidence); '
        'gen/translate.py and CPython import of /repo; Base/PyLite.v; extraction via ExtrOcamlBasic only + ocaml/driver.ml; '
        'hand-written model parts are tied to /repo by differential correspondence (sampled, not proved); frozen ISO tables Ref/IsoData.v.')
CHECKS = {
 'C01': dict(text='Theorems (unbounded content): bit packing of all five modes is inverted by the reference decoder readers; segment headers, terminator and ISO padding parse back to exactly the encoded segments (QR and Micro, with ECI / Structured Append headers); codeword conversion, block split and interleaving are inverted by de-interleaving; placement + masking are inverted by the ISO zig-zag reading for all 44 versions (per-version facts by kernel computation); end-to-end composition in Lemmas/RoundTrip.v. Tie: frozen tables = current source tables (re-checked), hand model vs implementation by differential correspondence; every implementation symbol of the run is decoded by the extracted reference decoder and compared with the content bytes under the documented codec policy.',
             ref='DESIGN.md 6 C01', technique='Coq proof (induction over content, finite per-version kernel checks) + extracted reference decoder on implementation symbols + model/implementation correspondence'),
 'C02': dict(text='Theorem encode_core_c02: for ARBITRARY data, every model symbol is a square of the ISO size whose function patterns equal the ISO geometry (Annex E by formula), both format copies are BCH(15,5)(level, mask) xor constant, both version copies Golay(18,6)(v) (generic last-write-wins lemmas + kernel computation over 44 versions / 1312 triples). Tables FORMAT_INFO / VERSION_INFO / ALIGNMENT_POS proved equal to BCH / Golay / Annex-E formula. Exhaustive correspondence over all 1312 (version, level, mask) triples with the extracted oracle on implementation matrices and QRCode metadata.',
             ref='DESIGN.md 6 C02', technique='Coq proof + kernel computation over all versions; exhaustive correspondence on 1312 triples'),
 'C03': dict(text='GF(256) derived from the tables (alpha = 2, 0x11D; field laws proved), 18 generator polynomials have roots alpha^0..alpha^(ec-1); the in-place synthetic division of the model equals the LFSR remainder and yields zero syndromes for data of ANY length; interleave/de-interleave round trip for any block list; Table 9 facts (168 layouts); read_blocks_of_final_message: the decoder recovers blocks that are valid RS codewords with the Table 9 shapes; minimum distance >= ec+1 and unique decoding within floor(ec/2) errors. Extracted syndrome/layout oracle on implementation symbols of all 168 layouts.',
             ref='DESIGN.md 6 C03', technique='Coq proof (algebra + induction) + extracted syndrome oracle on implementation symbols'),
 'C04': dict(text='find_version_spec: the model version search equals first-fit over the admissible order with ISO capacities and the bit-length formula (incl. ECI, Hanzi subset, SA header) for arbitrary segment lists; overflow iff nothing admissible fits; Micro/QR admissibility. Both sides of every capacity boundary are run on the implementation and judged by the extracted first-fit specification; payload completeness by the reference decoder.',
             ref='DESIGN.md 6 C04', technique='Coq proof + boundary-directed correspondence with extracted spec oracle'),
 'C05': dict(text='boost_spec: boosted level = highest fitting level of the version, never lower than the request, never H in Micro / Q below M4; boosting cannot change the version (encode_boost_keeps_version); capacity strictly decreases with the level for all versions (kernel computation). Threshold-directed correspondence with the extracted boost specification.',
             ref='DESIGN.md 6 C05', technique='Coq proof + threshold-directed correspondence'),
 'C06': dict(text='Mask predicates translated from the current source equal ISO Table 10 on all positions (kernel sweep) and for unbounded i, j in the model; model scorer = independent ISO 7.8.3 scorer N1..N4 for matrices of any size (n3: all overlapping occurrences); find_and_apply_best_mask_is_iso: first minimum (QR) / first maximum (Micro) of the ISO scores. Oracle: all candidates recomputed from the implementation matrix and scored with the extracted ISO scorer; adversarial matrices for the scorer.',
             ref='DESIGN.md 6 C06', technique='Coq proof + translated-source bridge + extracted ISO scorer on implementation output'),
 'C07': dict(text='find_mode_is_spec for byte strings of any length; requested mode honoured iff representable, refusal is always ValueError; exhaustive find_mode correspondence on all 65 792 one- and two-byte inputs; modes read back from implementation symbols by the reference decoder.',
             ref='DESIGN.md 6 C07', technique='Coq proof + exhaustive small-scope correspondence'),
 'C08': dict(text='Chunk partition, header positions/total/parity (= XOR of the message bytes in the encoding used), symbol counts 1..16, never Micro, symbol_count=k gives k symbols, version=v gives version v, for all inputs; fit of every chunk proved EXCEPT the known finding D14 (refuted with a kernel-evaluated witness, partial theorem for non-overflowing chunkings). Every implementation symbol is decoded and the sequence reassembled by the harness.',
             ref='DESIGN.md 6 C08', technique='Coq proof (+ refutation witness for the known finding) + decoding of implementation sequences'),
 'C11': dict(text='Kernel-checked finite theorem: the module classifier translated from the current utils.get_bit equals an ISO-derived classifier at every position of all 44 sizes for every admissible module value, except exactly the listed known finding (8,size-9); quiet-zone lemma for unbounded borders; iter_rows / iter_verbose_rows = pixel grid for unbounded scale/border. Exhaustive correspondence of matrix_iter_verbose on real symbols of all 44 sizes against the extracted classifier.',
             ref='DESIGN.md 6 C11', technique='Coq proof (vm_compute sweep over translated source + lifting lemma) + exhaustive correspondence'),
 'C12': dict(text='Routing logic (extension/kind resolution, svgz, sequence file names, CLI keyword filter) modelled over tables dumped from the current source; all routes of every kind compared byte-for-byte on the implementation (path, upper-case extension, stream+kind, data URIs, svg_inline, svgz, CLI, terminal, sequences). PARTIAL: file/stream I/O and argparse are not modelled.',
             ref='DESIGN.md 6 C12', technique='Coq tables/model for routing + exhaustive route comparison on the implementation'),
 'C13': dict(text='pad_model_is_iso_kf: for every version, capacity and segment stream of ANY length the model padding equals ISO 7.4.9/7.4.10 padding except exactly the known finding D1 (characterised: one extra 00000000 codeword; proved to differ whenever the predicate holds). Oracle: data codewords recovered from implementation matrices vs iso_pad for every residue mod 8 and distance to capacity.',
             ref='DESIGN.md 6 C13', technique='Coq proof with exact known-finding characterisation + extracted padding oracle'),
 'C14': dict(text='encode_args_exn_class: over raw None/bool/int/str arguments the model returns a symbol or ValueError/DataOverflow/UnicodeErr/LookupErr - IndexErr, KeyErr, TypeErr, AssertErr unreachable; documented exclusions always refused; spelling independence of versions/levels/modes/masks. Correspondence of exception classes on the argument product incl. malformed values; serializer argument refusals; CLI exit status. PARTIAL: CLI process behaviour only observed.',
             ref='DESIGN.md 6 C14', technique='Coq proof over the argument domain + exception-class correspondence'),
 'C15': dict(text='encode_idempotent_eq: re-encoding with the reported version/level/mask and boosting disabled returns the same record (with the necessary mode hypothesis and its counterexample); version independent of mask and boosting. The model is a function, so determinism/history independence hold of it; refinement by the implementation under random histories, reordering and 8 threads is sampled. PARTIAL: thread interleavings cannot be exhibited by the model.',
             ref='DESIGN.md 6 C15', technique='Coq proof (idempotence) + history/thread correspondence'),
}
NA = {'C09': 'check being integrated (models/readers/theorems for PBM, PAM, PPM, PNG, XBM, XPM, TXT, terminal exist in theories/; harness pending)', 'C10': 'check being integrated (SVG/EPS/PDF/TeX models in progress)', 'C16': 'check being integrated (helpers model and theorems exist; harness pending)'}
def main():
    props = [json.loads(l)['id'] for l in open(os.path.join(HERE, 'properties.jsonl'))]
    checks = []
    for pid in props:
        if pid not in CHECKS: continue
        c = CHECKS[pid]
        checks.append({'property_id': pid, 'quick_cmd': './check %s --tier quick' % pid,
                       'thorough_cmd': './check %s --tier thorough' % pid,
                       'evidence_file': '/verif/evidence/%s.json' % pid,
                       'replay_cmd_template': './check %s --replay {path}' % pid,
                       'engine': 'coq-proof', 'level_claimed': {'category': 'proof', 'text': c['text'], 'design_ref': c['ref']},
                       'level_note': NOTE + ' ' + c.get('note', ''), 'technique': c['technique']})
    na = [{'property_id': p, 'reason': NA.get(p, 'check not built yet (work in progress, see DESIGN.md section 10)')} for p in props if p not in CHECKS]
    m = {'version': 1, 'setup_cmd': 'cd /verif && ./check --setup',
         'hooks': {'guard': 'SEGNO_VERIF', 'enable': 'none needed: no hook commits; checks import /repo/segno directly (PYTHONPATH=/repo)',
                   'baseline_off_cmd': 'cd /repo && /venv/bin/python -m pytest -ra -q -p no:cacheprovider --timeout=900 --continue-on-collection-errors',
                   'source_commits': [], 'add_only': True},
         'engines': [{'name': 'coq-proof', 'path': '/verif/check', 'serves_properties': sorted(CHECKS),
                      'kind_free_text': 'Coq 8.16.1 development (theories/) re-checked against sources regenerated from /repo by gen/translate.py; extracted OCaml oracle + Python correspondence harness'}],
         'checks': checks, 'not_applicable': na,
         'notes': 'See DESIGN.md. known_findings.json lists genuine defects recorded rather than repaired.'}
    json.dump(m, open(os.path.join(HERE, 'MANIFEST.json'), 'w'), indent=1)
if __name__ == '__main__':
    main()
