#!/usr/bin/env python3
"""Writes MANIFEST.json from the table below (kept as code so that it stays consistent)."""
import json, os
HERE = os.path.dirname(os.path.dirname(os.path.abspath(__file__)))
NOTE = ('Trusted: Coq 8.16.1 kernel + vm_compute (no native_compute); no axioms declared (Print Assumptions recorded in evidence); '
        'gen/translate.py and CPython import of /repo; Base/PyLite.v; extraction via ExtrOcamlBasic only + ocaml/driver.ml; '
        'hand-written model parts are tied to /repo by differential correspondence (sampled, not proved); frozen ISO tables Ref/IsoData.v.')
CHECKS = {
 'C11': dict(text='Kernel-checked finite theorem: the module classifier translated from the current utils.get_bit equals an ISO-derived classifier at every position of all 44 sizes for every admissible module value, except exactly the listed known finding (8,size-9); quiet-zone lemma for unbounded borders. Exhaustive correspondence of matrix_iter_verbose on real symbols of all 44 sizes against the extracted classifier.',
             ref='DESIGN.md section 6 C11', technique='Coq proof (vm_compute sweep over translated source + lifting lemma) + exhaustive correspondence'),
}
NA = {}
def main():
    props = [json.loads(l)['id'] for l in open(os.path.join(HERE, 'properties.jsonl'))]
    checks = []
    for pid in props:
        if pid not in CHECKS: continue
        c = CHECKS[pid]
        checks.append({'property_id': pid, 'quick_cmd': './check %s --tier quick' % pid,
                       'thorough_cmd': './check %s --tier thorough' % pid,
                       'evidence_file': '/verif/evidence/%s.json' % pid,
                       'replay_cmd_template': './check %s --replay {path}' % pid,
                       'engine': 'coq-proof', 'level_claimed': {'category': 'proof', 'text': c['text'], 'design_ref': c['ref']},
                       'level_note': NOTE + ' ' + c.get('note', ''), 'technique': c['technique']})
    na = [{'property_id': p, 'reason': NA.get(p, 'check not built yet (work in progress, see DESIGN.md section 10)')} for p in props if p not in CHECKS]
    m = {'version': 1, 'setup_cmd': 'cd /verif && ./check --setup',
         'hooks': {'guard': 'SEGNO_VERIF', 'enable': 'none needed: no hook commits; checks import /repo/segno directly (PYTHONPATH=/repo)',
                   'baseline_off_cmd': 'cd /repo && /venv/bin/python -m pytest -ra -q -p no:cacheprovider --timeout=900 --continue-on-collection-errors',
                   'source_commits': [], 'add_only': True},
         'engines': [{'name': 'coq-proof', 'path': '/verif/check', 'serves_properties': sorted(CHECKS),
                      'kind_free_text': 'Coq 8.16.1 development (theories/) re-checked against sources regenerated from /repo by gen/translate.py; extracted OCaml oracle + Python correspondence harness'}],
         'checks': checks, 'not_applicable': na,
         'notes': 'See DESIGN.md. known_findings.json lists genuine defects recorded rather than repaired.'}
    json.dump(m, open(os.path.join(HERE, 'MANIFEST.json'), 'w'), indent=1)
if __name__ == '__main__':
    main()
