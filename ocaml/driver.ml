(* Line protocol around the extracted Gallina model / specification oracles.
   request:  <command> <arg> ...     ints in decimal, bit strings as 0/1 characters, rows joined by '/'
   answer :  one line per request *)
module L = Stdlib.List
module S = Stdlib.String
open BinNums
open Datatypes
open PyLite
open Segment
open Version
open Stream
open Matrix
open Encode
open Sequence
open Args
open Classify
open Decoder
open Spec

let rec pos_of_int n = if n = 1 then Coq_xH else if n land 1 = 0 then Coq_xO (pos_of_int (n lsr 1)) else Coq_xI (pos_of_int (n lsr 1))
let z_of_int n = if n = 0 then Z0 else if n > 0 then Zpos (pos_of_int n) else Zneg (pos_of_int (-n))
let rec int_of_pos = function Coq_xH -> 1 | Coq_xO p -> 2 * int_of_pos p | Coq_xI p -> 2 * int_of_pos p + 1
let int_of_z = function Z0 -> 0 | Zpos p -> int_of_pos p | Zneg p -> - (int_of_pos p)
let zi s = z_of_int (int_of_string s)
let ozi s = if s = "-" then None else Some (zi s)
let soz = function None -> "-" | Some z -> string_of_int (int_of_z z)

(* Coq strings (inductive, no ExtrOcamlString) *)
let ascii_of_char c =
  let n = Char.code c in
  Ascii.Ascii (n land 1 <> 0, n land 2 <> 0, n land 4 <> 0, n land 8 <> 0, n land 16 <> 0, n land 32 <> 0, n land 64 <> 0, n land 128 <> 0)
let coq_string s =
  let r = ref String.EmptyString in
  for i = S.length s - 1 downto 0 do r := String.String (ascii_of_char (S.get s (i)), !r) done; !r

let bits_of_string s = if s = "-" then [] else L.init (S.length s) (fun i -> (S.get s (i)) = '1')
let rows_of_string s = if s = "-" then [] else L.map bits_of_string (S.split_on_char '/' s)
let string_of_zrows rows =
  S.concat "/" (L.map (fun r -> S.concat "," (L.map (fun z -> string_of_int (int_of_z z)) r)) rows)
let zlist_of_string s = if s = "-" || s = "" then [] else L.map zi (S.split_on_char ',' s)
let string_of_zlist l = if l = [] then "-" else S.concat "," (L.map (fun z -> string_of_int (int_of_z z)) l)
let string_of_bits l = if l = [] then "-" else S.concat "" (L.map (fun b -> if b then "1" else "0") l)
let string_of_rows rows = S.concat "/" (L.map string_of_bits rows)
let string_of_bool b = if b then "1" else "0"
let bytes_of_hex s =
  if s = "-" then [] else
  L.init (S.length s / 2) (fun i -> z_of_int (int_of_string ("0x" ^ S.sub s (2 * i) 2)))

let string_of_exn = function
  | ValueError -> "ValueError" | DataOverflow -> "DataOverflow" | UnicodeErr -> "UnicodeErr" | LookupErr -> "LookupErr"
  | IndexErr -> "IndexError" | KeyErr -> "KeyError" | TypeErr -> "TypeError" | AssertErr -> "AssertionError"
  | AttributeErr -> "AttributeError"

let codec_of_string s =
  if s = "U" then CRUnicode else if s = "L" then CRLookup
  else CROk (bytes_of_hex (S.sub s 1 (S.length s - 1)))
let enc_of name canon =
  if name = "-" then None
  else Some { e_name = coq_string name; e_canon = (if canon = "-" then None else Some (coq_string canon)) }

(* part token:  B;hex;mode;encname;canon   |   T;given;latin1;sjis;utf8;mode;encname;canon *)
let part_of_string s =
  match S.split_on_char ';' s with
  | ["B"; hex; mode; en; ec] -> { p_content = PBytes (bytes_of_hex hex); p_mode = ozi mode; p_enc = enc_of en ec }
  | ["T"; g; l; sj; u; mode; en; ec] ->
      { p_content = PText (codec_of_string g, codec_of_string l, codec_of_string sj, codec_of_string u);
        p_mode = ozi mode; p_enc = enc_of en ec }
  | _ -> failwith ("bad part " ^ s)

let obool s = if s = "-" then None else Some (s = "1")

let string_of_segment s =
  Printf.sprintf "%d,%d,%s" (int_of_z s.s_mode) (int_of_z s.s_count) (string_of_bits s.s_bits)
let code_body c =
  Printf.sprintf "%d %s %d %s %s" (int_of_z c.c_version) (soz c.c_error) (int_of_z c.c_mask)
    (string_of_rows c.c_matrix) (S.concat ";" (L.map string_of_segment c.c_segments))
let string_of_code c = "OK " ^ code_body c

let string_of_level = function None -> "-" | Some LvL -> "L" | Some LvM -> "M" | Some LvQ -> "Q" | Some LvH -> "H"
let string_of_dmode = function DNumeric -> "numeric" | DAlnum -> "alphanumeric" | DByte -> "byte" | DKanji -> "kanji" | DHanzi -> "hanzi"
let hex_of_zlist l = S.concat "" (L.map (fun z -> Printf.sprintf "%02x" (int_of_z z)) l)
let string_of_dseg s =
  Printf.sprintf "%s,%s,%d,%s" (string_of_dmode s.d_mode) (soz s.d_eci) (int_of_z s.d_count) (hex_of_zlist s.d_bytes)
let string_of_decoded d =
  Printf.sprintf "OK %d %s %d %s %s %s %s" (int_of_z d.dec_version) (string_of_level d.dec_level) (int_of_z d.dec_mask)
    (match d.dec_sa with None -> "-" | Some ((a, b), c) -> Printf.sprintf "%d,%d,%d" (int_of_z a) (int_of_z b) (int_of_z c))
    (if d.dec_segments = [] then "-" else S.concat ";" (L.map string_of_dseg d.dec_segments))
    (hex_of_zlist d.dec_data_codewords) (string_of_bits d.dec_tail)

let segs_of_string s =
  if s = "-" then [] else
  L.map (fun t -> match S.split_on_char ',' t with
                     | [m; c; e] -> ((zi m, zi c), e = "1") | _ -> failwith "bad seg") (S.split_on_char ';' s)

(* sequence content:  B;hex  |  T;g,l,s,u|g,l,s,u|...  (one group per character) *)
let scontent_of_string s =
  match S.split_on_char ';' s with
  | ["B"; hex] -> SBytes (bytes_of_hex hex)
  | ["T"; chars] ->
      SText (if chars = "-" then [] else
             L.map (fun c -> match S.split_on_char ',' c with
                                | [g; l; sj; u] -> { ch_given = codec_of_string g; ch_latin1 = codec_of_string l;
                                                     ch_sjis = codec_of_string sj; ch_utf8 = codec_of_string u }
                                | _ -> failwith "bad char") (S.split_on_char '|' chars))
  | _ -> failwith "bad content"

(* python values: N | B0 | B1 | I<int> | S<hex of code points (ASCII)> | U<code points in decimal, '.'-separated (any str)> *)
let pyval_of_string s =
  if s = "N" then VNone else
  match (S.get s (0)) with
  | 'B' -> VBool (s = "B1")
  | 'I' -> VInt (zi (S.sub s 1 (S.length s - 1)))
  | 'S' -> VStr (bytes_of_hex (S.sub s 1 (S.length s - 1)))
  | 'U' -> VStr (L.map zi (S.split_on_char '.' (S.sub s 1 (S.length s - 1))))
  | _ -> failwith "bad pyval"
let string_of_ozres = function Ok o -> "OK " ^ soz o | Err e -> "ERR " ^ string_of_exn e

(* ---- serializer side ---- *)
let cps_of_string s = if s = "-" || s = "" then [] else L.map zi (S.split_on_char '.' s)
let string_of_cps l = if l = [] then "-" else S.concat "." (L.map (fun z -> string_of_int (int_of_z z)) l)
let zrows_of_string s =
  if s = "-" then [] else
  L.map (fun r -> L.init (S.length r) (fun i -> z_of_int (Char.code (S.get r i) - 48))) (S.split_on_char '/' s)
let string_of_zgrid rows = S.concat "/" (L.map (fun r -> S.concat "" (L.map (fun z -> string_of_int (int_of_z z)) r)) rows)
(* colour token: N | S:<cps> | T:<ints>   ;   option token: - (not given) or a colour token *)
let color_of_string s : Color.pycolor option =
  if s = "N" then None
  else if S.length s >= 2 && S.sub s 0 2 = "S:" then Some (Color.CStr (cps_of_string (S.sub s 2 (S.length s - 2))))
  else if S.length s >= 2 && S.sub s 0 2 = "T:" then Some (Color.CTuple (cps_of_string (S.sub s 2 (S.length s - 2))))
  else failwith ("bad colour " ^ s)
let ocolor_opt s = if s = "-" then None else Some (color_of_string s)
let color_opts_of = function
  | [d; l; fd; fl; dd; dl; vd; vl; fmd; fml; ad; al; td; tl; sep; dm; qz] ->
      { Color.o_dark = color_of_string d; o_light = color_of_string l; o_finder_dark = ocolor_opt fd; o_finder_light = ocolor_opt fl;
        o_data_dark = ocolor_opt dd; o_data_light = ocolor_opt dl; o_version_dark = ocolor_opt vd; o_version_light = ocolor_opt vl;
        o_format_dark = ocolor_opt fmd; o_format_light = ocolor_opt fml; o_alignment_dark = ocolor_opt ad; o_alignment_light = ocolor_opt al;
        o_timing_dark = ocolor_opt td; o_timing_light = ocolor_opt tl; o_separator = ocolor_opt sep; o_dark_module = ocolor_opt dm;
        o_quiet_zone = ocolor_opt qz }
  | _ -> failwith "colour options: 17 tokens expected"
let res_bytes = function Ok l -> "OK " ^ (if l = [] then "-" else hex_of_zlist l) | Err e -> "ERR " ^ string_of_exn e
let res_cps = function Ok l -> "OK " ^ string_of_cps l | Err e -> "ERR " ^ string_of_exn e
let string_of_pixels rows =
  S.concat "/" (L.map (fun r -> S.concat "," (L.map (fun px -> S.concat "." (L.map (fun z -> string_of_int (int_of_z z)) px)) r)) rows)

let handle_ser toks =
  match toks with
  | ["pixel_grid"; rows; size; scale; border] ->
      Some (string_of_zgrid (Pixel.pixel_grid (zrows_of_string rows) (zi size) (zi scale) (zi border)))
  | ["w_txt"; rows; size; border; dark; light] ->
      Some (res_cps (TextFmt.write_txt (zrows_of_string rows) (zi size) (zi size) (ozi border) (cps_of_string dark) (cps_of_string light)))
  | ["w_xbm"; rows; size; scale; border; name] ->
      Some (res_cps (TextFmt.write_xbm (zrows_of_string rows) (zi size) (zi size) (zi scale) (ozi border) (cps_of_string name)))
  | ["w_xpm"; rows; size; scale; border; dark; light; name] ->
      Some (res_cps (TextFmt.write_xpm (zrows_of_string rows) (zi size) (zi size) (zi scale) (ozi border) (color_of_string dark) (color_of_string light) (cps_of_string name)))
  | ["w_term"; rows; size; border] -> Some (res_cps (TextFmt.write_terminal (zrows_of_string rows) (zi size) (zi size) (ozi border)))
  | ["w_termc"; rows; size; border] -> Some (res_cps (TextFmt.write_terminal_compact (zrows_of_string rows) (zi size) (zi size) (ozi border)))
  | ["r_txt"; dark; light; text] ->
      Some (match TextFmtReader.read_txt (cps_of_string dark) (cps_of_string light) (cps_of_string text) with
            | Some g -> "OK " ^ string_of_zgrid g | None -> "NONE")
  | ["r_xbm"; text] ->
      Some (match TextFmtReader.read_xbm (cps_of_string text) with
            | Some ((w, h), g) -> Printf.sprintf "OK %d %d %s" (int_of_z w) (int_of_z h) (string_of_zgrid g) | None -> "NONE")
  | ["r_xpm"; text] ->
      Some (match TextFmtReader.read_xpm (cps_of_string text) with
            | Some ((w, h), g) -> Printf.sprintf "OK %d %d %s" (int_of_z w) (int_of_z h) (string_of_pixels g) | None -> "NONE")
  | ["r_term"; text] ->
      Some (match TextFmtReader.read_terminal (cps_of_string text) with Some g -> "OK " ^ string_of_zgrid g | None -> "NONE")
  | ["r_termc"; text] ->
      Some (match TextFmtReader.read_terminal_compact (cps_of_string text) with Some g -> "OK " ^ string_of_zgrid g | None -> "NONE")
  | "png_parts" :: rows :: size :: scale :: border :: dpi :: opts ->
      let sz = zi size in
      Some (match Png.png_parts (zrows_of_string rows) (Classify.align_aux_matrix sz) sz (zi scale) (ozi border) (ozi dpi) (color_opts_of opts) with
            | Ok ((pre, raw), iend) ->
                "OK " ^ (if pre = [] then "-" else S.concat "," (L.map hex_of_zlist pre)) ^ " " ^ (if raw = [] then "-" else hex_of_zlist raw) ^ " " ^ hex_of_zlist iend
            | Err e -> "ERR " ^ string_of_exn e)
  | ["r_png"; file; comp; raw] ->
      let c = bytes_of_hex comp and r = bytes_of_hex raw in
      let inflate l = if l = c then Some r else None in
      Some (match PngReader.read_png inflate (bytes_of_hex file) with
            | Some ((w, h), px) ->
                Printf.sprintf "OK %d %d %s" (int_of_z w) (int_of_z h)
                  (S.concat "/" (L.map (fun row -> S.concat "," (L.map (fun (((a, b), c), d) ->
                     Printf.sprintf "%d.%d.%d.%d" (int_of_z a) (int_of_z b) (int_of_z c) (int_of_z d)) row)) px))
            | None -> "NONE")
  | ["r_pbm"; file] ->
      Some (match NetpbmReader.read_pbm (bytes_of_hex file) with
            | Some ((w, h), px) -> Printf.sprintf "OK %d %d %s" (int_of_z w) (int_of_z h) (string_of_pixels px) | None -> "NONE")
  | ["r_ppm"; file] ->
      Some (match NetpbmReader.read_ppm_full (bytes_of_hex file) with
            | Some (((w, h), mx), px) -> Printf.sprintf "OK %d %d %d %s" (int_of_z w) (int_of_z h) (int_of_z mx) (string_of_pixels px) | None -> "NONE")
  | ["r_pam"; file] ->
      Some (match NetpbmReader.read_pam_full (bytes_of_hex file) with
            | Some i -> Printf.sprintf "OK %d %d %d %d %s %s" (int_of_z i.NetpbmReader.pi_width) (int_of_z i.NetpbmReader.pi_height)
                          (int_of_z i.NetpbmReader.pi_depth) (int_of_z i.NetpbmReader.pi_maxval) (string_of_cps i.NetpbmReader.pi_tupltype)
                          (string_of_pixels i.NetpbmReader.pi_pixels)
            | None -> "NONE")
  | _ -> None


(* ================================================================================================
   C16 (helper payloads), C10 (vector outputs), C12 (routing): readers and writer models.

   Argument encodings (every token is free of blanks):
     <cps>    code points as '.'-joined decimals; '-' (or nothing) = the empty string
     <ostr>   `str or None`:  N  |  S:<cps>
     <lstr>   multi-valued field (list of str):  L:<cps>|<cps>|...   (L: alone = the empty list, L:- = [''])
     <big>    an integer of any size in decimal (optional leading '-')
     <dec>    exact decimal  <neg 0/1>,<mantissa big>,<scale big>   = +-mantissa / 10^scale
     <fnum>   F:<dec> | nan | inf | -inf            <amount>  F:<dec> | nan | inf | -inf | bad
     <vdate>  vCard birthday / rev:  N | D:<looks_like_datetime 0/1>:<cps>
     <vgeo>   vCard lat / lng:       N | G:<cps of str(value)>
     <q>      exact rational  <big>  or  <big>/<big>
     <scale>  Python int  I:<big>   or Python float with exact value q  Q:<q>   (SVG model: I:<z> | H:<twice>)
     <hex>    bytes in hexadecimal; '-' = empty
   Answers print strings as <cps>, optional strings as <ostr>, rationals as <big>/<big>. *)
let explode_pos p = let rec go p acc = match p with Coq_xH -> true :: acc | Coq_xO q -> go q (false :: acc) | Coq_xI q -> go q (true :: acc) in go p []
(* decimal string of a positive (bits most significant first): schoolbook doubling on a little-endian digit buffer *)
let string_of_posbig p =
  let buf = Buffer.create 32 in
  let digits = ref [| 0 |] and n = ref 1 in
  L.iter (fun bit ->
    let carry = ref (if bit then 1 else 0) in
    for i = 0 to !n - 1 do
      let v = 2 * (!digits).(i) + !carry in (!digits).(i) <- v mod 10; carry := v / 10
    done;
    if !carry > 0 then begin
      if !n = Array.length !digits then digits := Array.append !digits (Array.make (Array.length !digits) 0);
      (!digits).(!n) <- !carry; incr n
    end) (explode_pos p);
  for i = !n - 1 downto 0 do Buffer.add_char buf (Char.chr (48 + (!digits).(i))) done;
  Buffer.contents buf
let string_of_zbig = function Z0 -> "0" | Zpos p -> string_of_posbig p | Zneg p -> "-" ^ string_of_posbig p
let zbig s =
  let neg = S.length s > 0 && S.get s 0 = '-' in
  let ten = z_of_int 10 in
  let acc = ref Z0 in
  for i = (if neg then 1 else 0) to S.length s - 1 do
    let c = Char.code (S.get s i) - 48 in
    if c < 0 || c > 9 then failwith ("bad integer " ^ s);
    acc := BinInt.Z.add (BinInt.Z.mul !acc ten) (z_of_int c)
  done;
  if neg then BinInt.Z.opp !acc else !acc
let string_of_q (q : QArith_base.coq_Q) = string_of_zbig q.QArith_base.coq_Qnum ^ "/" ^ string_of_posbig q.QArith_base.coq_Qden
let q_of_string s : QArith_base.coq_Q =
  match S.split_on_char '/' s with
  | [n] -> { QArith_base.coq_Qnum = zbig n; coq_Qden = Coq_xH }
  | [n; d] -> (match zbig d with Zpos p -> { QArith_base.coq_Qnum = zbig n; coq_Qden = p } | _ -> failwith "bad denominator")
  | _ -> failwith ("bad rational " ^ s)
let string_of_half h = string_of_zbig h ^ "/2"

let has_prefix p s = S.length s >= S.length p && S.sub s 0 (S.length p) = p
let after p s = S.sub s (S.length p) (S.length s - S.length p)
let ostr_of_string s = if s = "N" then None else if has_prefix "S:" s then Some (cps_of_string (after "S:" s)) else failwith ("bad optional string " ^ s)
let lstr_of_string s =
  if not (has_prefix "L:" s) then failwith ("bad string list " ^ s) else
  let r = after "L:" s in if r = "" then [] else L.map cps_of_string (S.split_on_char '|' r)
let string_of_ostr = function None -> "N" | Some l -> "S:" ^ string_of_cps l
let cpsbig l = if l = [] then "-" else S.concat "." (L.map string_of_zbig l)
let dec_of_string s =
  match S.split_on_char ',' s with
  | [n; m; sc] -> { Helpers.d_neg = (n = "1"); d_mant = zbig m; d_scale = zbig sc }
  | _ -> failwith ("bad decimal " ^ s)
let fnum_of_string s =
  if s = "nan" then Helpers.NNan else if s = "inf" then Helpers.NInf false else if s = "-inf" then Helpers.NInf true
  else if has_prefix "F:" s then Helpers.NFin (dec_of_string (after "F:" s)) else failwith ("bad number " ^ s)
let amount_of_string s =
  if s = "nan" then Helpers.ANaN else if s = "inf" then Helpers.AInf false else if s = "-inf" then Helpers.AInf true
  else if s = "bad" then Helpers.ABad
  else if has_prefix "F:" s then Helpers.AFin (dec_of_string (after "F:" s)) else failwith ("bad amount " ^ s)
let vdate_of_string s =
  if s = "N" then None else
  match S.split_on_char ':' s with
  | ["D"; ok; t] -> Some (cps_of_string t, ok = "1")
  | _ -> failwith ("bad date " ^ s)
let vgeo_of_string s = if s = "N" then None else if has_prefix "G:" s then Some (true, cps_of_string (after "G:" s)) else failwith ("bad coordinate " ^ s)
let string_of_dectriple ((neg, m), sc) = Printf.sprintf "%s,%s,%s" (string_of_bool neg) (string_of_zbig m) (string_of_zbig sc)
let join_or_dash sep l = if l = [] then "-" else S.concat sep l
let pynum_of_string s =
  if has_prefix "I:" s then Iter.PInt (zbig (after "I:" s))
  else if has_prefix "Q:" s then Iter.PFloat (q_of_string (after "Q:" s)) else failwith ("bad scale " ^ s)
(* table  c=<cps>,c=<cps>,...  ->  function (missing entries give the empty text) *)
let table_of_string s =
  let tbl = if s = "-" then [] else
    L.map (fun e -> match S.split_on_char '=' e with [k; v] -> (int_of_string k, cps_of_string v) | _ -> failwith "bad table") (S.split_on_char ',' s) in
  fun z -> (try L.assoc (int_of_z z) tbl with Not_found -> [])
let string_of_rgb ((r, g), b) = Printf.sprintf "%s,%s,%s" (string_of_q r) (string_of_q g) (string_of_q b)
let string_of_point (x, y) = string_of_q x ^ "," ^ string_of_q y
let string_of_cells = function
  | None -> "!"
  | Some l -> join_or_dash "|" (L.map (fun (c, r) -> string_of_zbig c ^ "," ^ string_of_zbig r) l)
(* paint list of the EPS / PDF readers; the cells of a stroke are computed for grid pitch s and page top `top` *)
let string_of_paint s top = function
  | VectorReader.Stroke (c, w, segs) ->
      Printf.sprintf "S:%s:%s:%d:%s" (string_of_rgb c) (string_of_q w) (L.length segs) (string_of_cells (VectorReader.stroke_cells s top w segs))
  | VectorReader.FillRect (c, lo, hi) -> Printf.sprintf "R:%s:%s:%s" (string_of_rgb c) (string_of_point lo) (string_of_point hi)
  | VectorReader.FillPage c -> "P:" ^ string_of_rgb c
let string_of_paints s top l = join_or_dash ";" (L.map (string_of_paint s top) l)

let svg_scale_of_string s =
  if has_prefix "I:" s then Svg.SInt (zbig (after "I:" s)) else if has_prefix "H:" s then Svg.SHalf (zbig (after "H:" s)) else failwith ("bad svg scale " ^ s)
let svgver_of_string s =
  if s = "N" then None else
  match S.split_on_char ':' s with
  | ["I"; z] -> Some (Svg.VInt (zbig z))
  | ["F"; ip; frac] -> Some (Svg.VFloat (zbig ip, cps_of_string frac))
  | _ -> failwith ("bad svgversion " ^ s)
(* one path of an SVG document:  stroke;stroke-opacity;fill;class;scale;cells;fillrect   ('!' = not available) *)
let string_of_rect = function
  | None -> "!"
  | Some (((a, b), c), d) -> S.concat "," (L.map string_of_half [a; b; c; d])
let svg_doc_line page width height viewbox version xmlns id cls title desc paths =
  let len = function None -> "-" | Some (q, u) -> q ^ ":" ^ string_of_cps u in
  Printf.sprintf "OK %s %s %s %s %s %s %s %s %s %s %s"
    (match page with None -> "-" | Some (w, h) -> w ^ "," ^ h) (len width) (len height)
    (match viewbox with None -> "-" | Some l -> join_or_dash "," l)
    (string_of_ostr version) (string_of_ostr xmlns) (string_of_ostr id) (string_of_ostr cls) (string_of_ostr title) (string_of_ostr desc)
    (join_or_dash " " paths)

let handle_ext toks =
  match toks with
  (* ---------------- C16: models ---------------- *)
  | ["w_wifi"; ssid; password; security; security_upper; hidden] ->
      Some ("OK " ^ string_of_cps (Helpers.make_wifi_data (cps_of_string ssid) (ostr_of_string password) (ostr_of_string security)
                                     (cps_of_string security_upper) (hidden = "1")))
  | ["w_mecard"; name; reading; email; phone; videophone; memo; nickname; birthday; url; pobox; roomno; houseno; city; prefecture; zipcode; country] ->
      let o = ostr_of_string and l = lstr_of_string in
      Some ("OK " ^ string_of_cps (Helpers.make_mecard_data
        { Helpers.mc_name = cps_of_string name; mc_reading = o reading; mc_email = l email; mc_phone = l phone; mc_videophone = l videophone;
          mc_memo = o memo; mc_nickname = o nickname; mc_birthday = o birthday; mc_url = l url; mc_pobox = o pobox; mc_roomno = o roomno;
          mc_houseno = o houseno; mc_city = o city; mc_prefecture = o prefecture; mc_zipcode = o zipcode; mc_country = o country }))
  | ["w_vcard"; name; displayname; email; phone; fax; videophone; memo; nickname; birthday; url; pobox; street; city; region; zipcode; country;
     org; lat; lng; source; rev; title; photo_uri; cellphone; homephone; workphone] ->
      let o = ostr_of_string and l = lstr_of_string in
      Some (res_cps (Helpers.make_vcard_data
        { Helpers.vc_name = cps_of_string name; vc_displayname = cps_of_string displayname; vc_email = l email; vc_phone = l phone; vc_fax = l fax;
          vc_videophone = l videophone; vc_memo = o memo; vc_nickname = o nickname; vc_birthday = vdate_of_string birthday; vc_url = l url;
          vc_pobox = o pobox; vc_street = o street; vc_city = o city; vc_region = o region; vc_zipcode = o zipcode; vc_country = o country;
          vc_org = o org; vc_lat = vgeo_of_string lat; vc_lng = vgeo_of_string lng; vc_source = o source; vc_rev = vdate_of_string rev;
          vc_title = l title; vc_photo_uri = l photo_uri; vc_cellphone = l cellphone; vc_homephone = l homephone; vc_workphone = l workphone }))
  | ["w_geo"; lat; lng] -> Some ("OK " ^ string_of_cps (Helpers.make_geo_data (fnum_of_string lat) (fnum_of_string lng)))
  | ["w_mailto"; to_; cc; bcc; subject; body] ->
      Some (res_cps (Helpers.make_make_email_data (lstr_of_string to_) (lstr_of_string cc) (lstr_of_string bcc) (ostr_of_string subject) (ostr_of_string body)))
  (* w_epc <encodable: 8 characters 0/1 for charset 1..8> name iban amount text reference bic purpose <encoding: N | S:<cps> | I:<big>> *)
  | ["w_epc"; enc; name; iban; amount; text; reference; bic; purpose; encoding] ->
      let o = ostr_of_string in
      let e = if encoding = "N" then Helpers.EncNone else if has_prefix "S:" encoding then Helpers.EncName (cps_of_string (after "S:" encoding))
              else if has_prefix "I:" encoding then Helpers.EncNum (zbig (after "I:" encoding)) else failwith "bad encoding" in
      Some (match Helpers.make_epc_qr_data_std (bits_of_string enc)
                    { Helpers.epc_name = o name; epc_iban = o iban; epc_amount = amount_of_string amount; epc_text = o text;
                      epc_reference = o reference; epc_bic = o bic; epc_purpose = o purpose; epc_enc = e } with
            | Ok (cs, payload) -> Printf.sprintf "OK %d %s" (int_of_z cs) (string_of_cps payload)
            | Err e -> "ERR " ^ string_of_exn e)
  (* ---------------- C16: independent readers ---------------- *)
  (* r_mecard <prefix> <payload>  ->  OK <fields> <pieces>
       fields: key=value=component,component,... joined by ';' (value unescaped; components = the raw value split at unescaped ',')
       pieces: the raw texts between unescaped ';' joined by ';' *)
  | ["r_mecard"; prefix; payload] ->
      let p = cps_of_string prefix and s = cps_of_string payload in
      Some (match HelpersReader.mecard_read p s, HelpersReader.mecard_pieces_read p s with
            | Some fields, Some pieces ->
                let raws = L.filter_map (fun pc -> if pc = [] then None else HelpersReader.cut_esc (z_of_int 58) false pc) pieces in
                if L.length raws <> L.length fields then "NONE" else
                Printf.sprintf "OK %s %s"
                  (join_or_dash ";" (L.map2 (fun (k, v) (_, raw) ->
                     Printf.sprintf "%s=%s=%s" (string_of_cps k) (string_of_cps v)
                       (S.concat "," (L.map string_of_cps (HelpersReader.mecard_components raw)))) fields raws))
                  (S.concat ";" (L.map string_of_cps pieces))
            | _, _ -> "NONE")
  (* r_vcard <payload>  ->  OK <entries> <content lines> <pieces between CRLF>
       entries: name=raw value=vcard_unescape(raw)=component,component,...  joined by ';' (components: raw split at unescaped ';', unescaped) *)
  | ["r_vcard"; payload] ->
      let s = cps_of_string payload in
      Some (match HelpersReader.vcard_read s with
            | Some entries ->
                Printf.sprintf "OK %s %s %s"
                  (join_or_dash ";" (L.map (fun (k, raw) ->
                     Printf.sprintf "%s=%s=%s=%s" (string_of_cps k) (string_of_cps raw) (string_of_cps (HelpersReader.vcard_unescape raw))
                       (S.concat "," (L.map string_of_cps (HelpersReader.vcard_components raw)))) entries))
                  (S.concat ";" (L.map string_of_cps (HelpersReader.vcard_content_lines s)))
                  (S.concat ";" (L.map string_of_cps (HelpersReader.split_crlf s)))
            | None -> "NONE")
  (* r_mailto <payload> -> OK <raw to-part> <key=raw value=percent-decoded UTF-8 text or !> joined by ';' *)
  | ["r_mailto"; payload] ->
      Some (match HelpersReader.mailto_read (cps_of_string payload) with
            | Some (to_, kvs) ->
                Printf.sprintf "OK %s %s" (string_of_cps to_)
                  (join_or_dash ";" (L.map (fun (k, v) ->
                     Printf.sprintf "%s=%s=%s" (string_of_cps k) (string_of_cps v)
                       (match HelpersReader.uri_text v with Some t -> string_of_cps t | None -> "!")) kvs))
            | None -> "NONE")
  | ["r_geo"; payload] ->
      Some (match HelpersReader.geo_read (cps_of_string payload) with
            | Some (a, b) -> Printf.sprintf "OK %s %s" (string_of_dectriple a) (string_of_dectriple b)
            | None -> "NONE")
  (* r_epc <payload text> -> OK <lines joined by ';'> <amount of line 8: neg,mantissa,scale | NONE> *)
  | ["r_epc"; payload] ->
      let lines = HelpersReader.epc_read_lines (cps_of_string payload) in
      Some (Printf.sprintf "OK %s %s" (S.concat ";" (L.map string_of_cps lines))
              (match L.nth_opt lines 7 with
               | Some l -> (match HelpersReader.epc_read_amount l with Some t -> string_of_dectriple t | None -> "NONE")
               | None -> "NONE"))
  (* ---------------- C10: SVG ---------------- *)
  (* w_svg rows size <scale I:|H:> border xmldecl svgns title desc svgid svgclass lineclass omitsize unit encoding <svgversion N|I:z|F:ip:frac> nl
           draw_transparent <17 colour tokens as for png_parts> *)
  | "w_svg" :: rows :: size :: scale :: border :: xmldecl :: svgns :: title :: desc :: svgid :: svgclass :: lineclass :: omitsize :: unit
    :: encoding :: svgversion :: nl :: draw_transparent :: colours ->
      let sz = zi size and o = ostr_of_string in
      Some (res_cps (Svg.write_svg (zrows_of_string rows) (Classify.align_aux_matrix sz) sz (color_opts_of colours)
        { Svg.so_scale = svg_scale_of_string scale; so_border = ozi border; so_xmldecl = (xmldecl = "1"); so_svgns = (svgns = "1");
          so_title = o title; so_desc = o desc; so_svgid = o svgid; so_svgclass = o svgclass; so_lineclass = o lineclass;
          so_omitsize = (omitsize = "1"); so_unit = o unit; so_encoding = o encoding; so_svgversion = svgver_of_string svgversion;
          so_nl = (nl = "1"); so_draw_transparent = (draw_transparent = "1") }))
  (* r_svg <document> -> OK <page w,h> <width q:unit> <height q:unit> <viewBox q,q,q,q> version xmlns id class title desc path path ...
     (SvgReader.v: every number is a multiple of 1/2).  r_svgq: the same answer from SvgReaderDec.v (arbitrary decimals). *)
  | ["r_svg"; doc] ->
      Some (match SvgReader.read_svg (cps_of_string doc) with
            | None -> "NONE"
            | Some d ->
                let len = function None -> None | Some (h, u) -> Some (string_of_half h, u) in
                svg_doc_line (match SvgReader.page_user d with None -> None | Some (w, h) -> Some (string_of_half w, string_of_half h))
                  (len d.SvgReader.d_width) (len d.SvgReader.d_height)
                  (match d.SvgReader.d_viewbox with None -> None | Some l -> Some (L.map string_of_half l))
                  d.SvgReader.d_version d.SvgReader.d_xmlns d.SvgReader.d_id d.SvgReader.d_class d.SvgReader.d_title d.SvgReader.d_desc
                  (L.map (fun p ->
                     S.concat ";" [string_of_ostr p.SvgReader.p_stroke; string_of_ostr p.SvgReader.p_stroke_opacity; string_of_ostr p.SvgReader.p_fill;
                                   string_of_ostr p.SvgReader.p_class;
                                   (match SvgReader.path_scale p with Some h -> string_of_half h | None -> "!");
                                   string_of_cells (SvgReader.stroke_cells p); string_of_rect (SvgReader.fill_rect p)]) d.SvgReader.d_paths))
  | ["r_svgq"; doc] ->
      Some (match SvgReaderDec.read_svg_q (cps_of_string doc) with
            | None -> "NONE"
            | Some d ->
                let len = function None -> None | Some (q, u) -> Some (string_of_q q, u) in
                svg_doc_line (match SvgReaderDec.page_user_q d with None -> None | Some (w, h) -> Some (string_of_q w, string_of_q h))
                  (len d.SvgReaderDec.qd_width) (len d.SvgReaderDec.qd_height)
                  (match d.SvgReaderDec.qd_viewbox with None -> None | Some l -> Some (L.map string_of_q l))
                  d.SvgReaderDec.qd_version d.SvgReaderDec.qd_xmlns d.SvgReaderDec.qd_id d.SvgReaderDec.qd_class d.SvgReaderDec.qd_title
                  d.SvgReaderDec.qd_desc
                  (L.map (fun p ->
                     S.concat ";" [string_of_ostr p.SvgReaderDec.qp_stroke; string_of_ostr p.SvgReaderDec.qp_stroke_opacity;
                                   string_of_ostr p.SvgReaderDec.qp_fill; string_of_ostr p.SvgReaderDec.qp_class;
                                   (match SvgReaderDec.path_scale_q p with Some q -> string_of_q q | None -> "!");
                                   string_of_cells (SvgReaderDec.stroke_cells_q p); string_of_rect (SvgReaderDec.fill_rect_q p)]) d.SvgReaderDec.qd_paths))
  (* ---------------- C10: EPS / PDF / PGF readers ----------------
     <s> = grid pitch (the scaling factor), <top> = device height of the top edge of row 0 of the page; both <q>.
     paints joined by ';':  S:r,g,b:<line width>:<number of segments>:<cells c,r|c,r|... or !>   R:r,g,b:x0,y0:x1,y1   P:r,g,b (whole page) *)
  | ["r_eps"; file; s; top] ->
      Some (match VectorReader.eps_read (bytes_of_hex file) with
            | Some d ->
                let (((a, b), c), e) = d.VectorReader.eps_box in
                Printf.sprintf "OK %s,%s,%s,%s %s" (string_of_zbig a) (string_of_zbig b) (string_of_zbig c) (string_of_zbig e)
                  (string_of_paints (q_of_string s) (q_of_string top) d.VectorReader.eps_paint)
            | None -> "NONE")
  | ["r_pdf_content"; content; s; top] ->
      Some (match VectorReader.pdf_read_content (bytes_of_hex content) with
            | Some l -> "OK " ^ string_of_paints (q_of_string s) (q_of_string top) l
            | None -> "NONE")
  (* r_pdf_file <number of objects> <file> -> OK <xref position> <offset,generation,in-use;...> <MediaBox q,q,q,q> </Length> <stream hex> *)
  | ["r_pdf_file"; nobj; file] ->
      Some (match VectorReader.pdf_read_file (zi nobj) (bytes_of_hex file) with
            | Some d ->
                Printf.sprintf "OK %s %s %s %s %s" (string_of_zbig d.VectorReader.pd_xref_pos)
                  (join_or_dash ";" (L.map (fun ((o, g), u) -> Printf.sprintf "%s,%s,%s" (string_of_zbig o) (string_of_zbig g) (string_of_bool u))
                                       d.VectorReader.pd_entries))
                  (join_or_dash "," (L.map string_of_q d.VectorReader.pd_mediabox)) (string_of_zbig d.VectorReader.pd_length)
                  (if d.VectorReader.pd_stream = [] then "-" else hex_of_zlist d.VectorReader.pd_stream)
            | None -> "NONE")
  (* r_pgf <file> <s> <top> -> OK <unit ostr> <strokes joined by ';'>
     stroke = <colour ostr>~<line width>~<number of segments>~<cells>~<segments x1,y1,x2,y2|... in the document's unit> *)
  | ["r_pgf"; file; s; top] ->
      Some (match VectorReader.pgf_read (bytes_of_hex file) with
            | Some d ->
                Printf.sprintf "OK %s %s" (string_of_ostr d.VectorReader.pgf_unit)
                  (join_or_dash ";" (L.map (fun ((c, w), segs) ->
                     Printf.sprintf "%s~%s~%d~%s~%s" (string_of_ostr c) (string_of_q w) (L.length segs)
                       (string_of_cells (VectorReader.stroke_cells (q_of_string s) (q_of_string top) w segs))
                       (join_or_dash "|" (L.map (fun (a, b) -> string_of_point a ^ "," ^ string_of_point b) segs))) d.VectorReader.pgf_strokes))
            | None -> "NONE")
  (* ---------------- C10: EPS / PDF / PGF writer models ---------------- *)
  | ["w_eps"; rows; size; date; scale; border; dark; light] ->
      (match color_of_string dark with
       | None -> Some "XERR dark=None is outside the model"
       | Some d -> Some (res_bytes (Vector.write_eps (zrows_of_string rows) (zi size) (zi size) (cps_of_string date) (pynum_of_string scale) (ozi border)
                                      d (color_of_string light))))
  (* <colortab>: texts of str(1/255.0*c) for the colour components that occur:  c=<cps>,c=<cps>  or - *)
  | ["w_pdf_content"; colortab; rows; size; scale; border; dark; light] ->
      (match color_of_string dark with
       | None -> Some "XERR dark=None is outside the model"
       | Some d -> Some (res_cps (Vector.pdf_content (table_of_string colortab) (zrows_of_string rows) (zi size) (zi size) (pynum_of_string scale)
                                    (ozi border) d (color_of_string light))))
  (* <deflated>: the compressed stream of the real file (zlib is not modelled: deflate := fun _ -> these bytes) *)
  | ["w_pdf"; deflated; colortab; rows; size; date; scale; border; dark; light] ->
      (match color_of_string dark with
       | None -> Some "XERR dark=None is outside the model"
       | Some d ->
           let z = bytes_of_hex deflated in
           Some (res_bytes (Vector.write_pdf (fun _ -> z) (table_of_string colortab) (zrows_of_string rows) (zi size) (zi size) (cps_of_string date)
                              (pynum_of_string scale) (ozi border) d (color_of_string light))))
  | ["w_tex"; rows; size; date; scale; border; dark; unit; url] ->
      Some (res_bytes (Vector.write_tex (zrows_of_string rows) (zi size) (zi size) (cps_of_string date) (pynum_of_string scale) (ozi border)
                         (ostr_of_string dark) (cps_of_string unit) (ostr_of_string url)))
  (* ---------------- C12: routing ----------------
     build_config <filename cps | -> <k=v;k=v;... | ->   keys and values (repr(value)) as <cps>; answer: the resulting association list
     sorted by key, in the same encoding.   resolve <kind cps | -> <filename cps> <is_stream 0/1> -> OK <serializer key cps> <gzip 0/1> *)
  | ["build_config"; filename; config] ->
      let cfg = if config = "-" then [] else
        L.map (fun e -> match S.split_on_char '=' e with [k; v] -> (cps_of_string k, cps_of_string v) | _ -> failwith "bad config entry")
          (S.split_on_char ';' config) in
      let out = Route.build_config cfg (if filename = "-" then None else Some (cps_of_string filename)) in
      let key (k, _) = L.map int_of_z k in
      let sorted = L.stable_sort (fun a b -> compare (key a) (key b)) out in
      Some (join_or_dash ";" (L.map (fun (k, v) -> string_of_cps k ^ "=" ^ string_of_cps v) sorted))
  | ["seqname"; out; m; n] ->
      Some (string_of_cps (Route.sequence_filename (cps_of_string out) (zi m) (zi n)))
  | ["resolve"; kind; filename; is_stream] ->
      Some (match Route.resolve (if kind = "-" then None else Some (cps_of_string kind)) (cps_of_string filename) (is_stream = "1") with
            | Ok (key, gz) -> Printf.sprintf "OK %s %s" (string_of_cps key) (string_of_bool gz)
            | Err e -> "ERR " ^ string_of_exn e)
  | _ -> None

let handle toks =
  match handle_ser toks with Some a -> a | None ->
  match handle_ext toks with Some a -> a | None ->
  match toks with
  | ["classify"; size; border; rows] ->
      string_of_zrows (classify_matrix (zi size) (zi border) (rows_of_string rows))
  | ["align_aux"; size] -> string_of_zrows (align_aux_matrix (zi size))
  | ["kf_fmt_col"; size; i; j] -> string_of_bool (kf_fmt_col (zi size) (zi i) (zi j))
  | "encode" :: error :: version :: mode :: mask :: eci :: micro :: boost :: parts ->
      (match encode (L.map part_of_string parts) (ozi error) (ozi version) (ozi mode) (ozi mask) (eci = "1") (obool micro) (boost = "1") with
       | Ok c -> string_of_code c
       | Err e -> "ERR " ^ string_of_exn e)
  | ["decode"; rows] ->
      (match decode_symbol (rows_of_string rows) with Some d -> string_of_decoded d | None -> "NONE")
  | ["c02"; rows; v; l; mask] -> string_of_zlist (c02_check (rows_of_string rows) (zi v) (ozi l) (zi mask))
  | ["c03"; rows] -> string_of_zlist (c03_check (rows_of_string rows))
  | ["c13"; rows] ->
      (match c13_check (rows_of_string rows) with
       | None -> "NONE"
       | Some ((((iso, kf), v), cap), len) ->
           Printf.sprintf "%s %s %d %d %d" (string_of_bool iso) (string_of_bool kf) (int_of_z v) (int_of_z cap) (int_of_z len))
  | ["kf_pad"; v; cap; len] -> string_of_bool (kf_pad_aligned (zi v) (zi cap) (zi len))
  | ["bestmask"; rows; used] ->
      let r = rows_of_string rows in
      Printf.sprintf "%d %s" (int_of_z (iso_best_mask r (zi used))) (string_of_zlist (candidate_scores r (zi used)))
  | ["iso_penalty"; rows] -> string_of_int (int_of_z (iso_penalty (rows_of_string rows)))
  | ["iso_micro_score"; rows] -> string_of_int (int_of_z (iso_micro_score (rows_of_string rows)))
  | ["spec_mode"; hex] -> string_of_int (int_of_z (spec_mode (bytes_of_hex hex)))
  | ["spec_version"; micro; eci; l; sa; segs] ->
      (match spec_version (obool micro) (eci = "1") (ozi l) (segs_of_string segs) (sa = "1") with
       | Some v -> string_of_int (int_of_z v) | None -> "NONE")
  | ["spec_boost"; v; req; sa; segs] -> string_of_int (int_of_z (spec_boost (zi v) (zi req) (segs_of_string segs) (sa = "1")))
  | ["spec_bits"; v; sa; segs] -> string_of_int (int_of_z (spec_bits (zi v) (segs_of_string segs) (sa = "1")))
  | ["encseq"; error; version; mode; mask; en; ec; eci; boost; count; content] ->
      (match encode_sequence (scontent_of_string content) (ozi error) (ozi version) (ozi mode) (ozi mask) (enc_of en ec)
               (eci = "1") (boost = "1") (ozi count) with
       | Ok cs -> "OK " ^ S.concat " | " (L.map code_body cs)
       | Err e -> "ERR " ^ string_of_exn e)
  | "encargs" :: error :: version :: mode :: mask :: eci :: micro :: boost :: parts ->
      let ps = L.map part_of_string parts in
      (match encode_args (fun m -> L.map (fun p -> { p with p_mode = m }) ps) (pyval_of_string error) (pyval_of_string version)
               (pyval_of_string mode) (pyval_of_string mask) (eci = "1") (pyval_of_string micro) (boost = "1") with
       | Ok c -> string_of_code c
       | Err e -> "ERR " ^ string_of_exn e)
  | ["int_tables"] -> string_of_zlist coq_UNI_SPACES ^ " " ^ string_of_zlist coq_DECIMAL_ZEROS
  (* the non-ASCII code points whose str.lower() / str.upper() contains an ASCII character, with their images (Base/PyCase.v):
     <c>:<image code points>;...  for lower, then the same for upper *)
  | ["case_tables"] ->
      let f l = join_or_dash ";" (L.map (fun (c, img) -> string_of_int (int_of_z c) ^ ":" ^ string_of_zlist img) l) in
      f PyCase.coq_LOWER_SPECIAL ^ " " ^ f PyCase.coq_UPPER_SPECIAL
  (* color_rgba <colour token> <alpha_float 0/1> -> OK r,g,b,a (a in units of 1/10000 when alpha_float) | ERR <exception> *)
  | ["color_rgba"; c; af] ->
      (match color_of_string c with
       | None -> "XERR bad colour"
       | Some col -> (match Color.color_to_rgba col (af = "1") with
                      | Ok l -> "OK " ^ string_of_zlist l
                      | Err e -> "ERR " ^ string_of_exn e))
  | ["norm_version"; v] -> string_of_ozres (normalize_version (pyval_of_string v))
  | ["norm_mode"; v] -> string_of_ozres (normalize_mode (pyval_of_string v))
  | ["norm_mask"; v; micro] -> string_of_ozres (normalize_mask (pyval_of_string v) (micro = "1"))
  | ["norm_error"; v; accept] -> string_of_ozres (normalize_errorlevel (pyval_of_string v) (accept = "1"))
  | ["find_mode"; hex] -> string_of_int (int_of_z (find_mode (bytes_of_hex hex)))
  | ["mask_scores"; rows] ->
      let r = rows_of_string rows in
      let (((a, b), c), d) = mask_scores (z_of_int (L.length r)) r in
      Printf.sprintf "%d,%d,%d,%d" (int_of_z a) (int_of_z b) (int_of_z c) (int_of_z d)
  | ["micro_score"; rows] ->
      let r = rows_of_string rows in string_of_int (int_of_z (evaluate_micro_mask (z_of_int (L.length r)) r))
  | _ -> "XERR unknown request"

let () =
  try
    while true do
      let line = input_line stdin in
      let toks = L.filter (fun s -> s <> "") (S.split_on_char ' ' line) in
      let ans = try handle toks with e -> "XERR " ^ Printexc.to_string e in
      print_string ans; print_char '\n'
    done
  with End_of_file -> ()
