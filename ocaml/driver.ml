(* Line protocol around the extracted Gallina model / specification oracles.
   request:  <command> <arg> ...     ints in decimal, bit strings as 0/1 characters, rows joined by '/'
   answer :  one line per request *)
module L = Stdlib.List
module S = Stdlib.String
open BinNums
open Datatypes
open PyLite
open Segment
open Version
open Stream
open Matrix
open Encode
open Sequence
open Args
open Classify
open Decoder
open Spec

let rec pos_of_int n = if n = 1 then Coq_xH else if n land 1 = 0 then Coq_xO (pos_of_int (n lsr 1)) else Coq_xI (pos_of_int (n lsr 1))
let z_of_int n = if n = 0 then Z0 else if n > 0 then Zpos (pos_of_int n) else Zneg (pos_of_int (-n))
let rec int_of_pos = function Coq_xH -> 1 | Coq_xO p -> 2 * int_of_pos p | Coq_xI p -> 2 * int_of_pos p + 1
let int_of_z = function Z0 -> 0 | Zpos p -> int_of_pos p | Zneg p -> - (int_of_pos p)
let zi s = z_of_int (int_of_string s)
let ozi s = if s = "-" then None else Some (zi s)
let soz = function None -> "-" | Some z -> string_of_int (int_of_z z)

(* Coq strings (inductive, no ExtrOcamlString) *)
let ascii_of_char c =
  let n = Char.code c in
  Ascii.Ascii (n land 1 <> 0, n land 2 <> 0, n land 4 <> 0, n land 8 <> 0, n land 16 <> 0, n land 32 <> 0, n land 64 <> 0, n land 128 <> 0)
let coq_string s =
  let r = ref String.EmptyString in
  for i = S.length s - 1 downto 0 do r := String.String (ascii_of_char (S.get s (i)), !r) done; !r

let bits_of_string s = if s = "-" then [] else L.init (S.length s) (fun i -> (S.get s (i)) = '1')
let rows_of_string s = if s = "-" then [] else L.map bits_of_string (S.split_on_char '/' s)
let string_of_zrows rows =
  S.concat "/" (L.map (fun r -> S.concat "," (L.map (fun z -> string_of_int (int_of_z z)) r)) rows)
let zlist_of_string s = if s = "-" || s = "" then [] else L.map zi (S.split_on_char ',' s)
let string_of_zlist l = if l = [] then "-" else S.concat "," (L.map (fun z -> string_of_int (int_of_z z)) l)
let string_of_bits l = if l = [] then "-" else S.concat "" (L.map (fun b -> if b then "1" else "0") l)
let string_of_rows rows = S.concat "/" (L.map string_of_bits rows)
let string_of_bool b = if b then "1" else "0"
let bytes_of_hex s =
  if s = "-" then [] else
  L.init (S.length s / 2) (fun i -> z_of_int (int_of_string ("0x" ^ S.sub s (2 * i) 2)))

let string_of_exn = function
  | ValueError -> "ValueError" | DataOverflow -> "DataOverflow" | UnicodeErr -> "UnicodeErr" | LookupErr -> "LookupErr"
  | IndexErr -> "IndexError" | KeyErr -> "KeyError" | TypeErr -> "TypeError" | AssertErr -> "AssertionError"
  | AttributeErr -> "AttributeError"

let codec_of_string s =
  if s = "U" then CRUnicode else if s = "L" then CRLookup
  else CROk (bytes_of_hex (S.sub s 1 (S.length s - 1)))
let enc_of name canon =
  if name = "-" then None
  else Some { e_name = coq_string name; e_canon = (if canon = "-" then None else Some (coq_string canon)) }

(* part token:  B;hex;mode;encname;canon   |   T;given;latin1;sjis;utf8;mode;encname;canon *)
let part_of_string s =
  match S.split_on_char ';' s with
  | ["B"; hex; mode; en; ec] -> { p_content = PBytes (bytes_of_hex hex); p_mode = ozi mode; p_enc = enc_of en ec }
  | ["T"; g; l; sj; u; mode; en; ec] ->
      { p_content = PText (codec_of_string g, codec_of_string l, codec_of_string sj, codec_of_string u);
        p_mode = ozi mode; p_enc = enc_of en ec }
  | _ -> failwith ("bad part " ^ s)

let obool s = if s = "-" then None else Some (s = "1")

let string_of_segment s =
  Printf.sprintf "%d,%d,%s" (int_of_z s.s_mode) (int_of_z s.s_count) (string_of_bits s.s_bits)
let code_body c =
  Printf.sprintf "%d %s %d %s %s" (int_of_z c.c_version) (soz c.c_error) (int_of_z c.c_mask)
    (string_of_rows c.c_matrix) (S.concat ";" (L.map string_of_segment c.c_segments))
let string_of_code c = "OK " ^ code_body c

let string_of_level = function None -> "-" | Some LvL -> "L" | Some LvM -> "M" | Some LvQ -> "Q" | Some LvH -> "H"
let string_of_dmode = function DNumeric -> "numeric" | DAlnum -> "alphanumeric" | DByte -> "byte" | DKanji -> "kanji" | DHanzi -> "hanzi"
let hex_of_zlist l = S.concat "" (L.map (fun z -> Printf.sprintf "%02x" (int_of_z z)) l)
let string_of_dseg s =
  Printf.sprintf "%s,%s,%d,%s" (string_of_dmode s.d_mode) (soz s.d_eci) (int_of_z s.d_count) (hex_of_zlist s.d_bytes)
let string_of_decoded d =
  Printf.sprintf "OK %d %s %d %s %s %s %s" (int_of_z d.dec_version) (string_of_level d.dec_level) (int_of_z d.dec_mask)
    (match d.dec_sa with None -> "-" | Some ((a, b), c) -> Printf.sprintf "%d,%d,%d" (int_of_z a) (int_of_z b) (int_of_z c))
    (if d.dec_segments = [] then "-" else S.concat ";" (L.map string_of_dseg d.dec_segments))
    (hex_of_zlist d.dec_data_codewords) (string_of_bits d.dec_tail)

let segs_of_string s =
  if s = "-" then [] else
  L.map (fun t -> match S.split_on_char ',' t with
                     | [m; c; e] -> ((zi m, zi c), e = "1") | _ -> failwith "bad seg") (S.split_on_char ';' s)

(* sequence content:  B;hex  |  T;g,l,s,u|g,l,s,u|...  (one group per character) *)
let scontent_of_string s =
  match S.split_on_char ';' s with
  | ["B"; hex] -> SBytes (bytes_of_hex hex)
  | ["T"; chars] ->
      SText (if chars = "-" then [] else
             L.map (fun c -> match S.split_on_char ',' c with
                                | [g; l; sj; u] -> { ch_given = codec_of_string g; ch_latin1 = codec_of_string l;
                                                     ch_sjis = codec_of_string sj; ch_utf8 = codec_of_string u }
                                | _ -> failwith "bad char") (S.split_on_char '|' chars))
  | _ -> failwith "bad content"

(* python values: N | B0 | B1 | I<int> | S<hex of code points (ASCII)> *)
let pyval_of_string s =
  if s = "N" then VNone else
  match (S.get s (0)) with
  | 'B' -> VBool (s = "B1")
  | 'I' -> VInt (zi (S.sub s 1 (S.length s - 1)))
  | 'S' -> VStr (bytes_of_hex (S.sub s 1 (S.length s - 1)))
  | _ -> failwith "bad pyval"
let string_of_ozres = function Ok o -> "OK " ^ soz o | Err e -> "ERR " ^ string_of_exn e

(* ---- serializer side ---- *)
let cps_of_string s = if s = "-" || s = "" then [] else L.map zi (S.split_on_char '.' s)
let string_of_cps l = if l = [] then "-" else S.concat "." (L.map (fun z -> string_of_int (int_of_z z)) l)
let zrows_of_string s =
  if s = "-" then [] else
  L.map (fun r -> L.init (S.length r) (fun i -> z_of_int (Char.code (S.get r i) - 48))) (S.split_on_char '/' s)
let string_of_zgrid rows = S.concat "/" (L.map (fun r -> S.concat "" (L.map (fun z -> string_of_int (int_of_z z)) r)) rows)
(* colour token: N | S:<cps> | T:<ints>   ;   option token: - (not given) or a colour token *)
let color_of_string s : Color.pycolor option =
  if s = "N" then None
  else if S.length s >= 2 && S.sub s 0 2 = "S:" then Some (Color.CStr (cps_of_string (S.sub s 2 (S.length s - 2))))
  else if S.length s >= 2 && S.sub s 0 2 = "T:" then Some (Color.CTuple (cps_of_string (S.sub s 2 (S.length s - 2))))
  else failwith ("bad colour " ^ s)
let ocolor_opt s = if s = "-" then None else Some (color_of_string s)
let color_opts_of = function
  | [d; l; fd; fl; dd; dl; vd; vl; fmd; fml; ad; al; td; tl; sep; dm; qz] ->
      { Color.o_dark = color_of_string d; o_light = color_of_string l; o_finder_dark = ocolor_opt fd; o_finder_light = ocolor_opt fl;
        o_data_dark = ocolor_opt dd; o_data_light = ocolor_opt dl; o_version_dark = ocolor_opt vd; o_version_light = ocolor_opt vl;
        o_format_dark = ocolor_opt fmd; o_format_light = ocolor_opt fml; o_alignment_dark = ocolor_opt ad; o_alignment_light = ocolor_opt al;
        o_timing_dark = ocolor_opt td; o_timing_light = ocolor_opt tl; o_separator = ocolor_opt sep; o_dark_module = ocolor_opt dm;
        o_quiet_zone = ocolor_opt qz }
  | _ -> failwith "colour options: 17 tokens expected"
let res_bytes = function Ok l -> "OK " ^ (if l = [] then "-" else hex_of_zlist l) | Err e -> "ERR " ^ string_of_exn e
let res_cps = function Ok l -> "OK " ^ string_of_cps l | Err e -> "ERR " ^ string_of_exn e
let string_of_pixels rows =
  S.concat "/" (L.map (fun r -> S.concat "," (L.map (fun px -> S.concat "." (L.map (fun z -> string_of_int (int_of_z z)) px)) r)) rows)

let handle_ser toks =
  match toks with
  | ["pixel_grid"; rows; size; scale; border] ->
      Some (string_of_zgrid (Pixel.pixel_grid (zrows_of_string rows) (zi size) (zi scale) (zi border)))
  | ["w_txt"; rows; size; border; dark; light] ->
      Some (res_cps (TextFmt.write_txt (zrows_of_string rows) (zi size) (zi size) (ozi border) (cps_of_string dark) (cps_of_string light)))
  | ["w_xbm"; rows; size; scale; border; name] ->
      Some (res_cps (TextFmt.write_xbm (zrows_of_string rows) (zi size) (zi size) (zi scale) (ozi border) (cps_of_string name)))
  | ["w_xpm"; rows; size; scale; border; dark; light; name] ->
      Some (res_cps (TextFmt.write_xpm (zrows_of_string rows) (zi size) (zi size) (zi scale) (ozi border) (color_of_string dark) (color_of_string light) (cps_of_string name)))
  | ["w_term"; rows; size; border] -> Some (res_cps (TextFmt.write_terminal (zrows_of_string rows) (zi size) (zi size) (ozi border)))
  | ["w_termc"; rows; size; border] -> Some (res_cps (TextFmt.write_terminal_compact (zrows_of_string rows) (zi size) (zi size) (ozi border)))
  | ["r_txt"; dark; light; text] ->
      Some (match TextFmtReader.read_txt (cps_of_string dark) (cps_of_string light) (cps_of_string text) with
            | Some g -> "OK " ^ string_of_zgrid g | None -> "NONE")
  | ["r_xbm"; text] ->
      Some (match TextFmtReader.read_xbm (cps_of_string text) with
            | Some ((w, h), g) -> Printf.sprintf "OK %d %d %s" (int_of_z w) (int_of_z h) (string_of_zgrid g) | None -> "NONE")
  | ["r_xpm"; text] ->
      Some (match TextFmtReader.read_xpm (cps_of_string text) with
            | Some ((w, h), g) -> Printf.sprintf "OK %d %d %s" (int_of_z w) (int_of_z h) (string_of_pixels g) | None -> "NONE")
  | ["r_term"; text] ->
      Some (match TextFmtReader.read_terminal (cps_of_string text) with Some g -> "OK " ^ string_of_zgrid g | None -> "NONE")
  | ["r_termc"; text] ->
      Some (match TextFmtReader.read_terminal_compact (cps_of_string text) with Some g -> "OK " ^ string_of_zgrid g | None -> "NONE")
  | "png_parts" :: rows :: size :: scale :: border :: dpi :: opts ->
      let sz = zi size in
      Some (match Png.png_parts (zrows_of_string rows) (Classify.align_aux_matrix sz) sz (zi scale) (ozi border) (ozi dpi) (color_opts_of opts) with
            | Ok ((pre, raw), iend) ->
                "OK " ^ (if pre = [] then "-" else S.concat "," (L.map hex_of_zlist pre)) ^ " " ^ (if raw = [] then "-" else hex_of_zlist raw) ^ " " ^ hex_of_zlist iend
            | Err e -> "ERR " ^ string_of_exn e)
  | ["r_png"; file; comp; raw] ->
      let c = bytes_of_hex comp and r = bytes_of_hex raw in
      let inflate l = if l = c then Some r else None in
      Some (match PngReader.read_png inflate (bytes_of_hex file) with
            | Some ((w, h), px) ->
                Printf.sprintf "OK %d %d %s" (int_of_z w) (int_of_z h)
                  (S.concat "/" (L.map (fun row -> S.concat "," (L.map (fun (((a, b), c), d) ->
                     Printf.sprintf "%d.%d.%d.%d" (int_of_z a) (int_of_z b) (int_of_z c) (int_of_z d)) row)) px))
            | None -> "NONE")
  | ["r_pbm"; file] ->
      Some (match NetpbmReader.read_pbm (bytes_of_hex file) with
            | Some ((w, h), px) -> Printf.sprintf "OK %d %d %s" (int_of_z w) (int_of_z h) (string_of_pixels px) | None -> "NONE")
  | ["r_ppm"; file] ->
      Some (match NetpbmReader.read_ppm_full (bytes_of_hex file) with
            | Some (((w, h), mx), px) -> Printf.sprintf "OK %d %d %d %s" (int_of_z w) (int_of_z h) (int_of_z mx) (string_of_pixels px) | None -> "NONE")
  | ["r_pam"; file] ->
      Some (match NetpbmReader.read_pam_full (bytes_of_hex file) with
            | Some i -> Printf.sprintf "OK %d %d %d %d %s %s" (int_of_z i.NetpbmReader.pi_width) (int_of_z i.NetpbmReader.pi_height)
                          (int_of_z i.NetpbmReader.pi_depth) (int_of_z i.NetpbmReader.pi_maxval) (string_of_cps i.NetpbmReader.pi_tupltype)
                          (string_of_pixels i.NetpbmReader.pi_pixels)
            | None -> "NONE")
  | _ -> None

let handle toks =
  match handle_ser toks with Some a -> a | None ->
  match toks with
  | ["classify"; size; border; rows] ->
      string_of_zrows (classify_matrix (zi size) (zi border) (rows_of_string rows))
  | ["align_aux"; size] -> string_of_zrows (align_aux_matrix (zi size))
  | ["kf_fmt_col"; size; i; j] -> string_of_bool (kf_fmt_col (zi size) (zi i) (zi j))
  | "encode" :: error :: version :: mode :: mask :: eci :: micro :: boost :: parts ->
      (match encode (L.map part_of_string parts) (ozi error) (ozi version) (ozi mode) (ozi mask) (eci = "1") (obool micro) (boost = "1") with
       | Ok c -> string_of_code c
       | Err e -> "ERR " ^ string_of_exn e)
  | ["decode"; rows] ->
      (match decode_symbol (rows_of_string rows) with Some d -> string_of_decoded d | None -> "NONE")
  | ["c02"; rows; v; l; mask] -> string_of_zlist (c02_check (rows_of_string rows) (zi v) (ozi l) (zi mask))
  | ["c03"; rows] -> string_of_zlist (c03_check (rows_of_string rows))
  | ["c13"; rows] ->
      (match c13_check (rows_of_string rows) with
       | None -> "NONE"
       | Some ((((iso, kf), v), cap), len) ->
           Printf.sprintf "%s %s %d %d %d" (string_of_bool iso) (string_of_bool kf) (int_of_z v) (int_of_z cap) (int_of_z len))
  | ["kf_pad"; v; cap; len] -> string_of_bool (kf_pad_aligned (zi v) (zi cap) (zi len))
  | ["bestmask"; rows; used] ->
      let r = rows_of_string rows in
      Printf.sprintf "%d %s" (int_of_z (iso_best_mask r (zi used))) (string_of_zlist (candidate_scores r (zi used)))
  | ["iso_penalty"; rows] -> string_of_int (int_of_z (iso_penalty (rows_of_string rows)))
  | ["iso_micro_score"; rows] -> string_of_int (int_of_z (iso_micro_score (rows_of_string rows)))
  | ["spec_mode"; hex] -> string_of_int (int_of_z (spec_mode (bytes_of_hex hex)))
  | ["spec_version"; micro; eci; l; sa; segs] ->
      (match spec_version (obool micro) (eci = "1") (ozi l) (segs_of_string segs) (sa = "1") with
       | Some v -> string_of_int (int_of_z v) | None -> "NONE")
  | ["spec_boost"; v; req; sa; segs] -> string_of_int (int_of_z (spec_boost (zi v) (zi req) (segs_of_string segs) (sa = "1")))
  | ["spec_bits"; v; sa; segs] -> string_of_int (int_of_z (spec_bits (zi v) (segs_of_string segs) (sa = "1")))
  | ["encseq"; error; version; mode; mask; en; ec; eci; boost; count; content] ->
      (match encode_sequence (scontent_of_string content) (ozi error) (ozi version) (ozi mode) (ozi mask) (enc_of en ec)
               (eci = "1") (boost = "1") (ozi count) with
       | Ok cs -> "OK " ^ S.concat " | " (L.map code_body cs)
       | Err e -> "ERR " ^ string_of_exn e)
  | "encargs" :: error :: version :: mode :: mask :: eci :: micro :: boost :: parts ->
      let ps = L.map part_of_string parts in
      (match encode_args (fun m -> L.map (fun p -> { p with p_mode = m }) ps) (pyval_of_string error) (pyval_of_string version)
               (pyval_of_string mode) (pyval_of_string mask) (eci = "1") (pyval_of_string micro) (boost = "1") with
       | Ok c -> string_of_code c
       | Err e -> "ERR " ^ string_of_exn e)
  | ["norm_version"; v] -> string_of_ozres (normalize_version (pyval_of_string v))
  | ["norm_mode"; v] -> string_of_ozres (normalize_mode (pyval_of_string v))
  | ["norm_mask"; v; micro] -> string_of_ozres (normalize_mask (pyval_of_string v) (micro = "1"))
  | ["norm_error"; v; accept] -> string_of_ozres (normalize_errorlevel (pyval_of_string v) (accept = "1"))
  | ["find_mode"; hex] -> string_of_int (int_of_z (find_mode (bytes_of_hex hex)))
  | ["mask_scores"; rows] ->
      let r = rows_of_string rows in
      let (((a, b), c), d) = mask_scores (z_of_int (L.length r)) r in
      Printf.sprintf "%d,%d,%d,%d" (int_of_z a) (int_of_z b) (int_of_z c) (int_of_z d)
  | ["micro_score"; rows] ->
      let r = rows_of_string rows in string_of_int (int_of_z (evaluate_micro_mask (z_of_int (L.length r)) r))
  | _ -> "ERR unknown request"

let () =
  try
    while true do
      let line = input_line stdin in
      let toks = L.filter (fun s -> s <> "") (S.split_on_char ' ' line) in
      let ans = try handle toks with e -> "ERR " ^ Printexc.to_string e in
      print_string ans; print_char '\n'
    done
  with End_of_file -> ()
