(* Line protocol around the extracted Gallina model / specification oracles.
   request:  <command> <arg> ...     ints in decimal, bit strings as 0/1 characters, rows joined by '/'
   answer :  one line per request *)
open Model

let rec pos_of_int n = if n = 1 then XH else if n land 1 = 0 then XO (pos_of_int (n lsr 1)) else XI (pos_of_int (n lsr 1))
let z_of_int n = if n = 0 then Z0 else if n > 0 then Zpos (pos_of_int n) else Zneg (pos_of_int (-n))
let rec int_of_pos = function XH -> 1 | XO p -> 2 * int_of_pos p | XI p -> 2 * int_of_pos p + 1
let int_of_z = function Z0 -> 0 | Zpos p -> int_of_pos p | Zneg p -> - (int_of_pos p)

let bits_of_string s = List.init (String.length s) (fun i -> s.[i] = '1')
let rows_of_string s = if s = "-" then [] else List.map bits_of_string (String.split_on_char '/' s)
let string_of_zrows rows =
  String.concat "/" (List.map (fun r -> String.concat "," (List.map (fun z -> string_of_int (int_of_z z)) r)) rows)
let zlist_of_string s = if s = "-" || s = "" then [] else List.map (fun t -> z_of_int (int_of_string t)) (String.split_on_char ',' s)
let string_of_zlist l = if l = [] then "-" else String.concat "," (List.map (fun z -> string_of_int (int_of_z z)) l)
let string_of_bits l = if l = [] then "-" else String.concat "" (List.map (fun b -> if b then "1" else "0") l)
let string_of_bool b = if b then "1" else "0"

let handle toks =
  match toks with
  | ["classify"; size; border; rows] ->
      string_of_zrows (classify_matrix (z_of_int (int_of_string size)) (z_of_int (int_of_string border)) (rows_of_string rows))
  | ["align_aux"; size] -> string_of_zrows (align_aux_matrix (z_of_int (int_of_string size)))
  | ["kf_fmt_col"; size; i; j] ->
      string_of_bool (kf_fmt_col (z_of_int (int_of_string size)) (z_of_int (int_of_string i)) (z_of_int (int_of_string j)))
  | _ -> "ERR unknown request"

let () =
  try
    while true do
      let line = input_line stdin in
      let toks = List.filter (fun s -> s <> "") (String.split_on_char ' ' line) in
      let ans = try handle toks with e -> "ERR " ^ Printexc.to_string e in
      print_string ans; print_char '\n'
    done
  with End_of_file -> ()
