(* Line protocol around the extracted Gallina model / specification oracles.
   request:  <command> <arg> ...     ints in decimal, bit strings as 0/1 characters, rows joined by '/'
   answer :  one line per request *)
open Model

let rec pos_of_int n = if n = 1 then XH else if n land 1 = 0 then XO (pos_of_int (n lsr 1)) else XI (pos_of_int (n lsr 1))
let z_of_int n = if n = 0 then Z0 else if n > 0 then Zpos (pos_of_int n) else Zneg (pos_of_int (-n))
let rec int_of_pos = function XH -> 1 | XO p -> 2 * int_of_pos p | XI p -> 2 * int_of_pos p + 1
let int_of_z = function Z0 -> 0 | Zpos p -> int_of_pos p | Zneg p -> - (int_of_pos p)
let zi s = z_of_int (int_of_string s)
let ozi s = if s = "-" then None else Some (zi s)
let soz = function None -> "-" | Some z -> string_of_int (int_of_z z)

(* Coq strings (inductive, no ExtrOcamlString) *)
let ascii_of_char c =
  let n = Char.code c in
  Ascii (n land 1 <> 0, n land 2 <> 0, n land 4 <> 0, n land 8 <> 0, n land 16 <> 0, n land 32 <> 0, n land 64 <> 0, n land 128 <> 0)
let coq_string s =
  let r = ref EmptyString in
  for i = String.length s - 1 downto 0 do r := String (ascii_of_char s.[i], !r) done; !r

let bits_of_string s = if s = "-" then [] else List.init (String.length s) (fun i -> s.[i] = '1')
let rows_of_string s = if s = "-" then [] else List.map bits_of_string (String.split_on_char '/' s)
let string_of_zrows rows =
  String.concat "/" (List.map (fun r -> String.concat "," (List.map (fun z -> string_of_int (int_of_z z)) r)) rows)
let zlist_of_string s = if s = "-" || s = "" then [] else List.map zi (String.split_on_char ',' s)
let string_of_zlist l = if l = [] then "-" else String.concat "," (List.map (fun z -> string_of_int (int_of_z z)) l)
let string_of_bits l = if l = [] then "-" else String.concat "" (List.map (fun b -> if b then "1" else "0") l)
let string_of_rows rows = String.concat "/" (List.map string_of_bits rows)
let string_of_bool b = if b then "1" else "0"
let bytes_of_hex s =
  if s = "-" then [] else
  List.init (String.length s / 2) (fun i -> z_of_int (int_of_string ("0x" ^ String.sub s (2 * i) 2)))

let string_of_exn = function
  | ValueError -> "ValueError" | DataOverflow -> "DataOverflow" | UnicodeErr -> "UnicodeErr" | LookupErr -> "LookupErr"
  | IndexErr -> "IndexError" | KeyErr -> "KeyError" | TypeErr -> "TypeError" | AssertErr -> "AssertionError"
  | AttributeErr -> "AttributeError"

let codec_of_string s =
  if s = "U" then CRUnicode else if s = "L" then CRLookup
  else CROk (bytes_of_hex (String.sub s 1 (String.length s - 1)))
let enc_of name canon =
  if name = "-" then None
  else Some { e_name = coq_string name; e_canon = (if canon = "-" then None else Some (coq_string canon)) }

(* part token:  B;hex;mode;encname;canon   |   T;given;latin1;sjis;utf8;mode;encname;canon *)
let part_of_string s =
  match String.split_on_char ';' s with
  | ["B"; hex; mode; en; ec] -> { p_content = PBytes (bytes_of_hex hex); p_mode = ozi mode; p_enc = enc_of en ec }
  | ["T"; g; l; sj; u; mode; en; ec] ->
      { p_content = PText (codec_of_string g, codec_of_string l, codec_of_string sj, codec_of_string u);
        p_mode = ozi mode; p_enc = enc_of en ec }
  | _ -> failwith ("bad part " ^ s)

let obool s = if s = "-" then None else Some (s = "1")

let string_of_segment s =
  Printf.sprintf "%d,%d,%s" (int_of_z s.s_mode) (int_of_z s.s_count) (string_of_bits s.s_bits)
let code_body c =
  Printf.sprintf "%d %s %d %s %s" (int_of_z c.c_version) (soz c.c_error) (int_of_z c.c_mask)
    (string_of_rows c.c_matrix) (String.concat ";" (List.map string_of_segment c.c_segments))
let string_of_code c = "OK " ^ code_body c

let string_of_level = function None -> "-" | Some LvL -> "L" | Some LvM -> "M" | Some LvQ -> "Q" | Some LvH -> "H"
let string_of_dmode = function DNumeric -> "numeric" | DAlnum -> "alphanumeric" | DByte -> "byte" | DKanji -> "kanji" | DHanzi -> "hanzi"
let hex_of_zlist l = String.concat "" (List.map (fun z -> Printf.sprintf "%02x" (int_of_z z)) l)
let string_of_dseg s =
  Printf.sprintf "%s,%s,%d,%s" (string_of_dmode s.d_mode) (soz s.d_eci) (int_of_z s.d_count) (hex_of_zlist s.d_bytes)
let string_of_decoded d =
  Printf.sprintf "OK %d %s %d %s %s %s %s" (int_of_z d.dec_version) (string_of_level d.dec_level) (int_of_z d.dec_mask)
    (match d.dec_sa with None -> "-" | Some ((a, b), c) -> Printf.sprintf "%d,%d,%d" (int_of_z a) (int_of_z b) (int_of_z c))
    (if d.dec_segments = [] then "-" else String.concat ";" (List.map string_of_dseg d.dec_segments))
    (hex_of_zlist d.dec_data_codewords) (string_of_bits d.dec_tail)

let segs_of_string s =
  if s = "-" then [] else
  List.map (fun t -> match String.split_on_char ',' t with
                     | [m; c; e] -> ((zi m, zi c), e = "1") | _ -> failwith "bad seg") (String.split_on_char ';' s)

(* sequence content:  B;hex  |  T;g,l,s,u|g,l,s,u|...  (one group per character) *)
let scontent_of_string s =
  match String.split_on_char ';' s with
  | ["B"; hex] -> SBytes (bytes_of_hex hex)
  | ["T"; chars] ->
      SText (if chars = "-" then [] else
             List.map (fun c -> match String.split_on_char ',' c with
                                | [g; l; sj; u] -> { ch_given = codec_of_string g; ch_latin1 = codec_of_string l;
                                                     ch_sjis = codec_of_string sj; ch_utf8 = codec_of_string u }
                                | _ -> failwith "bad char") (String.split_on_char '|' chars))
  | _ -> failwith "bad content"

(* python values: N | B0 | B1 | I<int> | S<hex of code points (ASCII)> *)
let pyval_of_string s =
  if s = "N" then VNone else
  match s.[0] with
  | 'B' -> VBool (s = "B1")
  | 'I' -> VInt (zi (String.sub s 1 (String.length s - 1)))
  | 'S' -> VStr (bytes_of_hex (String.sub s 1 (String.length s - 1)))
  | _ -> failwith "bad pyval"
let string_of_ozres = function Ok o -> "OK " ^ soz o | Err e -> "ERR " ^ string_of_exn e

let handle toks =
  match toks with
  | ["classify"; size; border; rows] ->
      string_of_zrows (classify_matrix (zi size) (zi border) (rows_of_string rows))
  | ["align_aux"; size] -> string_of_zrows (align_aux_matrix (zi size))
  | ["kf_fmt_col"; size; i; j] -> string_of_bool (kf_fmt_col (zi size) (zi i) (zi j))
  | "encode" :: error :: version :: mode :: mask :: eci :: micro :: boost :: parts ->
      (match encode (List.map part_of_string parts) (ozi error) (ozi version) (ozi mode) (ozi mask) (eci = "1") (obool micro) (boost = "1") with
       | Ok c -> string_of_code c
       | Err e -> "ERR " ^ string_of_exn e)
  | ["decode"; rows] ->
      (match decode_symbol (rows_of_string rows) with Some d -> string_of_decoded d | None -> "NONE")
  | ["c02"; rows; v; l; mask] -> string_of_zlist (c02_check (rows_of_string rows) (zi v) (ozi l) (zi mask))
  | ["c03"; rows] -> string_of_zlist (c03_check (rows_of_string rows))
  | ["c13"; rows] ->
      (match c13_check (rows_of_string rows) with
       | None -> "NONE"
       | Some ((((iso, kf), v), cap), len) ->
           Printf.sprintf "%s %s %d %d %d" (string_of_bool iso) (string_of_bool kf) (int_of_z v) (int_of_z cap) (int_of_z len))
  | ["kf_pad"; v; cap; len] -> string_of_bool (kf_pad_aligned (zi v) (zi cap) (zi len))
  | ["bestmask"; rows; used] ->
      let r = rows_of_string rows in
      Printf.sprintf "%d %s" (int_of_z (iso_best_mask r (zi used))) (string_of_zlist (candidate_scores r (zi used)))
  | ["iso_penalty"; rows] -> string_of_int (int_of_z (iso_penalty (rows_of_string rows)))
  | ["iso_micro_score"; rows] -> string_of_int (int_of_z (iso_micro_score (rows_of_string rows)))
  | ["spec_mode"; hex] -> string_of_int (int_of_z (spec_mode (bytes_of_hex hex)))
  | ["spec_version"; micro; eci; l; sa; segs] ->
      (match spec_version (obool micro) (eci = "1") (ozi l) (segs_of_string segs) (sa = "1") with
       | Some v -> string_of_int (int_of_z v) | None -> "NONE")
  | ["spec_boost"; v; req; sa; segs] -> string_of_int (int_of_z (spec_boost (zi v) (zi req) (segs_of_string segs) (sa = "1")))
  | ["spec_bits"; v; sa; segs] -> string_of_int (int_of_z (spec_bits (zi v) (segs_of_string segs) (sa = "1")))
  | ["encseq"; error; version; mode; mask; en; ec; eci; boost; count; content] ->
      (match encode_sequence (scontent_of_string content) (ozi error) (ozi version) (ozi mode) (ozi mask) (enc_of en ec)
               (eci = "1") (boost = "1") (ozi count) with
       | Ok cs -> "OK " ^ String.concat " | " (List.map code_body cs)
       | Err e -> "ERR " ^ string_of_exn e)
  | "encargs" :: error :: version :: mode :: mask :: eci :: micro :: boost :: parts ->
      let ps = List.map part_of_string parts in
      (match encode_args (fun m -> List.map (fun p -> { p with p_mode = m }) ps) (pyval_of_string error) (pyval_of_string version)
               (pyval_of_string mode) (pyval_of_string mask) (eci = "1") (pyval_of_string micro) (boost = "1") with
       | Ok c -> string_of_code c
       | Err e -> "ERR " ^ string_of_exn e)
  | ["norm_version"; v] -> string_of_ozres (normalize_version (pyval_of_string v))
  | ["norm_mode"; v] -> string_of_ozres (normalize_mode (pyval_of_string v))
  | ["norm_mask"; v; micro] -> string_of_ozres (normalize_mask (pyval_of_string v) (micro = "1"))
  | ["norm_error"; v; accept] -> string_of_ozres (normalize_errorlevel (pyval_of_string v) (accept = "1"))
  | ["find_mode"; hex] -> string_of_int (int_of_z (find_mode (bytes_of_hex hex)))
  | ["mask_scores"; rows] ->
      let r = rows_of_string rows in
      let (((a, b), c), d) = mask_scores (z_of_int (List.length r)) r in
      Printf.sprintf "%d,%d,%d,%d" (int_of_z a) (int_of_z b) (int_of_z c) (int_of_z d)
  | ["micro_score"; rows] ->
      let r = rows_of_string rows in string_of_int (int_of_z (evaluate_micro_mask (z_of_int (List.length r)) r))
  | _ -> "ERR unknown request"

let () =
  try
    while true do
      let line = input_line stdin in
      let toks = List.filter (fun s -> s <> "") (String.split_on_char ' ' line) in
      let ans = try handle toks with e -> "ERR " ^ Printexc.to_string e in
      print_string ans; print_char '\n'
    done
  with End_of_file -> ()
