#!/bin/sh
# usage: seedtest.sh <PROPERTY> <patch.diff> [demo.py]   -- applies a seeded change to /repo, runs the check, reverts
P=$1; PATCH=$2; DEMO=$3
cd /repo || exit 2
git diff --quiet || { echo "repo not clean"; exit 2; }
git apply "$PATCH" || { echo "patch does not apply"; exit 2; }
if [ -n "$DEMO" ]; then PYTHONPATH=/repo /venv/bin/python "$DEMO" >/tmp/seed_demo.out 2>&1; echo "demo on patched tree: exit $?"; fi
cd /verif && ./check "$P" --tier quick > /tmp/seed_check.out 2>&1; RC=$?
grep -E "^VIOLATION|^KNOWN|quick:" /tmp/seed_check.out | cut -c1-220
echo "check exit $RC"
cd /repo && git checkout -- . && git status --short | head -3
exit 0
