#!/bin/sh
# usage: seedtest.sh <PROPERTY> <patch.diff> [demo.py]
# Applies a seeded change to a scratch worktree of /repo's HEAD (never to /repo itself) and runs the check of a scratch
# COPY of /verif (sources + compiled files, so only what the change touches is rebuilt) pointed at that worktree with
# the development-only variable VERIF_REPO.  Neither /repo, nor /verif/build, /verif/evidence or /verif/replay are
# touched; verdict lines are printed, replay files stay in the copy ($SEED_VERIF/replay).
P=$1; PATCH=$2; DEMO=$3
WT=${SEED_WT:-/tmp/seedwt}
SV=${SEED_VERIF:-/tmp/vseed}
git -C /repo worktree remove --force "$WT" >/dev/null 2>&1
git -C /repo worktree add -q --detach "$WT" HEAD || exit 2
git -C /repo diff --quiet || git -C /repo diff | git -C "$WT" apply   # carry uncommitted /repo state, if any
git -C "$WT" apply "$PATCH" || { echo "patch does not apply"; git -C /repo worktree remove --force "$WT"; exit 2; }
if [ -n "$DEMO" ]; then PYTHONPATH=$WT /venv/bin/python "$DEMO" >/tmp/seed_demo.out 2>&1; echo "demo on patched tree: exit $?"; fi
if [ -z "$SEED_KEEP" ] || [ ! -d "$SV" ]; then
  mkdir -p "$SV" && rsync -a --delete --exclude .git --exclude replay /verif/ "$SV"/
fi
cd "$SV" && VERIF_REPO=$WT ./check "$P" --tier quick > /tmp/seed_check_$P.out 2>&1; RC=$?
grep -E "^VIOLATION|^KNOWN|quick:|Traceback|Error" /tmp/seed_check_$P.out | cut -c1-220
echo "check exit $RC"
git -C /repo worktree remove --force "$WT"
exit 0
