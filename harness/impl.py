"""Access to the implementation under test (/repo/segno), with defensive wrappers: a missing internal
function is reported as 'unavailable' (never an alarm by itself)."""
import os
import sys

_REPO = os.environ.get('VERIF_REPO') or '/repo'
assert os.environ.get('PYTHONPATH', '').split(':')[0] == _REPO, 'PYTHONPATH must start with ' + _REPO
import segno  # noqa: E402
from segno import encoder, utils, consts, writers  # noqa: E402

assert os.path.realpath(segno.__file__).startswith(os.path.realpath(_REPO) + '/'), segno.__file__


def exn_class(e):
    if isinstance(e, encoder.DataOverflowError):
        return 'DataOverflow'
    if isinstance(e, UnicodeError):
        return 'UnicodeErr'
    if isinstance(e, ValueError):
        return 'ValueError'
    if isinstance(e, LookupError) and not isinstance(e, (IndexError, KeyError)):
        return 'LookupErr'
    return type(e).__name__


def call(f):
    try:
        return ('ok', f())
    except Exception as e:  # noqa: BLE001
        return ('exn', exn_class(e), str(e)[:200])


DIGITS = b'0123456789'
ALNUM = bytes(consts.ALPHANUMERIC_CHARS)


def random_content(rng, mode, n):
    if mode == 'numeric':
        return bytes(rng.choice(DIGITS) for _ in range(n))
    if mode == 'alphanumeric':
        return bytes(rng.choice(ALNUM) for _ in range(n))
    return bytes(rng.randrange(256) for _ in range(n))


def random_symbol(rng, version, error=None, mask='rand'):
    """A real symbol of exactly `version` with random content; None if it cannot be made."""
    micro = version < 1
    levels = {-3: [None], -2: ['L', 'M'], -1: ['L', 'M'], 0: ['L', 'M', 'Q']}.get(version, ['L', 'M', 'Q', 'H'])
    if error is None:
        error = rng.choice(levels)
    if mask == 'rand':
        mask = rng.randrange(4 if micro else 8)
    ver = {-3: 'M1', -2: 'M2', -1: 'M3', 0: 'M4'}.get(version, version)
    n = rng.randrange(1, 5)
    try:
        return encoder.encode(random_content(rng, 'numeric', n), error=error, version=ver, mask=mask, boost_error=False)
    except Exception:  # noqa: BLE001
        return None


def alignment_aux_matrix(size):
    try:
        m = encoder.make_matrix(size, size, reserve_regions=False, add_timing=False)
        encoder.add_alignment_patterns(m, size, size)
        return [list(r) for r in m]
    except Exception:  # noqa: BLE001
        return None
