"""Shared machinery for the encoder-side properties (C01-C07, C13): run cases on the implementation,
on the extracted model (correspondence) and evaluate the extracted specification oracles on the
IMPLEMENTATION's symbols."""
import codecs

import common
import enc

# ISO/IEC 18004 / AIM ECI assignment numbers (independent of segno.consts), by Python codec canonical name
ECI_NUMBERS = {'cp437': 1, 'iso8859-1': 3, 'iso8859-2': 4, 'iso8859-3': 5, 'iso8859-4': 6, 'iso8859-5': 7,
               'iso8859-6': 8, 'iso8859-7': 9, 'iso8859-8': 10, 'iso8859-9': 11, 'iso8859-10': 12, 'iso8859-11': 13,
               'iso8859-13': 15, 'iso8859-14': 16, 'iso8859-15': 17, 'iso8859-16': 18, 'shift_jis': 20,
               'cp1250': 21, 'cp1251': 22, 'cp1252': 23, 'cp1256': 24, 'utf-16-be': 25, 'utf-8': 26, 'ascii': 27,
               'big5': 28, 'gb18030': 29, 'gbk': 29, 'euc_kr': 30}
MODE_NAMES = {1: 'numeric', 2: 'alphanumeric', 4: 'byte', 8: 'kanji', 13: 'hanzi'}


def expected_parts(case):
    """[(bytes, effective encoding name or None, requested mode or None)] by the documented policy,
    computed with Python's codecs independently of segno.  Returns None if a codec refuses (then the
    implementation must refuse too)."""
    out = []
    for c, m, e in enc.parts_of(case['content'], case.get('mode'), case.get('encoding')):
        m = enc.MODES.get(m, m)
        if m == 13:
            e = 'gb2312'
        if isinstance(c, bytes):
            out.append((c, e or 'iso-8859-1', m))
            continue
        text = str(c)
        try:
            if e is not None:
                out.append((text.encode(e), e, m))
            else:
                for cand in ('iso-8859-1', 'shift_jis', 'utf-8'):
                    try:
                        out.append((text.encode(cand), cand, m))
                        break
                    except UnicodeError:
                        continue
                else:
                    return None
        except (UnicodeError, LookupError):
            return None
    return out


def parse_decoded(ans):
    """OK v L mask sa segs dcw tail"""
    if not ans.startswith('OK '):
        return None
    t = ans.split(' ')
    segs = []
    if t[5] != '-':
        for s in t[5].split(';'):
            mode, eci, count, hx = s.split(',')
            segs.append({'mode': mode, 'eci': None if eci == '-' else int(eci), 'count': int(count), 'bytes': bytes.fromhex(hx)})
    return {'version': int(t[1]), 'level': None if t[2] == '-' else t[2], 'mask': int(t[3]),
            'sa': None if t[4] == '-' else tuple(int(x) for x in t[4].split(',')),
            'segments': segs, 'dcw': t[6], 'tail': t[7]}


LEVEL_OF_CONST = {1: 'L', 0: 'M', 3: 'Q', 2: 'H', None: None}


def check_c01(case, code, dec):
    """Returns a failure description or None."""
    if dec is None:
        return 'the reference decoder cannot read the symbol'
    exp = expected_parts(case)
    if exp is None:
        return 'symbol returned although the codec refuses the content'
    want = b''.join(b for b, _, _ in exp)
    got = b''.join(s['bytes'] for s in dec['segments'])
    if got != want:
        return 'decoded payload %s != content bytes %s' % (got.hex(), want.hex())
    if sum(s['count'] for s in dec['segments'] if s['mode'] in ('numeric', 'alphanumeric', 'byte')) + \
            2 * sum(s['count'] for s in dec['segments'] if s['mode'] in ('kanji', 'hanzi')) != len(want):
        return 'character counts do not add up to the content length'
    if dec['sa'] is not None and not case.get('_sa'):
        return 'unexpected Structured Append header'
    eci_on = bool(case.get('eci')) and dec['version'] > 0
    # walk decoded segments against parts by byte offset
    bounds, pos = [], 0
    for b, e, _ in exp:
        bounds.append((pos, pos + len(b), e))
        pos += len(b)
    pos = 0
    for s in dec['segments']:
        a, z = pos, pos + len(s['bytes'])
        pos = z
        if not eci_on:
            if s['eci'] is not None:
                return 'ECI header although eci is off / Micro QR'
            continue
        if s['mode'] != 'byte':
            if s['eci'] is not None:
                return 'ECI header before a non-byte segment'
            continue
        for pa, pz, e in bounds:
            if pa < z and a < pz or (pa == pz and a == z and pa == a):
                name = codecs.lookup(e).name
                if name != 'iso8859-1':
                    want_no = ECI_NUMBERS.get(name)
                    if want_no is None:
                        return 'symbol returned for an encoding without ECI assignment (%s)' % e
                    if s['eci'] != want_no:
                        return 'byte segment in %s carries ECI %r, expected %d' % (e, s['eci'], want_no)
                elif s['eci'] not in (None, 3):
                    return 'ISO-8859-1 segment carries ECI %r' % s['eci']
    return None


def spec_segs(dec):
    """(mode, count, eci) triples of the decoded segments, for the spec_* oracles."""
    key = {'numeric': 1, 'alphanumeric': 2, 'byte': 4, 'kanji': 8, 'hanzi': 13}
    if not dec['segments']:
        return '-'
    return ';'.join('%d,%d,%d' % (key[s['mode']], s['count'], 1 if s['eci'] is not None else 0) for s in dec['segments'])


class Sweep:
    """Runs cases; collects model-vs-implementation differences and decoded implementation symbols."""

    def __init__(self, cases, want=('decode',)):
        self.cases = [c for c in cases if enc.representable(c)]
        self.want = set(want)

    def run(self):
        cases = self.cases
        impl_res = [enc.run_impl(c) for c in cases]
        model = common.oracle_parallel([enc.request(c) for c in cases], chunk=40)
        self.corr = []
        self.rows = []
        for c, (s, code), m in zip(cases, impl_res, model):
            if s != m:
                self.corr.append({'case': enc.describe(c), 'impl': s[:300], 'model': m[:300]})
            self.rows.append({'case': c, 'impl': s, 'code': code, 'model': m})
        ok = [r for r in self.rows if r['code'] is not None]
        reqs = []
        for r in ok:
            rows = enc.rows_str(r['code'].matrix)
            r['rows'] = rows
            for w in sorted(self.want):
                if w == 'decode':
                    reqs.append((r, 'decode', 'decode ' + rows))
                elif w == 'c02':
                    c = r['code']
                    reqs.append((r, 'c02', 'c02 %s %d %s %d' % (rows, c.version, '-' if c.error is None else c.error, c.mask)))
                elif w == 'c03':
                    reqs.append((r, 'c03', 'c03 ' + rows))
                elif w == 'c13':
                    reqs.append((r, 'c13', 'c13 ' + rows))
                elif w == 'bestmask' and r['case'].get('mask') is None:
                    reqs.append((r, 'bestmask', 'bestmask %s %d' % (rows, r['code'].mask)))
        ans = common.oracle_parallel([q for _, _, q in reqs], chunk=10) if reqs else []
        for (r, w, _), a in zip(reqs, ans):
            r[w] = a
            if w == 'decode':
                r['dec'] = parse_decoded(a)
        return self
