#!/venv/bin/python
"""Driver of the segno verification framework.

  ./check --setup                      translator + full Coq build + extraction + OCaml oracle binary
  ./check Cxx [--tier quick|thorough]  one property: rebuild from /repo's current tree, re-check the
                                       proof obligations, run correspondence + oracles, write evidence
  ./check Cxx --replay <file>          re-run one recorded case against the implementation
"""
import argparse
import hashlib
import importlib
import json
import os
import sys
import time

HERE = os.path.dirname(os.path.abspath(__file__))
sys.path.insert(0, HERE)

import common  # noqa: E402
from common import VERIF, BUILD  # noqa: E402


def load_known_findings():
    with open(os.path.join(VERIF, 'known_findings.json')) as f:
        return json.load(f)


def main():
    ap = argparse.ArgumentParser()
    ap.add_argument('prop', nargs='?')
    ap.add_argument('--setup', action='store_true')
    ap.add_argument('--tier', default=os.environ.get('VERIF_TIER', 'quick'), choices=['quick', 'thorough'])
    ap.add_argument('--replay')
    ap.add_argument('--no-build', action='store_true', help='(development) skip the Coq build')
    args = ap.parse_args()
    seed = int(os.environ.get('VERIF_SEED', '0') or 0)

    if args.setup:
        b = common.build_all(clean=False)
        print(json.dumps({'translator': b['translator'], 'failed': b['failed'], 'wall_s': b['wall_s']}, indent=1))
        if b['failed'] or not b['oracle_ok']:
            print('setup: build problems (see build/logs/make.log)')
            sys.exit(1)
        print('setup ok')
        return

    if not args.prop:
        ap.error('property id required')
    pid = args.prop.upper()
    mod = importlib.import_module('props.' + pid.lower())

    if args.replay:
        with open(args.replay) as f:
            rec = json.load(f)
        if 'input' not in rec:
            # a record of kind 'unproved': there is no failing input, only obligations that no longer check
            print('this record names no failing input; obligations that no longer checked when it was written:')
            for b in rec.get('no_longer_checks', []):
                print('  ' + str(b)[:300])
            b = common.build_all(clean=False)
            obl = common.obligations_for(mod.TOP, b)
            print('now: %d/%d obligations discharged%s' % (obl['discharged'], obl['total'], '' if not obl['broken'] else '; still broken: %s' % obl['broken'][:5]))
            sys.exit(1 if obl['broken'] else 0)
        sys.exit(mod.replay(rec))

    t0 = time.time()
    ctx = common.Ctx(pid, args.tier, seed)
    # 1. the tie: regenerate the translated sources, re-check every theorem that depends on them
    if args.no_build:
        b = {'translator': {}, 'failed': [], 'oracle_ok': True, 'wall_s': 0.0, 'skipped': True}
    else:
        b = common.build_all(clean=(args.tier == 'thorough' and os.environ.get('VERIF_CLEAN') == '1'))
    ctx.build = b
    obl = common.obligations_for(mod.TOP, b)
    ctx.obligations = obl
    if args.tier == 'thorough' and not args.no_build and not obl['broken']:
        obl['coqchk'] = common.run_coqchk(mod.TOP)
        for name, res in obl['coqchk'].items():
            if res.get('status') == 'failed':
                obl['broken'].append('coqchk rejects %s: %s' % (name, res.get('tail', '')[:200]))
    # 2. correspondence + oracles (always run: they are what turns a broken obligation into a replay)
    result = mod.run(ctx)
    # 3. verdict
    kf = load_known_findings()
    known_lines, violations = [], []
    for fail in result.get('failures', []):
        entry = common.match_known(kf, pid, fail)
        if entry is not None:
            line = 'KNOWN-FINDING: property=%s %s %s' % (pid, entry['id'], entry['text'])
            if line not in known_lines:
                known_lines.append(line)
        else:
            violations.append(fail)
    broken = list(obl['broken'])
    for name in result.get('correspondence_broken', []):
        broken.append('correspondence:' + name)
    if not b.get('oracle_ok', True):
        broken.append('extraction/oracle binary did not build')
    os.makedirs(os.path.join(VERIF, 'replay'), exist_ok=True)
    out_lines = []
    seen = set()
    for v in violations[:5]:
        key = json.dumps(v.get('input'), sort_keys=True, default=str)
        if key in seen:
            continue
        seen.add(key)
        h = hashlib.sha1(key.encode()).hexdigest()[:10]
        path = os.path.join(VERIF, 'replay', '%s-%s.json' % (pid, h))
        with open(path, 'w') as f:
            json.dump({'property': pid, 'seed': seed, 'tier': args.tier, **v,
                       'broken_obligations': broken}, f, indent=1, default=str)
        out_lines.append('VIOLATION property=%s replay=%s' % (pid, path))
    if not violations and broken:
        h = hashlib.sha1(json.dumps(broken).encode()).hexdigest()[:10]
        path = os.path.join(VERIF, 'replay', '%s-unproved-%s.json' % (pid, h))
        with open(path, 'w') as f:
            json.dump({'property': pid, 'seed': seed, 'tier': args.tier, 'kind': 'unproved',
                       'no_longer_checks': broken,
                       'translator': b.get('translator'),
                       'coq_errors': obl.get('errors', {}),
                       'correspondence_details': result.get('correspondence_details', [])[:20],
                       'searched': result.get('searched', '')}, f, indent=1, default=str)
        out_lines.append('VIOLATION property=%s replay=%s no-failing-input-found' % (pid, path))
    wall = time.time() - t0
    common.write_evidence(ctx, mod, result, obl, known_lines, len(out_lines), wall)
    for line in known_lines:
        print(line)
    for line in out_lines:
        print(line)
    print('%s %s: obligations %d/%d, cases %d, known-findings %d, violations %d, %.1fs' % (
        pid, args.tier, obl['discharged'], obl['total'], result.get('evaluations', 0), len(known_lines),
        len(out_lines), wall))
    sys.exit(1 if out_lines else 0)


if __name__ == '__main__':
    main()
