"""Change-directed search: which table cells / functions of the CURRENT source differ from the state the model was
validated against (harness/frozen.json), so that generators can aim at them.  Never decides anything by itself."""
import ast
import hashlib
import inspect
import json
import os

import impl
from impl import consts, encoder, utils, writers

FROZEN = os.path.join(os.path.dirname(os.path.abspath(__file__)), 'frozen.json')
LEVEL_NAME = {1: 'L', 0: 'M', 3: 'Q', 2: 'H', None: None}


def table_snapshot():
    t = {}
    t['SYMBOL_CAPACITY'] = {str(v): {str(e): c for e, c in row.items()} for v, row in consts.SYMBOL_CAPACITY.items() if isinstance(v, int)}
    t['ECC'] = {str(v): {str(e): [list(x) for x in infos] for e, infos in row.items()} for v, row in consts.ECC.items() if isinstance(v, int)}
    t['ALIGNMENT_POS'] = {str(i + 2): list(p) for i, p in enumerate(consts.ALIGNMENT_POS)}
    t['VERSION_INFO'] = {str(i + 7): v for i, v in enumerate(consts.VERSION_INFO)}
    t['FORMAT_INFO'] = {str(i): v for i, v in enumerate(consts.FORMAT_INFO)}
    t['FORMAT_INFO_MICRO'] = {str(i): v for i, v in enumerate(consts.FORMAT_INFO_MICRO)}
    t['CHAR_COUNT_INDICATOR_LENGTH'] = {str(m): {str(r): n for r, n in row.items()} for m, row in consts.CHAR_COUNT_INDICATOR_LENGTH.items()}
    t['GEN_POLY'] = {str(k): list(v) for k, v in consts.GEN_POLY.items()}
    t['TERMINATOR_LENGTH'] = {str(k): v for k, v in consts.TERMINATOR_LENGTH.items()}
    return t


def function_hashes():
    h = {}
    for mod in (encoder, utils, writers, impl.segno, __import__('segno.helpers', fromlist=['x']), __import__('segno.cli', fromlist=['x'])):
        try:
            tree = ast.parse(inspect.getsource(mod))
        except Exception:  # noqa: BLE001
            continue
        for node in ast.walk(tree):
            if isinstance(node, (ast.FunctionDef, ast.ClassDef)):
                body = [n for n in node.body if not (isinstance(n, ast.Expr) and isinstance(getattr(n, 'value', None), ast.Constant)
                                                     and isinstance(n.value.value, str))]
                dump = ''.join(ast.dump(n) for n in body) + ast.dump(node.args) if isinstance(node, ast.FunctionDef) else ''.join(ast.dump(n) for n in body)
                h['%s.%s' % (mod.__name__, node.name)] = hashlib.sha1(dump.encode()).hexdigest()[:12]
    return h


def freeze():
    with open(FROZEN, 'w') as f:
        json.dump({'tables': table_snapshot(), 'functions': function_hashes()}, f, indent=0, sort_keys=True)


def changes():
    """{'cells': [(table, key1, key2-or-None)], 'functions': [names], 'versions': set, 'levels': set}"""
    try:
        frozen = json.load(open(FROZEN))
    except Exception:  # noqa: BLE001
        return {'cells': [], 'functions': [], 'versions': set(), 'levels': set()}
    cur = table_snapshot()
    cells = []
    for name, tab in cur.items():
        old = frozen['tables'].get(name, {})
        for k in set(tab) | set(old):
            a, b = tab.get(k), old.get(k)
            if a == b:
                continue
            if isinstance(a, dict) and isinstance(b, dict):
                for k2 in set(a) | set(b):
                    if a.get(k2) != b.get(k2):
                        cells.append((name, k, k2))
            else:
                cells.append((name, k, None))
    fh = function_hashes()
    funs = sorted(n for n in set(fh) | set(frozen['functions']) if fh.get(n) != frozen['functions'].get(n))
    versions, levels = set(), set()
    for name, k, k2 in cells:
        if name in ('SYMBOL_CAPACITY', 'ECC', 'ALIGNMENT_POS', 'VERSION_INFO'):
            try:
                versions.add(int(k))
            except ValueError:
                pass
            if k2 not in (None, 'None'):
                try:
                    levels.add(LEVEL_NAME[int(k2)])
                except (ValueError, KeyError):
                    pass
    return {'cells': cells, 'functions': funs, 'versions': versions, 'levels': levels}


if __name__ == '__main__':
    freeze()
    print('frozen')
