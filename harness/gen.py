"""Case generators shared by the encoder-side properties. Generators are not oracles: they may use any
knowledge (including segno's tables) to aim at interesting inputs."""
import enc
from impl import consts

LEVELS = {'L': 1, 'M': 0, 'Q': 3, 'H': 2}
VERSIONS = list(range(-3, 41))


def levels_of(v):
    if v == -3:
        return [None]
    if v < 0:
        return ['L', 'M']
    if v == 0:
        return ['L', 'M', 'Q']
    return ['L', 'M', 'Q', 'H']


def cci(mode, v):
    rng = v if v < 1 else (1 if v < 10 else 2 if v < 27 else 3)
    return consts.CHAR_COUNT_INDICATOR_LENGTH[mode].get(rng)


def payload_bits(mode, n):
    if mode == 1:
        return 10 * (n // 3) + (0, 4, 7)[n % 3]
    if mode == 2:
        return 11 * (n // 2) + 6 * (n % 2)
    if mode == 4:
        return 8 * n
    return 13 * n


def bits(mode, n, v):
    w = cci(mode, v)
    if w is None:
        return None
    return (4 if v > 0 else v + 3) + w + payload_bits(mode, n) + (4 if mode == 13 and v > 0 else 0)


def capacity(v, level):
    return consts.SYMBOL_CAPACITY[v].get(None if level is None else LEVELS[level])


def max_count(mode, v, level):
    cap = capacity(v, level)
    if cap is None or cci(mode, v) is None:
        return None
    lo, hi = 0, 8000
    if bits(mode, 0, v) > cap:
        return None
    while lo < hi:
        mid = (lo + hi + 1) // 2
        if bits(mode, mid, v) <= cap:
            lo = mid
        else:
            hi = mid - 1
    return min(lo, 2 ** cci(mode, v) - 1)


KANJI_CHARS = [bytes([hi, lo]) for hi in (0x81, 0x88, 0x9f, 0xe0, 0xea) for lo in (0x40, 0x7e, 0x80, 0x9f, 0xfc)]
KANJI_CHARS = [c for c in KANJI_CHARS if 0x8140 <= int.from_bytes(c, 'big') <= 0x9ffc or 0xe040 <= int.from_bytes(c, 'big') <= 0xebbf]
HANZI_CHARS = [bytes([hi, lo]) for hi in (0xa1, 0xa9, 0xb0, 0xd7, 0xf7) for lo in (0xa1, 0xc0, 0xfe)]


def content_of(rng, mode, n):
    """bytes that are detected / accepted as `mode` (1,2,4,8,13) with exactly n characters."""
    if mode == 1:
        return bytes(rng.choice(b'0123456789') for _ in range(n))
    if mode == 2:
        if n == 0:
            return b''
        s = bytearray(rng.choice(bytes(consts.ALPHANUMERIC_CHARS)) for _ in range(n))
        s[rng.randrange(n)] = rng.choice(b'ABCXYZ $%*+-./:')      # make sure it is not all digits
        return bytes(s)
    if mode == 4:
        if n == 0:
            return b''
        s = bytearray(rng.randrange(256) for _ in range(n))
        s[0] = rng.choice(b'abcxyz_~')                             # neither alnum nor a kanji lead byte
        return bytes(s)
    if mode == 8:
        return b''.join(rng.choice(KANJI_CHARS) for _ in range(n))
    return b''.join(rng.choice(HANZI_CHARS) for _ in range(n))


MODE_NAME = {1: 'numeric', 2: 'alphanumeric', 4: 'byte', 8: 'kanji', 13: 'hanzi'}


def boundary_cases(rng, versions=VERSIONS, modes=(1, 2, 4, 8, 13), deltas=(0, 1), micro_values=(None,), request_version=(False, True),
                   mask=0, boost=False):
    """Both sides of every (mode, version, level) capacity boundary."""
    out = []
    for v in versions:
        for level in levels_of(v):
            for mode in modes:
                n = max_count(mode, v, level)
                if n is None:
                    continue
                for d in deltas:
                    if n + d < 0:
                        continue
                    for micro in micro_values:
                        for rv in request_version:
                            case = {'content': content_of(rng, mode, n + d), 'mask': mask, 'boost_error': boost}
                            if level is not None:
                                case['error'] = level
                            if mode == 13:
                                case['mode'] = 'hanzi'
                            if rv:
                                case['version'] = enc.vname(v)
                            if micro is not None:
                                case['micro'] = micro
                            case['_meta'] = (mode, v, level, n, d)
                            out.append(case)
    return out


def strip(case):
    return {k: v for k, v in case.items() if not k.startswith('_')}


def multipart_eci_cases(rng, thorough=False):
    """Several byte parts in the same / in different non-default encodings, separated by parts of other modes (so that they
    are not merged), with eci=True, swept through the capacity boundaries of the small versions: every byte segment in a
    non-default encoding carries its own 12-bit ECI header, which the size estimate has to count per segment."""
    out = []
    texts = [('\u00e4', '\u20ac'), ('\u00e9\u00e8', '\u00fc'), ('\u20ac\u20ac', '\u00f6\u00e4\u00fc')]
    for (a, z) in texts[:3 if thorough else 2]:
        for enc_a, enc_z in (('utf-8', 'utf-8'), ('utf-8', 'utf-16-be'), ('shift_jis' if False else 'utf-8', None)):
            for sep_mode in ('digits', 'alnum'):
                for level in ('L', 'M') + (('Q', 'H') if thorough else ()):
                    for n in range(1, 75 if thorough else 48):
                        sep = ''.join(rng.choice('0123456789') for _ in range(n)) if sep_mode == 'digits' else \
                            ''.join(rng.choice('ABCDEFGHIJKLMNOPQRSTUVWXYZ $%*+-./:') for _ in range(n))
                        parts = [(a, None, enc_a), sep, (z, None, enc_z) if enc_z else z]
                        out.append({'content': parts, 'eci': True, 'error': level, 'micro': False, 'mask': 0, 'boost_error': False})
    return out


def multisegment_boundary_cases(rng, versions=(1, 2, 9, 10), thorough=False):
    """Contents of k = 2..6 parts of alternating modes (numeric / alphanumeric / byte, never merged) whose total bit length
    in version v sits just below / at / just above the capacity, requested with version=v and without: the per-segment
    overhead (mode indicator + count indicator) differs between Micro versions, 1-9, 10-26 and 27-40, so a fit that was
    computed for another version class must be re-checked."""
    out = []
    pattern = (1, 2, 4)
    for v in versions:
        for level in ('L', 'M', 'Q', 'H'):
            cap = capacity(v, level)
            for k in (2, 3, 4, 5, 6):
                for start in (0, 1):
                    modes = [pattern[(start + i) % (2 if k % 2 else 3)] for i in range(k)]
                    # short fixed parts, the last one fills up to the capacity
                    lens = [rng.choice([1, 2, 3, 4, 5]) for _ in range(k - 1)]
                    used = sum(bits(m, n, v) for m, n in zip(modes, lens))
                    last = modes[-1]
                    for target in (cap - 3, cap, cap + 2, cap + 5, cap + 9):
                        n = 0
                        while used + bits(last, n + 1, v) <= target:
                            n += 1
                        if n < 1:
                            continue
                        parts = [content_of(rng, m, ln) for m, ln in zip(modes, lens + [n])]
                        for rv in (True, False):
                            c = {'content': parts, 'error': level, 'boost_error': False, 'mask': 0}
                            if rv:
                                c['version'] = v
                            else:
                                c['micro'] = rng.choice([None, False])
                            out.append(c)
    if not thorough:
        rng.shuffle(out)
        out = out[:700]
    return out
