"""Skeleton shared by the encoder-side property modules."""
import json
import enc
import gen
import sweep


def run_cases(ctx, cases, want, judge, rule, kf_fn=None, exhaustive=False, extra=None):
    """judge(row) -> failure text or None, evaluated on every case (row has impl/model/dec/...)."""
    sw = sweep.Sweep(cases, want=want).run()
    failures, samples = [], []
    distinct = set()
    dist = {'ok': 0}
    for r in sw.rows:
        key = r['impl'][:400]
        distinct.add(hash((key, json.dumps(enc.describe(r['case']), sort_keys=True, default=str))))
        k = 'ok' if r['code'] is not None else r['impl']
        dist[k] = dist.get(k, 0) + 1
        msg = judge(r)
        if msg:
            f = {'input': enc.describe(r['case']), 'observed': r['impl'][:200], 'expected': msg}
            if kf_fn:
                k = kf_fn(r, msg)
                if k:
                    f['kf'] = k
            failures.append(f)
        if len(samples) < 5 and r['code'] is not None:
            samples.append({'case': enc.describe(r['case']), 'result': r['impl'][:60]})
    corr = ['encode: model and implementation differ on %d of %d cases' % (len(sw.corr), len(sw.rows))] if sw.corr else []
    # a correspondence difference is itself evidence: search it first with the property oracle (done by judge above)
    return {'failures': failures, 'correspondence_broken': corr, 'correspondence_details': sw.corr[:10],
            'evaluations': len(sw.rows), 'distinct_nontrivial': len(distinct), 'rule': rule, 'samples': samples,
            'distribution': dist, 'exhaustive': exhaustive,
            'searched': '%d generated cases evaluated with the extracted specification oracles' % len(sw.rows)}


def replay_case(rec, want, judge):
    case = enc.undescribe(rec['input'])
    sw = sweep.Sweep([case], want=want).run()
    r = sw.rows[0]
    msg = judge(r)
    print('implementation:', r['impl'][:200])
    print('oracle verdict:', msg or 'holds')
    return 1 if msg else 0
