"""Skeleton shared by the encoder-side property modules."""
import json
import enc
import gen
import sweep
import directed


def run_cases(ctx, cases, want, judge, rule, kf_fn=None, exhaustive=False, extra=None):
    """judge(row) -> failure text or None, evaluated on every case (row has impl/model/dec/...)."""
    # change-directed search: aim extra cases at table cells / functions that differ from the validated baseline
    ch = directed.changes()
    extra_note = ''
    if ch['versions']:
        vs = sorted(ch['versions'])
        extra_cases = gen.boundary_cases(ctx.rng, versions=vs, deltas=(-1, 0, 1), request_version=(False, True), micro_values=(None,))
        extra_cases += gen.boundary_cases(ctx.rng, versions=vs, deltas=(0,), request_version=(True,), mask=None, boost=True)
        for v in vs:
            for lv in gen.levels_of(v):
                for mk in range(4 if v < 1 else 8):
                    c = {'content': gen.content_of(ctx.rng, 4 if v >= -1 else 1, 3), 'version': enc.vname(v), 'mask': mk, 'boost_error': False}
                    if lv:
                        c['error'] = lv
                    extra_cases.append(c)
        cases = list(cases) + [gen.strip(c) for c in extra_cases]
        extra_note = '; %d extra cases directed at changed table cells %s' % (len(extra_cases), ch['cells'][:6])
    if ch['functions']:
        more = [enc.random_case(ctx.rng, max_len=ctx.rng.choice([20, 60, 300])) for _ in range(1500)]
        more += [gen.strip(c) for c in gen.boundary_cases(ctx.rng, versions=[-3, -2, -1, 0, 1, 2, 9, 10, 26, 27, 40], deltas=(-1, 0, 1))]
        cases = list(cases) + more
        extra_note += '; %d extra cases because functions changed: %s' % (len(more), ch['functions'][:8])
    sw = sweep.Sweep(cases, want=want).run()
    failures, samples = [], []
    distinct = set()
    dist = {'ok': 0}
    for r in sw.rows:
        key = r['impl'][:400]
        distinct.add(hash((key, json.dumps(enc.describe(r['case']), sort_keys=True, default=str))))
        k = 'ok' if r['code'] is not None else r['impl']
        dist[k] = dist.get(k, 0) + 1
        msg = judge(r)
        if msg:
            f = {'input': enc.describe(r['case']), 'observed': r['impl'][:200], 'expected': msg}
            if kf_fn:
                k = kf_fn(r, msg)
                if k:
                    f['kf'] = k
            failures.append(f)
        if len(samples) < 5 and r['code'] is not None:
            samples.append({'case': enc.describe(r['case']), 'result': r['impl'][:60]})
    corr = ['encode: model and implementation differ on %d of %d cases' % (len(sw.corr), len(sw.rows))] if sw.corr else []
    # a correspondence difference is itself evidence: search it first with the property oracle (done by judge above)
    return {'failures': failures, 'correspondence_broken': corr, 'correspondence_details': sw.corr[:10],
            'evaluations': len(sw.rows), 'distinct_nontrivial': len(distinct), 'rule': rule, 'samples': samples,
            'distribution': dist, 'exhaustive': exhaustive,
            'searched': '%d generated cases evaluated with the extracted specification oracles%s' % (len(sw.rows), extra_note)}


def replay_case(rec, want, judge):
    case = enc.undescribe(rec['input'])
    sw = sweep.Sweep([case], want=want).run()
    r = sw.rows[0]
    msg = judge(r)
    print('implementation:', r['impl'][:200])
    print('oracle verdict:', msg or 'holds')
    return 1 if msg else 0
