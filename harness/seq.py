"""Structured Append cases: serialisation for the model, execution on the implementation, oracle."""
import codecs
import functools
import operator

import common
import enc
import impl
import sweep
from impl import encoder


def cr(text, encoding):
    return enc.codec_result(text, encoding)


def content_token(content, eff_encoding):
    if isinstance(content, bytes):
        return 'B;' + (content.hex() or '-')
    text = str(content)
    if not text:
        return 'T;-'
    chars = []
    for ch in text:
        g = cr(ch, eff_encoding) if eff_encoding is not None else 'U'
        chars.append('%s,%s,%s,%s' % (g, cr(ch, 'iso-8859-1'), cr(ch, 'shift_jis'), cr(ch, 'utf-8')))
    return 'T;' + '|'.join(chars)


def request(case):
    o = case
    mode = o.get('mode')
    encoding = o.get('encoding')
    eff = 'gb2312' if mode == 'hanzi' else encoding
    return ' '.join(['encseq',
                     '-' if o.get('error') is None else str(enc.ERRORS[o['error']]),
                     '-' if o.get('version') is None else str(o['version']),
                     '-' if mode is None else str(enc.MODES[mode]),
                     '-' if o.get('mask') is None else str(o['mask']),
                     '-' if encoding is None else encoding, '-' if encoding is None else enc.canon(encoding),
                     '1' if o.get('eci') else '0', '1' if o.get('boost_error', True) else '0',
                     '-' if o.get('symbol_count') is None else str(o['symbol_count']),
                     content_token(o['content'], eff)])


def code_str(c):
    segs = ';'.join('%d,%d,%s' % (s.mode, s.char_count, ''.join('1' if b else '0' for b in s.bits) or '-') for s in c.segments)
    return 'OK %d %s %d %s %s' % (c.version, '-' if c.error is None else c.error, c.mask, enc.rows_str(c.matrix), segs)


def run_impl(case):
    o = case
    kw = dict(error=o.get('error'), version=o.get('version'), mode=o.get('mode'), mask=o.get('mask'),
              encoding=o.get('encoding'), eci=o.get('eci', False), boost_error=o.get('boost_error', True),
              symbol_count=o.get('symbol_count'))
    r = impl.call(lambda: list(encoder.encode_sequence(o['content'], **kw)))
    if r[0] == 'ok':
        return 'OK ' + ' | '.join(code_str(c)[3:] for c in r[1]), r[1]
    return 'ERR ' + r[1], None


def expected_bytes(case):
    c = case['content']
    mode = case.get('mode')
    e = 'gb2312' if mode == 'hanzi' else case.get('encoding')
    if isinstance(c, bytes):
        return c
    text = str(c)
    try:
        if e is not None:
            return text.encode(e)
        for cand in ('iso-8859-1', 'shift_jis', 'utf-8'):
            try:
                return text.encode(cand)
            except UnicodeError:
                continue
    except (UnicodeError, LookupError):
        return None
    return None


def check_c08(case, codes, decs):
    """decs: parsed decoder outputs per symbol; returns failure text or None."""
    n = len(codes)
    if not 1 <= n <= 16:
        return '%d symbols' % n
    if any(c.version < 1 for c in codes):
        return 'Micro QR symbol in a sequence'
    want = expected_bytes(case)
    if want is None:
        return 'sequence returned although the codec refuses the content'
    if case.get('symbol_count') is not None and case.get('version') is None and n != case['symbol_count']:
        return 'symbol_count=%d but %d symbols' % (case['symbol_count'], n)
    if case.get('version') is not None and case.get('symbol_count') is None and any(c.version != case['version'] for c in codes):
        return 'version=%s requested, got versions %s' % (case['version'], [c.version for c in codes])
    if any(d is None for d in decs):
        return 'a symbol cannot be read by the reference decoder (data does not fit / invalid)'
    parity = functools.reduce(operator.xor, want, 0)
    got = b''
    for i, d in enumerate(decs):
        if n > 1:
            if d['sa'] is None:
                return 'symbol %d has no Structured Append header' % i
            if d['sa'] != (i, n - 1, parity):
                return 'symbol %d header %r, expected (%d, %d, parity %d)' % (i, d['sa'], i, n - 1, parity)
        elif d['sa'] is not None and d['sa'] != (0, 0, parity):
            return 'single symbol with an inconsistent Structured Append header %r' % (d['sa'],)
        got += b''.join(s['bytes'] for s in d['segments'])
    if got != want:
        k = next((j for j in range(min(len(got), len(want))) if got[j] != want[j]), min(len(got), len(want)))
        return 'reassembled payload differs from the message at byte %d (%d of %d bytes)' % (k, len(got), len(want))
    return None
