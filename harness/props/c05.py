"""C05 -- error level never below the request; boosting keeps the version."""
import common, enc, gen, sweep, encprop

TOP = ['theories/Props/C05.v', 'theories/Tie/TieTables.v', 'theories/Tie/TieBoost.v', 'theories/Tie/TieApiQr.v', 'theories/Tie/TieApiMake.v']
WANT = ('decode',)
RULE = ('exact-fit and fit+1 lengths for every (version, level -> next level) threshold, requested level x boost_error x micro; '
        'each case is also encoded with boost_error=False to compare versions; verdict by the extracted boost specification')
RANK = {None: -1, 'L': 0, 'M': 1, 'Q': 2, 'H': 3}


def judge(r):
    if r['code'] is None:
        return None
    case = r['case']
    d = r.get('dec')
    if d is None:
        return 'reference decoder cannot read the symbol'
    req = case.get('error')
    lvl = d['level']
    if d['version'] < 1 and lvl == 'H':
        return 'level H in a Micro QR symbol'
    if d['version'] == -3:
        return None if lvl is None else 'M1 with an error level'
    base = req or 'L'
    if RANK[lvl] < RANK[base]:
        return 'level %s below the requested %s' % (lvl, base)
    boost = case.get('boost_error', True)
    if not boost:
        return None if lvl == base else 'boost_error=False but level %s instead of %s' % (lvl, base)
    if len(d['segments']) != 1:
        return None
    want = common.oracle(['spec_boost %d %d 0 %s' % (d['version'], gen.LEVELS[base], sweep.spec_segs(d))])[0]
    want = sweep.LEVEL_OF_CONST[int(want)]
    if want != lvl:
        return 'level %s, the highest fitting level of version %s is %s' % (lvl, enc.vname(d['version']), want)
    # same version as without boosting
    c2 = dict(gen.strip(case), boost_error=False)
    s2, code2 = enc.run_impl(c2)
    if code2 is None or code2.version != r['code'].version:
        return 'version with boosting %s differs from version without (%s)' % (r['code'].version, s2[:30])
    return None


def cases(ctx):
    rng = ctx.rng
    out = []
    vs = gen.VERSIONS if ctx.thorough else [-2, -1, 0, 1, 2, 4, 7, 9, 10, 15, 26, 27, 33, 40]
    for v in vs:
        lv = gen.levels_of(v)
        for hi in lv:
            if hi is None:
                continue
            for mode in ((1, 2, 4, 8) if ctx.thorough else (1, 4)):
                n = gen.max_count(mode, v, hi)
                if n is None:
                    continue
                for d in (0, 1):
                    for req in [None] + [l for l in lv if RANK[l] <= RANK[hi]]:
                        c = {'content': gen.content_of(rng, mode, n + d), 'mask': 0}
                        if req:
                            c['error'] = req
                        if rng.random() < 0.5:
                            c['version'] = enc.vname(v)
                        elif v < 1:
                            c['micro'] = True
                        else:
                            c['micro'] = False
                        out.append(c)
    out += [enc.random_case(rng) for _ in range(1500 if ctx.thorough else 200)]
    return out


def factory_checks(ctx):
    """The public factory functions must hand `error` and `boost_error` through: with boost_error=False the level read from the
    format information is the requested one (L when none is requested, none for M1), with boosting it is the highest fitting one."""
    import segno
    r2 = __import__('random').Random(ctx.seed * 13 + 5)
    fails, n = [], 0
    jobs = []
    for content in ('7', '777777', '12345678', 'ABC', 'HELLO WORLD', 'abc', 'a' * 14):
        for fn_name, kw0 in (('make', {}), ('make', {'micro': True}), ('make', {'micro': False}), ('make_qr', {}), ('make_micro', {})):
            for error in (None, 'L', 'M', 'Q'):
                for version in (None, 'M4', 2):
                    if (version == 'M4' and (fn_name == 'make_qr' or kw0.get('micro') is False)) or (version == 2 and (fn_name == 'make_micro' or kw0.get('micro'))):
                        continue
                    for boost in (False, True):
                        kw = dict(kw0, boost_error=boost)
                        if error:
                            kw['error'] = error
                        if version:
                            kw['version'] = version
                        jobs.append((fn_name, content, kw))
    symbols = []
    for fn_name, content, kw in jobs:
        import impl
        r = impl.call(lambda: getattr(segno, fn_name)(content, **kw))
        if r[0] == 'ok':
            symbols.append((fn_name, content, kw, r[1]))
    decs = common.oracle_parallel(['decode ' + enc.rows_str(q.matrix) for _, _, _, q in symbols], chunk=20) if symbols else []
    for (fn_name, content, kw, q), a in zip(symbols, decs):
        n += 1
        d = sweep.parse_decoded(a)
        if d is None:
            fails.append({'input': {'call': fn_name, 'content': content, 'kw': repr(kw)}, 'observed': 'unreadable symbol', 'expected': 'a readable symbol'})
            continue
        base = kw.get('error') or 'L'
        lvl = d['level']
        if d['version'] == -3:
            continue
        if not kw['boost_error']:
            if lvl != base:
                fails.append({'input': {'call': fn_name, 'content': content, 'kw': repr(kw)}, 'observed': 'level %s (version %s)' % (lvl, enc.vname(d['version'])),
                              'expected': 'boost_error=False: the requested level %s' % base})
        elif len(d['segments']) == 1:
            want = sweep.LEVEL_OF_CONST[int(common.oracle(['spec_boost %d %d 0 %s' % (d['version'], gen.LEVELS[base], sweep.spec_segs(d))])[0])]
            if want != lvl:
                fails.append({'input': {'call': fn_name, 'content': content, 'kw': repr(kw)}, 'observed': 'level %s' % lvl,
                              'expected': 'the highest fitting level %s of version %s' % (want, enc.vname(d['version']))})
    return fails, n


def run(ctx):
    res = encprop.run_cases(ctx, cases(ctx), WANT, judge, RULE)
    fails, n = factory_checks(ctx)
    res['failures'] += fails[:10]
    res['evaluations'] += n
    return res


def replay(rec):
    if 'call' in rec.get('input', {}):
        import sys
        return common.replay_by_rerun(sys.modules[__name__], rec)
    return encprop.replay_case(rec, WANT, judge)
