"""C07 -- most compact applicable mode; requested mode honoured or refused."""
import common, enc, gen, sweep, encprop, impl

TOP = ['theories/Props/C07.v', 'theories/Tie/TieTables.v', 'theories/Tie/TieSeg.v', 'theories/Tie/TieMode.v', 'theories/Tie/TieSegMake.v']
WANT = ('decode',)
RULE = ('find_mode on ALL one- and two-byte inputs (65 792, exhaustive) against the extracted mode specification; encode with every '
        'requested mode on class-stratified contents (digits, 45-char alphabet, Shift JIS lead x trail classes, GB2312, bytes); '
        'the mode is read from the symbol by the reference decoder')
KEY = {'numeric': 1, 'alphanumeric': 2, 'byte': 4, 'kanji': 8, 'hanzi': 13}


def representable(mode, b):
    if mode == 4:
        return True
    if mode == 1:
        return len(b) > 0 and all(48 <= x <= 57 for x in b)
    if mode == 2:
        return len(b) > 0 and all(x in b'0123456789ABCDEFGHIJKLMNOPQRSTUVWXYZ $%*+-./:' for x in b)
    if len(b) % 2:
        return False
    for i in range(0, len(b), 2):
        code = b[i] * 256 + b[i + 1]
        lo = b[i + 1]
        if mode == 8:
            if not ((0x8140 <= code <= 0x9ffc or 0xe040 <= code <= 0xebbf) and (0x40 <= lo <= 0x7e or 0x80 <= lo <= 0xfc)):
                return False
        else:
            if not ((0xa1a1 <= code <= 0xaafe or 0xb0a1 <= code <= 0xfafe) and 0xa1 <= lo <= 0xfe):
                return False
    return True


def judge(r):
    case = r['case']
    parts = sweep.expected_parts(case)
    if parts is None or len(parts) != 1:
        return None
    b, e, m = parts[0]
    if r['code'] is not None:
        d = r.get('dec')
        if d is None:
            return 'reference decoder cannot read the symbol'
        if len(d['segments']) != 1:
            return 'single-part content encoded in %d segments' % len(d['segments'])
        got = KEY[d['segments'][0]['mode']]
        if m is None:
            want = int(common.oracle(['spec_mode ' + (b.hex() or '-')])[0])
            if got != want:
                return 'mode %d chosen, the first applicable mode is %d' % (got, want)
        else:
            if got != m:
                return 'requested mode %d, symbol carries %d' % (m, got)
            if not representable(m, b) and len(b) > 0:
                return 'mode %d accepted although the content is not representable in it' % m
        return None
    if r['impl'] == 'ERR ValueError' and m is not None and len(b) > 0 and representable(m, b):
        # refusal of a representable requested mode is only justified by the version / micro restrictions
        v = case.get('version')
        v = None if v is None else enc.MICRO.get(v, v)
        micro_only = case.get('micro') is True or (v is not None and v < 1)
        if not micro_only and case.get('mask') in (None, 0, 1, 2, 3) and not (case.get('error') == 'H' and micro_only):
            return 'requested mode %d refused although the content is representable' % m
    return None


def cases(ctx):
    rng = ctx.rng
    out = []
    kinds = ['numeric', 'alnum', 'bytes', 'sjis_bytes', 'kanji', 'hanzi', 'latin1', 'ascii', 'int']
    for _ in range(3000 if ctx.thorough else 500):
        c = {'content': enc.gen_content(rng, rng.choice(kinds), rng.choice([0, 1, 2, 3, 4, 6, 8, 13])), 'mask': 0, 'boost_error': False}
        if rng.random() < 0.6:
            c['mode'] = rng.choice(['numeric', 'alphanumeric', 'byte', 'kanji', 'hanzi'])
        if rng.random() < 0.3:
            c['version'] = rng.choice(['M1', 'M2', 'M3', 'M4', 1, 5, 10, 27])
        if rng.random() < 0.2:
            c['micro'] = rng.choice([True, False])
        out.append(c)
    # requested mode 'kanji' for TEXT: Latin-1 text is encoded with ISO 8859-1, not Shift JIS, so the bytes need not be valid
    # double-byte characters although every character "was encoded by a codec": lead bytes in 81..9F / E0..EB with every kind of trail
    r2 = __import__('random').Random(ctx.seed * 11 + 7)
    for lead in (0x81, 0x93, 0x9f, 0xe0, 0xea, 0xeb, 0xa0, 0xec):
        for trail in (0x30, 0x3f, 0x40, 0x7e, 0x7f, 0x80, 0xfc, 0xfd, 0xff, 0xa9):
            for rep in (1, 2):
                out.append({'content': (chr(lead) + chr(trail)) * rep, 'mode': 'kanji', 'mask': 0, 'boost_error': False})
                out.append({'content': bytes([lead, trail]) * rep, 'mode': 'kanji', 'mask': 0, 'boost_error': False})
    for txt in ('\u00ea0', '\u0093\u007f', '\u00e9\u00ff', '\u00ea\u00a9\u00ea0'):
        for mode in ('kanji', 'hanzi', 'byte', None):
            c = {'content': txt, 'mask': 0, 'boost_error': False}
            if mode:
                c['mode'] = mode
            out.append(c)
    # text for which str.isdigit() / str.isalnum() / str.isdecimal() hold although the ENCODED bytes are not ASCII digits / the 45 characters:
    # Arabic-Indic, Devanagari, full-width and superscript digits, full-width Latin capitals (mode detection must look at the bytes)
    for txt in ('\u0661\u0662\u0663', '\uff12\uff10\uff12\uff14', '\u00b2\u00b3', '\u0967\u0968', '12\u0663', '\uff21\uff22', '\u0661'):
        for mode in (None, 'numeric', 'alphanumeric', 'byte'):
            c = {'content': txt, 'mask': 0, 'boost_error': False}
            if mode:
                c['mode'] = mode
            out.append(c)
    # GB2312 byte pairs incl. invalid trail bytes under hanzi
    for _ in range(200 if ctx.thorough else 60):
        b = bytes([rng.choice([0xa1, 0xaa, 0xab, 0xb0, 0xfa, 0xfb]), rng.choice([0xa0, 0xa1, 0xfe, 0xff, 0x00, 0x60])])
        out.append({'content': b * rng.choice([1, 2]), 'mode': 'hanzi', 'mask': 0})
    return out


def exhaustive_find_mode(ctx):
    """all 1- and 2-byte inputs: implementation find_mode vs extracted spec_mode vs extracted model find_mode"""
    inputs = [bytes([a]) for a in range(256)] + [bytes([a, b]) for a in range(256) for b in range(256)]
    try:
        got = [impl.encoder.find_mode(x) for x in inputs]
    except Exception as ex:  # noqa: BLE001
        return [], ['find_mode unavailable: %s' % type(ex).__name__], 0
    spec = common.oracle_parallel(['spec_mode ' + (x.hex() or '-') for x in inputs], chunk=4200)
    model = common.oracle_parallel(['find_mode ' + (x.hex() or '-') for x in inputs], chunk=4200)
    fails, corr = [], []
    for x, g, s, m in zip(inputs, got, spec, model):
        if str(g) != s:
            fails.append({'input': {'content': {'bytes': x.hex()}}, 'observed': 'find_mode=%s' % g, 'expected': 'first applicable mode %s' % s})
        if str(g) != m and not corr:
            corr.append('find_mode: model and implementation differ (e.g. %s: %s vs %s)' % (x.hex(), g, m))
    return fails, corr, len(inputs)


def run(ctx):
    res = encprop.run_cases(ctx, cases(ctx), WANT, judge, RULE)
    fails, corr, n = exhaustive_find_mode(ctx)
    res['failures'] += fails[:20]
    res['correspondence_broken'] += corr
    res['evaluations'] += n
    res['distinct_nontrivial'] += n
    res['exhaustive'] = True
    return res


def replay(rec):
    return encprop.replay_case(rec, WANT, judge)
