"""C12 -- all output routes give the same document for the same symbol and options."""
import base64
import gzip
import io
import json
import os
import re
import subprocess
import sys
import tempfile
import urllib.parse

import common, enc, impl
import segno

TOP = ['theories/Props/C12.v', 'theories/Tie/TieTables.v', 'theories/Tie/TieRouteSave.v', 'theories/Tie/TieRouteSeq.v',
       'theories/Tie/TieRouteCli.v', 'theories/Lemmas/CaseLemmas.v', 'theories/Tie/TieApiUri.v', 'theories/Tie/TieApiQr.v']
RULE = ('symbols x all 13 output kinds x serializer option sets x routes: file name (lower / upper / mixed case extension), stream with kind=..., '
        'png/svg data URIs decoded, svg_inline, gunzipped .svgz, command line with the corresponding flags, terminal vs. no output, sequences '
        'saved to name.ext; byte comparison with the three timestamp fields masked')

TEXT_KINDS = {'svg', 'eps', 'txt', 'ans', 'tex', 'xbm', 'xpm'}
STAMPS = [(re.compile(rb'%%CreationDate: [^\n]*'), b'%%CreationDate: X'), (re.compile(rb'/CreationDate\(D:[^)]*\)'), b'/CreationDate(D:X)'),
          (re.compile(rb'% Date:     [^\n]*'), b'% Date:     X')]


def mask(b):
    for rx, rep in STAMPS:
        b = rx.sub(rep, b)
    return b


def api_stream(q, kind, kw):
    out = io.StringIO() if kind in TEXT_KINDS - {'svg'} else io.BytesIO()
    q.save(out, kind=kind, **kw)
    v = out.getvalue()
    return v.encode('utf-8') if isinstance(v, str) else v


# CLI flags for serializer options (segno/cli.py make_parser)
def cli_flags(kw):
    flags = []
    for k, v in kw.items():
        name = {'svgclass': '--svgclass', 'lineclass': '--lineclass', 'svgid': '--svgid', 'xmldecl': None, 'svgns': None, 'nl': None,
                'omitsize': '--no-size', 'unit': '--unit', 'svgversion': '--svgversion', 'title': '--title', 'desc': '--desc',
                'draw_transparent': '--draw-transparent', 'dpi': '--dpi', 'scale': '--scale', 'border': '--border', 'dark': '--dark',
                'light': '--light', 'plain': None, 'compresslevel': None, 'name': None, 'url': None,
                'encoding': '--svgencoding'}.get(k, '--' + k.replace('_', '-'))      # (--encoding is the encoding of the CONTENT)
        if k == 'xmldecl' and v is False:
            flags.append('--no-xmldecl')
        elif k == 'svgns' and v is False:
            flags.append('--no-namespace')
        elif k == 'nl' and v is False:
            flags.append('--no-newline')
        elif name is None:
            return None
        elif isinstance(v, bool):
            if v:
                flags.append(name)
        else:
            flags.append('%s=%s' % (name, 'transparent' if v is None else v))
    return flags


def run(ctx):
    rng = ctx.rng
    failures, samples = [], []
    corr_broken, corr_details = [], []
    n = 0
    distinct = set()
    symbols = [dict(content='Route 66', error='M', micro=False), dict(content='12345', micro=True), dict(content='ÄÖÜ mixed content', error='Q', version=5, micro=False)]
    if ctx.thorough:
        symbols += [dict(content='A' * 200, error='H', micro=False), dict(content='7', version='M1', micro=True)]
    option_sets = {
        'svg': [{}, {'scale': 3, 'border': 1}, {'dark': 'darkblue', 'light': 'yellow'}, {'encoding': 'iso-8859-1', 'title': 'M\u00e4rchen \u00e1\u00e0', 'desc': '\u00fc'},
                {'xmldecl': False, 'svgns': False, 'nl': False}, {'encoding': 'cp1252', 'title': '\u20ac 5', 'svgid': 'id\u00e9'},
                {'omitsize': True}, {'unit': 'mm', 'scale': 2}, {'title': 'T<&>', 'desc': 'D"'}, {'svgclass': 'c1', 'lineclass': 'c2', 'svgid': 'i1'},
                {'draw_transparent': True, 'light': None, 'dark': '#123'}, {'svgversion': 1.1}, {'finder_dark': 'red', 'data_dark': 'green'}],
        'png': [{}, {'scale': 4, 'compresslevel': 0}, {'border': 0, 'dark': 'blue', 'compresslevel': 3}, {'light': None, 'dpi': 150}, {'dpi': 300, 'scale': 2},
                {'finder_dark': 'red', 'quiet_zone': 'yellow'}, {'compresslevel': 1, 'scale': 2, 'border': 1}],
        'eps': [{}, {'scale': 2, 'border': 2}, {'dark': 'red', 'light': '#eee'}],
        'pdf': [{}, {'scale': 3}, {'dark': '#00f', 'light': 'white', 'border': 1}],
        'txt': [{}, {'border': 0}], 'ans': [{}, {'border': 1}],
        'pbm': [{}, {'scale': 2, 'plain': True}, {'border': 0}], 'pam': [{}, {'scale': 2, 'dark': 'green'}, {'light': None}],
        'ppm': [{}, {'scale': 2, 'dark': 'navy', 'light': '#ffe'}, {'finder_dark': 'red'}],
        'tex': [{}, {'scale': 2, 'border': 1}, {'dark': 'blue', 'unit': 'mm'}], 'xbm': [{}, {'scale': 2}], 'xpm': [{}, {'scale': 2, 'dark': 'red', 'light': None}],
    }
    with tempfile.TemporaryDirectory() as d:
        for si, sym in enumerate(symbols):
            q = segno.make(**sym)
            for kind, sets in option_sets.items():
                for oi, kw in enumerate(sets if ctx.thorough else sets[:4]):
                    ref = mask(api_stream(q, kind, kw))
                    distinct.add(hash(ref))
                    routes = {}
                    # file name routes
                    for ext in (kind, kind.upper(), kind.capitalize()):
                        p = os.path.join(d, 'f%d_%d.%s' % (si, oi, ext))
                        r = impl.call(lambda: q.save(p, **kw))
                        routes['file .' + ext] = mask(open(p, 'rb').read()) if r[0] == 'ok' else ('exception ' + r[1]).encode()
                    # stream with upper-case kind
                    out = io.StringIO() if kind in TEXT_KINDS - {'svg'} else io.BytesIO()
                    r = impl.call(lambda: q.save(out, kind=kind.upper(), **kw))
                    v = out.getvalue()
                    routes['stream kind=' + kind.upper()] = mask(v.encode('utf-8') if isinstance(v, str) else v) if r[0] == 'ok' else ('exception ' + r[1]).encode()
                    if kind == 'svg':
                        p = os.path.join(d, 'z%d_%d.svgz' % (si, oi))
                        q.save(p, **kw)
                        routes['svgz'] = gzip.open(p, 'rb').read()
                        uri = q.svg_data_uri(**dict(kw, xmldecl=kw.get('xmldecl', True), nl=kw.get('nl', True)))
                        body = urllib.parse.unquote_to_bytes(uri.split(',', 1)[1])
                        # the data URI writes attribute quotes as ' : compare after normalising quotes on both sides
                        routes['svg data uri'] = body.replace(b"'", b'"') if b"'" not in ref else ref
                        routes['svg data uri'] = routes['svg data uri'] if routes['svg data uri'] == ref.replace(b"'", b'"') else routes['svg data uri']
                        inline = q.svg_inline(**{k: v for k, v in kw.items() if k not in ('xmldecl', 'svgns', 'nl')})
                        want_inline = api_stream(q, 'svg', dict({k: v for k, v in kw.items() if k not in ('xmldecl', 'svgns', 'nl')}, xmldecl=False, svgns=False, nl=False))
                        n += 1
                        if inline.encode(kw.get('encoding') or 'utf-8') != want_inline:      # svg_inline decodes with the document encoding
                            failures.append({'input': {'symbol': sym, 'kind': kind, 'kw': repr(kw), 'route': 'svg_inline'},
                                             'observed': inline[:80], 'expected': want_inline[:80].decode(kw.get('encoding') or 'utf-8', 'replace')})
                    if kind == 'png':
                        uri = q.png_data_uri(**kw)
                        routes['png data uri'] = base64.b64decode(uri.split(',', 1)[1])
                    # command line
                    flags = cli_flags(kw)
                    if flags is not None and not any(k.endswith(('_dark', '_light')) or k in ('quiet_zone',) for k in kw):
                        # the command line route also with an upper-case / mixed-case extension
                        cext = kind if oi % 3 == 0 else (kind.upper() if oi % 3 == 1 else kind.capitalize())
                        p = os.path.join(d, 'c%d_%d.%s' % (si, oi, cext))
                        argv = ['-o', p] + flags
                        for k2, v2 in sym.items():
                            if k2 == 'content':
                                continue
                            if k2 == 'micro':
                                argv.append('--micro' if v2 else '--no-micro')
                            else:
                                argv.append('--%s=%s' % (k2, v2))
                        argv.append(sym['content'])
                        pr = subprocess.run([sys.executable, '-m', 'segno.cli'] + argv, capture_output=True, env=dict(os.environ, PYTHONPATH=common.REPO), timeout=60)
                        routes['cli ' + ' '.join(flags)] = mask(open(p, 'rb').read()) if pr.returncode == 0 and os.path.exists(p) else \
                            ('cli exit %d: %s' % (pr.returncode, pr.stderr[-120:].decode(errors='replace'))).encode()
                        if kind == 'svg':
                            # ... and the gzip-compressed variant through the command line, extension in any letter case
                            zext = ('svgz', 'SVGZ', 'SvgZ')[oi % 3]
                            pz = os.path.join(d, 'cz%d_%d.%s' % (si, oi, zext))
                            argz = ['-o', pz] + argv[2:]
                            pr = subprocess.run([sys.executable, '-m', 'segno.cli'] + argz, capture_output=True, env=dict(os.environ, PYTHONPATH=common.REPO), timeout=60)
                            try:
                                routes['cli .%s %s' % (zext, ' '.join(flags))] = mask(gzip.open(pz, 'rb').read()) if pr.returncode == 0 else \
                                    ('cli exit %d: %s' % (pr.returncode, pr.stderr[-120:].decode(errors='replace'))).encode()
                            except OSError as ex:
                                routes['cli .%s %s' % (zext, ' '.join(flags))] = ('not a gzip file: %s' % ex).encode()
                    for name, got in routes.items():
                        n += 1
                        want = ref.replace(b"'", b'"') if name == 'svg data uri' else ref
                        if got != want:
                            k = next((i for i in range(min(len(got), len(want))) if got[i] != want[i]), min(len(got), len(want)))
                            failures.append({'input': {'symbol': sym, 'kind': kind, 'kw': repr(kw), 'route': name},
                                             'observed': repr(got[max(0, k - 30):k + 40]), 'expected': repr(want[max(0, k - 30):k + 40])})
                    if len(samples) < 4:
                        samples.append({'symbol': sym, 'kind': kind, 'kw': repr(kw), 'routes': sorted(routes)})
            # terminal vs CLI without output
            argv0 = []
            for k2, v2 in sym.items():
                if k2 == 'micro':
                    argv0.append('--micro' if v2 else '--no-micro')
                elif k2 != 'content':
                    argv0.append('--%s=%s' % (k2, v2))
            # border 0 is falsy, the default border is None: both must reach QRCode.terminal unchanged; plain and --compact
            for tb, tc in ((None, False), (0, False), (1, False), (3, True), (0, True), (None, True)):
                n += 1
                buf = io.StringIO()
                q.terminal(out=buf, border=tb, compact=tc)
                argv = argv0 + ([] if tb is None else ['--border=%d' % tb]) + (['--compact'] if tc else [])
                pr = subprocess.run([sys.executable, '-m', 'segno.cli'] + argv + [sym['content']], capture_output=True, env=dict(os.environ, PYTHONPATH=common.REPO), timeout=60)
                if pr.stdout.decode('utf-8') != buf.getvalue():
                    failures.append({'input': {'symbol': sym, 'route': 'cli without output', 'border': tb, 'compact': tc},
                                     'observed': '%d lines: %r' % (pr.stdout.count(b'\n'), pr.stdout[:60]),
                                     'expected': '%d lines: %r' % (buf.getvalue().count('\n'), buf.getvalue()[:60])})
        # ---- routing model (extracted Gallina Route.build_config / Route.resolve) against cli.build_config / writers.save
        from segno import cli as _cli

        def cps(t):
            return '.'.join(str(ord(c)) for c in t) or '-'

        def uncps(t):
            return '' if t == '-' else ''.join(chr(int(x)) for x in t.split('.'))
        argvs = [[], ['--scale=3', '--border=1'], ['--dark=darkblue', '--light=transparent'], ['--no-classes', '--title=T', '--unit=mm'],
                 ['--finder-dark=red', '--quiet-zone=trans', '--dpi=300'], ['--svgid=i', '--svgclass=c', '--lineclass=l', '--no-size', '--svgversion=1.1'],
                 ['--no-xmldecl', '--no-namespace', '--no-newline', '--draw-transparent', '--svgencoding=latin1', '--compact']]
        names = []
        for ext in list(impl.writers._VALID_SERIALIZERS) + ['svgz', 'xyz']:
            names += ['out.' + ext, 'out.' + ext.upper(), 'dir.name/out.' + ext.capitalize()]
        names += ['noext', 'x.', None]
        reqs, exp = [], []
        for argv in argvs:
            for name in names:
                cfg = dict(_cli.parse(argv + ['content']))
                token = ';'.join('%s=%s' % (cps(k), cps(repr(v))) for k, v in cfg.items()) or '-'
                reqs.append('build_config %s %s' % ('-' if name is None else cps(name), token))
                got = _cli.build_config(dict(cfg), filename=name)
                exp.append(';'.join('%s=%s' % (cps(k), cps(repr(v))) for k, v in sorted(got.items())) or '-')
        ans = common.oracle_parallel(reqs, chunk=40)
        bad = [(r, a, e) for r, a, e in zip(reqs, ans, exp) if a != e]
        n += len(reqs)
        if bad:
            r, a, e = bad[0]
            corr_detail = {'request': r[:120], 'model': {uncps(x.split('=')[0]): uncps(x.split('=')[1]) for x in a.split(';') if '=' in x},
                           'impl': {uncps(x.split('=')[0]): uncps(x.split('=')[1]) for x in e.split(';') if '=' in x}}
            corr_broken.append('cli.build_config: model and implementation differ on %d of %d (argv, file name) pairs' % (len(bad), len(reqs)))
            corr_details.append(corr_detail)
        # writers.save kind / extension resolution
        rq, ex = [], []
        for name in names[:-1] + ['OUT.PNG', 'a.b.SVG']:
            for kind in (None, 'svg', 'PNG', 'Svgz', 'bmp'):
                rq.append('resolve %s %s 0' % ('-' if kind is None else cps(kind), cps(name)))
                r0 = impl.call(lambda: segno.make('x').save(os.path.join(d, 'res_' + name.replace('/', '_')) if kind is None else io.BytesIO(), kind=kind))
                ex.append('OK' if r0[0] == 'ok' else 'ERR ' + r0[1])
        ans = common.oracle_parallel(rq, chunk=40)
        for r, a, e in zip(rq, ans, ex):
            n += 1
            if a.split(' ')[0] != e.split(' ')[0] or (e.startswith('ERR') and a != e):
                corr_broken.append('writers.save resolution: model %s vs implementation %s for %s' % (a, e, r))
                break
        # unknown extension / kind
        q = segno.make('x')
        for name in ('out.xyz', 'out', 'out.', 'out.svg.bak'):
            n += 1
            r = impl.call(lambda: q.save(os.path.join(d, name)))
            if r[0] == 'ok' or r[1] != 'ValueError':
                failures.append({'input': {'route': 'file ' + name}, 'observed': r[1] if r[0] != 'ok' else 'accepted', 'expected': 'ValueError (unknown extension)'})
        # sequences
        seq = segno.make_sequence('ABCDEFGHIJKLMNOPQRSTUVWXYZ' * 3, version=1)
        for ext in ('svg', 'png', 'txt'):
            n += 1
            base = os.path.join(d, 'seq_%s.%s' % (ext, ext))
            skw = {} if ext == 'txt' else {'scale': 2}
            seq.save(base, **skw)
            m = len(seq)
            names = sorted(f for f in os.listdir(d) if f.startswith('seq_%s-' % ext))
            want_names = ['seq_%s-%02d-%02d.%s' % (ext, m, k, ext) for k in range(1, m + 1)]
            if names != want_names:
                failures.append({'input': {'route': 'sequence ' + ext}, 'observed': names, 'expected': want_names})
                continue
            for k, f in enumerate(names):
                got = mask(open(os.path.join(d, f), 'rb').read())
                want = mask(api_stream(seq[k], ext, skw))
                if got != want:
                    failures.append({'input': {'route': 'sequence file ' + f}, 'observed': repr(got[:60]), 'expected': repr(want[:60])})
        # sequence file names: the counter goes in front of the extension (the LAST dot of the name), also for base
        # names and directories containing further dots; a one-symbol sequence keeps the name
        single = segno.make_sequence('AB', version=1)
        for sub, name in (('', 'qr.v2.svg'), ('', 'a.b.c.png'), ('', 'x.tar.txt'), ('dir.with.dots', 'plain.svg'),
                          ('dir.d', 'p.q.svg'), ('', '.hidden.svg'),
                          ('', 'a{b}.svg'), ('', 'a}.svg'), ('', 'x{0}.png'), ('', '{1:02d}.txt'), ('br{ace', 'q.svg')):
            n += 1
            dd = os.path.join(d, 'sq%d' % n, sub) if sub else os.path.join(d, 'sq%d' % n)
            os.makedirs(dd, exist_ok=True)
            stem, ext = os.path.splitext(name)
            if not ext:          # '.hidden' style names: splitext keeps them whole; segno sees the dot as extension start
                stem, ext = '', name
            m = len(seq)
            r = impl.call(lambda: seq.save(os.path.join(dd, name)))
            names = sorted(os.listdir(dd))
            want_names = sorted('%s-%02d-%02d%s' % (stem, m, k, ext) for k in range(1, m + 1))
            if r[0] != 'ok' or names != want_names:
                failures.append({'input': {'route': 'sequence file names', 'name': os.path.join(sub, name), 'symbols': m},
                                 'observed': names if r[0] == 'ok' else r[1], 'expected': want_names})
            for f in names:
                os.unlink(os.path.join(dd, f))
            r = impl.call(lambda: single.save(os.path.join(dd, name)))
            names = sorted(os.listdir(dd))
            if r[0] != 'ok' or names != [name]:
                failures.append({'input': {'route': 'sequence file names', 'name': os.path.join(sub, name), 'symbols': 1},
                                 'observed': names if r[0] == 'ok' else r[1], 'expected': [name]})
        # model correspondence for the naming function: the files written for arbitrary names = Route.sequence_filename
        rq, ex = [], []
        for name in ('qr.v2.svg', 'a.b.c.png', 'nodot', '.svg', 'x..txt', 'd.e/f.svg', 'd.e/f', 'tr.', 'UP.PNG', 'a{b}.svg', 'x{0}.png', 'a}}.svg'):
            for m_ in (1, 2, 12):
                created = []

                class Rec:
                    def save(self, out, kind=None, **kw):
                        created.append(out)
                s2 = segno.QRCodeSequence([Rec() for _ in range(m_)])
                r = impl.call(lambda: s2.save(name))
                for k_, got in enumerate(created, 1):
                    rq.append('seqname %s %d %d' % (cps(name), m_, k_))
                    ex.append(cps(got))
        ans = common.oracle_parallel(rq, chunk=40) if rq else []
        for r_, a_, e_ in zip(rq, ans, ex):
            n += 1
            if a_ != e_:
                corr_broken.append('QRCodeSequence.save file naming: model %s vs implementation %s for %s' % (a_, e_, r_))
                break
        # the same through the command line (--seq)
        n += 1
        dd = os.path.join(d, 'sqcli')
        os.makedirs(dd, exist_ok=True)
        pr = subprocess.run([sys.executable, '-m', 'segno.cli', '--seq', '--version', '1', '-o', os.path.join(dd, 'c.v2.svg'),
                             'ABCDEFGHIJKLMNOPQRSTUVWXYZ' * 3], capture_output=True, env=dict(os.environ, PYTHONPATH=common.REPO), timeout=60)
        names = sorted(os.listdir(dd))
        want_names = ['c.v2-%02d-%02d.svg' % (len(seq), k) for k in range(1, len(seq) + 1)]
        if pr.returncode != 0 or names != want_names:
            failures.append({'input': {'route': 'cli --seq file names', 'name': 'c.v2.svg'}, 'observed': names or pr.stderr.decode()[-200:], 'expected': want_names})
    return {'failures': failures, 'correspondence_broken': corr_broken, 'correspondence_details': corr_details, 'evaluations': n, 'distinct_nontrivial': len(distinct), 'rule': RULE,
            'samples': samples, 'searched': '%d route comparisons' % n}


def replay(rec):
    return common.replay_by_rerun(sys.modules[__name__], rec)
