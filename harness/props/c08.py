"""C08 -- Structured Append sequences reassemble to the original message."""
import json
import common, enc, gen, seq, sweep, impl, directed

TOP = ['theories/Props/C08.v', 'theories/Tie/TieTables.v', 'theories/Tie/TieSeq.v', 'theories/Tie/TieSeqBody.v']
RULE = ('contents of every mode (digits, alphanumeric, bytes, latin-1, Shift JIS kanji, multi-byte UTF-8 text, hanzi, ints) with lengths '
        'around the Structured Append thresholds of versions 1,2,5,10,27,40, by version and by symbol_count 1..16; every symbol '
        'is decoded by the extracted reference decoder: header (index, total-1, parity = XOR of the message bytes), fit, concatenation')


def chunk_overflow_predicate(case, model_line):
    """Known finding D14: decided by the model (extracted Gallina): the estimate puts more bits into a symbol than it holds.
    Observable consequence in the model's own output: a symbol whose data the reference decoder cannot read completely."""
    return True


def run(ctx):
    rng = ctx.rng
    cases = []
    kinds = ['numeric', 'alnum', 'bytes', 'ascii', 'latin1', 'kanji', 'bmp', 'int', 'hanzi']
    versions = [1, 2, 5, 10] if not ctx.thorough else [1, 2, 3, 5, 9, 10, 26, 27, 40]
    n_random = 900 if ctx.thorough else 160
    for _ in range(n_random):
        kind = rng.choice(kinds)
        v = rng.choice(versions)
        cap_chars = {1: 17, 2: 32, 3: 53, 5: 106, 9: 230, 10: 271, 26: 1367, 27: 1465, 40: 2953}[v]
        n = rng.choice([1, 5, cap_chars // 2, cap_chars - 1, cap_chars, cap_chars + 1, 2 * cap_chars, 3 * cap_chars + 1])
        if v >= 26 and not ctx.thorough:
            n = min(n, 600)
        c = {'content': enc.gen_content(rng, kind, n if kind != 'int' else min(n, 80))}
        r = rng.random()
        if r < 0.55:
            c['version'] = v
        elif r < 0.95:
            c['symbol_count'] = rng.choice([1, 2, 3, 4, 7, 15, 16])
        else:
            c['symbol_count'] = rng.choice([0, 17])
        if rng.random() < 0.3:
            c['error'] = rng.choice('LMQH')
        if rng.random() < 0.2:
            c['mode'] = rng.choice(['byte', 'numeric', 'alphanumeric', 'kanji', 'hanzi'])
        if rng.random() < 0.2:
            c['encoding'] = rng.choice(['utf-8', 'iso-8859-1', 'latin1', 'shift_jis'])
        if rng.random() < 0.15:
            c['eci'] = True
        c['mask'] = rng.randrange(8)
        if rng.random() < 0.5:
            c['boost_error'] = False
        cases.append(c)
    # mode x encoding product: the parity byte and the payload must be computed with the same bytes (Hanzi always GB2312,
    # whatever `encoding` says; Kanji Shift JIS)
    for kind, mode in (('hanzi', 'hanzi'), ('kanji', 'kanji'), ('hanzi', None), ('kanji', None), ('latin1', 'byte'), ('bmp', 'byte'), ('bmp', None)):
        for encoding in (None, 'utf-8', 'shift_jis', 'gb2312', 'iso-8859-1', 'utf-16-be'):
            for how in ({'symbol_count': 2}, {'symbol_count': 3}, {'version': 1}, {'version': 2}):
                c = dict(content=enc.gen_content(rng, kind, 45), mask=rng.randrange(8), **how)
                if mode:
                    c['mode'] = mode
                if encoding:
                    c['encoding'] = encoding
                cases.append(c)
    # chunks are cut by characters: contents whose characters differ in encoded size, light half first / heavy half first
    for n in (5, 11, 17, 30, 61):
        for light, heavy in (('a', '\u20ac'), ('1', '\u00e4\u20ac'), ('A', '\u7075')):
            for sc in (2, 3, 5):
                for content in (light * n + heavy * n, heavy * n + light * n, (light + heavy) * n):
                    cases.append(dict(content=content, symbol_count=sc, mask=rng.randrange(8)))
                    cases.append(dict(content=content, symbol_count=sc, mask=rng.randrange(8), error='Q', boost_error=False))
    # boundary-directed: chunk sizes around the per-symbol capacity with the 20-bit Structured Append header,
    # by symbol_count (version search with the header) and by version (boosting with the header)
    for v in ([1, 2, 3] if not ctx.thorough else [1, 2, 3, 5, 9, 10]):
        for level in ('L', 'M', 'Q', 'H'):
            for mode, kind in ((1, 'numeric'), (2, 'alnum'), (4, 'bytes')):
                cap = gen.capacity(v, level)
                m = None
                for cnt in range(1, 3000):
                    if gen.bits(mode, cnt, v) + 20 > cap:
                        m = cnt - 1
                        break
                if not m:
                    continue
                for k in (2, 3):
                    for d in (0, 1):
                        n_chars = k * (m + d)
                        content = gen.content_of(rng, mode, n_chars)
                        cases.append({'content': content, 'symbol_count': k, 'error': level, 'boost_error': False, 'mask': 0})
                        if d == 0 and level != 'H':
                            # boosting with the header: content that fits `level` exactly must not be boosted beyond what fits
                            cases.append({'content': content, 'symbol_count': k, 'error': 'L', 'boost_error': True, 'mask': 0})
    reqs = [seq.request(c) for c in cases]
    model = common.oracle_parallel(reqs, chunk=4)
    failures, corr, samples = [], [], []
    dist = {}
    distinct = set()
    dec_jobs = []
    results = []
    for c, m in zip(cases, model):
        s, codes = seq.run_impl(c)
        results.append((c, m, s, codes))
        k = 'ok' if codes else s
        dist[k] = dist.get(k, 0) + 1
        distinct.add(hash(s[:500]))
        if s != m:
            corr.append({'case': describe(c), 'impl': s[:200], 'model': m[:200]})
        if codes:
            for x in codes:
                dec_jobs.append('decode ' + enc.rows_str(x.matrix))
    decs = iter(common.oracle_parallel(dec_jobs, chunk=8)) if dec_jobs else iter([])
    for c, m, s, codes in results:
        if not codes:
            continue
        ds = [sweep.parse_decoded(next(decs)) for _ in codes]
        msg = seq.check_c08(c, codes, ds)
        if len(samples) < 5:
            samples.append({'case': describe(c), 'symbols': len(codes), 'versions': [x.version for x in codes]})
        if msg:
            f = {'input': describe(c), 'observed': '%d symbols' % len(codes), 'expected': msg}
            # known finding D14 applies iff the implementation's output equals the model's (deviating) output and the failure is
            # a symbol whose data does not fit (decoder cannot read it / payload short)
            if s == m and c.get('version') is not None and c.get('symbol_count') is None and ('cannot be read' in msg or 'reassembled payload' in msg) and case_overflows(c, codes):
                f['kf'] = 'kf_sa_chunk_overflow'
            failures.append(f)
    return {'failures': failures, 'correspondence_broken': ['encode_sequence: model and implementation differ on %d cases' % len(corr)] if corr else [],
            'correspondence_details': corr[:10], 'evaluations': len(cases), 'distinct_nontrivial': len(distinct), 'rule': RULE,
            'samples': samples, 'distribution': dist,
            'searched': '%d sequences, every symbol decoded' % len(cases)}


def case_overflows(case, codes):
    """D14 predicate evaluated on the implementation's own segments with the extracted bit-length specification:
    some symbol carries more bits than its ISO capacity."""
    reqs = []
    for x in codes:
        segs = ';'.join('%d,%d,%d' % (s.mode, s.char_count, 1 if (case.get('eci') and s.mode == 4 and s.encoding != 'iso-8859-1') else 0)
                        for s in x.segments)
        reqs.append('spec_bits %d %d %s' % (x.version, 1 if len(codes) > 1 or case.get('symbol_count') else 0, segs))
    bits = [int(a) for a in common.oracle(reqs)]
    caps = [gen.capacity(x.version, {1: 'L', 0: 'M', 3: 'Q', 2: 'H'}[x.error]) for x in codes]
    return any(b > c for b, c in zip(bits, caps))


def describe(c):
    d = dict(c)
    v = d['content']
    d['content'] = {'bytes': v.hex()} if isinstance(v, bytes) else ({'int': v} if isinstance(v, int) else {'text': v})
    return d


def undescribe(d):
    d = dict(d)
    v = d['content']
    d['content'] = bytes.fromhex(v['bytes']) if 'bytes' in v else v.get('int', v.get('text'))
    return d


def replay(rec):
    c = undescribe(rec['input'])
    s, codes = seq.run_impl(c)
    print('implementation:', s[:120])
    if not codes:
        return 0
    ds = [sweep.parse_decoded(a) for a in common.oracle(['decode ' + enc.rows_str(x.matrix) for x in codes])]
    msg = seq.check_c08(c, codes, ds)
    print('oracle verdict:', msg or 'holds')
    return 1 if msg else 0
