"""C10 -- vector outputs (SVG, EPS, PDF, PGF/TikZ) paint exactly the dark modules.

Every implementation output is parsed by the extracted INDEPENDENT reader of its format (theories/Ref/SvgReader.v,
SvgReaderDec.v, VectorReader.v: XML / SVG path data, PostScript subset, PDF file structure + content stream, PGF basic
layer); the painted unit cells, colours and page size are compared with the extracted pixel specification
(Ref/Pixel.v pixel_grid at scale 1).  The extracted writer models (Model/Svg.v, Model/Vector.v) are compared with the
implementation text byte for byte (correspondence)."""
import io
import json
import re
import zlib
from fractions import Fraction

import common, impl
import segno
from segno import writers

TOP = ['theories/Props/C10.v', 'theories/Props/C10_vector.v', 'theories/Tie/TieTables.v',
       'theories/Tie/TieUtils.v', 'theories/Tie/TieUtilsIter.v',
       'theories/Tie/TieVecCommon.v', 'theories/Tie/TieVecTex.v', 'theories/Tie/TieVecPdf.v', 'theories/Tie/TieVecEps.v',
       'theories/Tie/TieSvg.v']
RULE = ('symbols M1..M4, 1, 2, 7 (10, 40 in thorough) + Micro QR symbols with a completely light row + hand-made 5x5 matrices (direct writer calls) x integer '
        'scales {1,2,3,10} x fractional scales {0.5,1.5,2.25,3.3} x borders {0,1,4,default} x dark / light colour sets x SVG option sets (xmldecl, svgns, nl, '
        'omitsize, unit, svgversion, title/desc/id/class with markup characters, draw_transparent, per-module-type colours); every SVG / EPS / PDF / TeX output '
        'is parsed by the extracted independent reader: page = (size+2b)*s, stroked cells after the document\'s own transform = dark modules + border '
        '(each once, none outside), stroke colour = dark, light colour fills the page, PDF /Length and xref offsets; extracted writer models == '
        'implementation text for integer and dyadic scales (time stamps and the deflated PDF stream are taken from the real file)')

NAMES = {'black': (0, 0, 0), 'white': (255, 255, 255), 'red': (255, 0, 0), 'darkblue': (0, 0, 139), 'yellow': (255, 255, 0), 'green': (0, 128, 0),
         'navy': (0, 0, 128), 'tan': (210, 180, 140), 'blue': (0, 0, 255)}


def cps(s):
    return '.'.join(str(ord(c)) for c in s) or '-'


def uncps(t):
    return '' if t in ('-', '') else ''.join(chr(int(x)) for x in t.split('.'))


def ostr(v):
    return 'N' if v is None else 'S:' + cps(v)


def unostr(t):
    return None if t == 'N' else uncps(t[2:])


def ctok(c):
    if c is None:
        return 'N'
    if isinstance(c, str):
        return 'S:' + ('.'.join(str(ord(ch)) for ch in c))
    return 'T:' + '.'.join(str(int(x)) for x in c)


def rgba_of(c):
    """Independent reading of the colours used by the generator: names above, #rgb, #rrggbb, #rrggbbaa, rgba(r,g,b,a), int tuples."""
    if c is None:
        return None
    if isinstance(c, tuple):
        return tuple(c) + ((255,) if len(c) == 3 else ())
    c = c.strip().lower()
    if c in NAMES:
        return NAMES[c] + (255,)
    m = re.fullmatch(r'rgba\((\d+),(\d+),(\d+),([0-9.]+)\)', c)
    if m:
        return (int(m.group(1)), int(m.group(2)), int(m.group(3)), float(m.group(4)) * 255)
    h = c.lstrip('#')
    if not c.startswith('#') or len(h) not in (3, 4, 6, 8) or any(ch not in '0123456789abcdef' for ch in h):
        return 'unknown colour %r' % c
    if len(h) in (3, 4):
        h = ''.join(ch * 2 for ch in h)
    v = tuple(int(h[i:i + 2], 16) for i in range(0, len(h), 2))
    return v + ((255,) if len(v) == 3 else ())


def same_rgba(a, b, tol_alpha=1.5):
    if a is None or b is None or isinstance(a, str) or isinstance(b, str):
        return a == b
    return tuple(a[:3]) == tuple(b[:3]) and abs(a[3] - b[3]) <= tol_alpha


def rows_str(m):
    return '/'.join(''.join('1' if b else '0' for b in r) for r in m)


def scale_fraction(s):
    return Fraction(s) if isinstance(s, int) else Fraction(str(s))


def is_half(s):
    return (scale_fraction(s) * 2).denominator == 1


def is_dyadic(s):
    d = scale_fraction(s).denominator
    return d & (d - 1) == 0


def close(a, b, exact):
    if exact:
        return a == b
    return abs(a - b) <= Fraction(1, 10 ** 9) * abs(b)


def parse_cells(tok):
    if tok == '!':
        return None
    if tok == '-':
        return []
    return [tuple(int(v) for v in c.split(',')) for c in tok.split('|')]


def scale_token(s):
    """Python int / float with its exact value for the Vector.v model."""
    if isinstance(s, int):
        return 'I:%d' % s
    f = Fraction(s)          # exact binary value
    return 'Q:%d/%d' % (f.numerator, f.denominator)


# ------------------------------------------------------------------ option sets
SVG_VARIANTS = [
    dict(), dict(dark='black'), dict(dark='#000', light='white'), dict(dark='red', light='#ff0'), dict(dark='darkblue', light=None),
    dict(dark=(255, 0, 0), light='white'), dict(dark='#00000080'), dict(dark='#00000080', svgversion=2.0), dict(dark='#00000080', light='#ff0', svgversion=2),
    dict(xmldecl=False), dict(svgns=False, nl=False), dict(omitsize=True), dict(omitsize=True, light='white'), dict(unit='mm'), dict(unit='mm', light='#ff0', dark='red'),
    dict(svgversion=1.1), dict(svgversion=2.0, dark='darkblue'), dict(title='T <&> "q" \'a\'', desc='D <&>"\n ]]>'), dict(title='', desc='ä€\U0001F600'),
    dict(svgid='i<d', svgclass='c&l"a\'s', lineclass='l>c'), dict(svgid='', svgclass=None, lineclass=None, light='white'), dict(svgclass='a b', lineclass='"', light='#ff0'),
    dict(draw_transparent=True), dict(draw_transparent=True, light='white'), dict(encoding=None), dict(xmldecl=False, encoding=None, nl=False, svgns=False, omitsize=True),
    dict(finder_dark='red', data_dark='green', quiet_zone='yellow'), dict(finder_dark='red', data_dark='green', quiet_zone='yellow', draw_transparent=True),
    dict(finder_dark='red', data_dark='green', quiet_zone='yellow', light='white', unit='mm'), dict(finder_dark='red', data_dark='green', quiet_zone='yellow', svgversion=2.0,
                                                                                                     dark='#00000080'),
    dict(dark='#000', light=None, quiet_zone='#000'), dict(finder_dark='#f00', finder_light='red', dark='darkblue'),
    # exactly two distinct colour values, but not split "dark types / light types" (the cheap two-colour rendering must not be used)
    dict(dark='#123456', light='#fedcba', quiet_zone='#123456'), dict(dark='#123456', quiet_zone='#123456'),
    dict(dark='#123456', light='#fedcba', finder_light='#123456'), dict(dark='#123456', light='#fedcba', data_dark='#fedcba'),
    dict(dark='#123456', light='#fedcba', separator='#123456', quiet_zone='#fedcba'),
]
COINCIDING = SVG_VARIANTS[-5:]
VEC_COLOURS = [dict(dark=d, light=li) for d in ('black', '#000', 'red', 'darkblue', (255, 0, 0), '#010203') for li in (None, 'white', '#ff0')]
TEX_VARIANTS = [dict(), dict(dark='black'), dict(dark='red'), dict(dark='darkblue', unit='mm'), dict(url='http://example.org/'), dict(dark='', unit='pt')]
INT_SCALES = [1, 2, 3, 10]
FRAC_SCALES = [0.5, 1.5, 2.25, 3.3]
BORDERS = [0, 1, 4, None]
COLOUR_KEYS = ('finder_dark', 'finder_light', 'data_dark', 'data_light', 'version_dark', 'version_light', 'format_dark', 'format_light',
               'alignment_dark', 'alignment_light', 'timing_dark', 'timing_light', 'separator', 'dark_module', 'quiet_zone')


class Subject:
    """A symbol (or a hand-made matrix): matrix as tuple of bytearrays, size, description."""

    def __init__(self, desc, matrix, handmade=False):
        self.desc, self.matrix, self.handmade = desc, tuple(bytearray(r) for r in matrix), handmade
        self.size = len(self.matrix)
        self.rows = rows_str(self.matrix)
        self.dflt = 2 if self.size < 21 else 4

    def save(self, out, kind, **kw):
        fn = {'svg': writers.write_svg, 'eps': writers.write_eps, 'pdf': writers.write_pdf, 'tex': writers.write_tex}[kind]
        fn(self.matrix, (self.size, self.size), out, **kw)


def subjects(ctx):
    syms = [dict(content='1', version='M1'), dict(content='AB', version='M2'), dict(content='abc', version='M3'), dict(content='12345678', version='M4'),
            dict(content='HELLO', version=1, error='H'), dict(content='version two', version=2), dict(content='seven', version=7)]
    if ctx.thorough:
        syms += [dict(content='x' * 50, version=10), dict(content='y' * 100, version=40)]
    out = [Subject(s, segno.make(boost_error=False, **s).matrix) for s in syms]
    # structurally unusual symbols: a completely light / completely dark row (run-length code keeps state across rows)
    light_rows, dark_rows = [], []
    for n in range(300):
        cands = [(dict(content=str(n), micro=True), lambda: segno.make_micro(str(n)))]
        cands += [(dict(content=str(n), version='M3', error='L', mask=m), (lambda m=m: segno.make(str(n), version='M3', error='L', mask=m))) for m in range(4)]
        for d, f in cands:
            try:
                q = f()
            except Exception:  # noqa: BLE001
                continue
            if any(not any(r) for r in q.matrix) and len(light_rows) < (6 if ctx.thorough else 3):
                light_rows.append(Subject(dict(d, feature='all-light row', designator=q.designator), q.matrix))
            if any(all(r) for r in q.matrix) and len(dark_rows) < 3:
                dark_rows.append(Subject(dict(d, feature='all-dark row', designator=q.designator), q.matrix))
    # last row ending with a dark / a light module
    ends = {}
    for s in out:
        ends.setdefault(bool(s.matrix[-1][-1]), s)
    for n in range(50):
        if len(ends) == 2:
            break
        q = segno.make(str(n), version=1, error='L')
        ends.setdefault(bool(q.matrix[-1][-1]), Subject(dict(content=str(n), version=1, error='L', feature='last module'), q.matrix))
    out += light_rows + dark_rows + [s for s in ends.values() if s not in out]
    hand = {'light middle row': ['11111', '10101', '00000', '01010', '11111'], 'light first row': ['00000', '11111', '10001', '01110', '10101'],
            'light first module': ['01111', '11011', '00100', '10001', '11110'], 'all dark': ['11111'] * 5, 'all light but one corner': ['00000'] * 4 + ['00001'],
            'single dark first corner': ['10000'] + ['00000'] * 4, 'alternating': ['10101', '01010', '10101', '01010', '10101'],
            'light last row': ['11111', '10001', '10101', '11011', '00000']}
    out += [Subject({'handmade': k}, [[int(ch) for ch in r] for r in v], handmade=True) for k, v in hand.items()]
    return out


# ------------------------------------------------------------------ jobs
class Job:
    """One implementation output: produces oracle requests, then judges the answers."""

    def __init__(self, subj, fmt, scale, border, kw):
        self.subj, self.fmt, self.scale, self.border, self.kw = subj, fmt, scale, border, kw
        self.b = subj.dflt if border is None else border
        self.m = subj.size + 2 * self.b
        self.s = scale_fraction(scale)
        self.exact = isinstance(scale, int) or is_dyadic(scale)
        self.failures, self.corr = [], []
        self.reqs = []          # (tag, request)
        self.ans = {}

    def inp(self, **extra):
        d = {'symbol': self.subj.desc, 'format': self.fmt, 'scale': self.scale, 'border': self.border, 'kw': repr(self.kw)}
        d.update(extra)
        return d

    def fail(self, observed, expected, **extra):
        self.failures.append({'input': self.inp(**extra), 'observed': str(observed)[:400], 'expected': str(expected)[:400]})

    # ---- phase 1: run the implementation, build the requests
    def prepare(self):
        subj = self.subj
        self.reqs.append(('grid', 'pixel_grid %s %d 1 %d' % (subj.rows, subj.size, self.b)))
        text = self.fmt in ('eps', 'tex')
        out = io.StringIO() if text else io.BytesIO()
        r = impl.call(lambda: subj.save(out, self.fmt, scale=self.scale, border=self.border, **self.kw))
        if r[0] != 'ok':
            self.fail('raised %s (%s)' % (r[1], r[2]), 'a %s document' % self.fmt)
            self.data = None
            return
        self.data = out.getvalue()
        getattr(self, 'prepare_' + self.fmt)()

    def bt(self):
        return '-' if self.border is None else str(self.border)

    def prepare_svg(self):
        kw = self.kw
        try:
            self.text = self.data.decode(kw.get('encoding') or 'utf-8')
        except UnicodeError:
            self.fail('bytes are not %s' % (kw.get('encoding') or 'utf-8'), 'encoded XML')
            self.text = None
            return
        self.reqs.append(('read', ('r_svg ' if is_half(self.scale) else 'r_svgq ') + cps(self.text)))
        if is_half(self.scale):
            sc = 'I:%d' % self.scale if isinstance(self.scale, int) else 'H:%d' % int(self.s * 2)
            v = kw.get('svgversion')
            if v is None:
                vt = 'N'
            elif isinstance(v, int):
                vt = 'I:%d' % v
            else:
                ip, frac = repr(v).split('.')
                vt = 'F:%s:%s' % (ip, cps(frac))
            g = kw.get
            opts = [sc, self.bt(), '01'[g('xmldecl', True)], '01'[g('svgns', True)], ostr(g('title')), ostr(g('desc')), ostr(g('svgid')),
                    ostr(g('svgclass', 'segno')), ostr(g('lineclass', 'qrline')), '01'[g('omitsize', False)], ostr(g('unit')), ostr(g('encoding', 'utf-8')), vt,
                    '01'[g('nl', True)], '01'[g('draw_transparent', False)]]
            cols = [ctok(g('dark', '#000')), ctok(g('light'))] + [ctok(kw[k]) if k in kw else '-' for k in COLOUR_KEYS]
            self.reqs.append(('model', 'w_svg %s %d %s %s' % (self.subj.rows, self.subj.size, ' '.join(opts), ' '.join(cols))))
            self.model_want = 'OK ' + cps(self.text)

    def prepare_eps(self):
        data = self.data.encode('ascii', 'replace')
        # DSC wants integers in %%BoundingBox; for fractional scaling factors segno prints floats.  The Gallina reader insists on integers, so the
        # numbers are checked here (decimal, exact / 1e-9) and the reader gets the line with the numbers truncated; everything else is untouched.
        m = re.search(r'^%%BoundingBox: (\S+) (\S+) (\S+) (\S+)$', self.data, re.M)
        self.bbox = None
        if m:
            try:
                self.bbox = [Fraction(x) for x in m.groups()]
            except ValueError:
                self.bbox = None
            if self.bbox is not None and not all(x.denominator == 1 and re.fullmatch(r'-?\d+', t) for x, t in zip(self.bbox, m.groups())):
                repl = '%%%%BoundingBox: %s' % ' '.join(str(int(x)) for x in self.bbox)
                data = (self.data[:m.start()] + repl + self.data[m.end():]).encode('ascii', 'replace')
                self.bbox_rewritten = True
        top = self.m * self.s
        self.reqs.append(('read', 'r_eps %s %s %s' % (data.hex(), frac_tok(self.s), frac_tok(top))))
        if self.exact:
            d = re.search(r'^%%CreationDate: (.*)$', self.data, re.M)
            self.reqs.append(('model', 'w_eps %s %d %s %s %s %s %s' % (self.subj.rows, self.subj.size, cps(d.group(1) if d else ''), scale_token(self.scale), self.bt(),
                                                                      ctok(self.kw.get('dark', '#000')), ctok(self.kw.get('light')))))
            self.model_want = 'OK ' + self.data.encode('latin-1', 'replace').hex()

    def colortab(self):
        comps = set()
        for c in (self.kw.get('dark', '#000'), self.kw.get('light')):
            v = rgba_of(c)
            if isinstance(v, tuple):
                comps.update(v[:3])
        return ','.join('%d=%s' % (c, cps(str(1 / 255.0 * c))) for c in sorted(comps)) or '-'

    def prepare_pdf(self):
        self.reqs.append(('file', 'r_pdf_file 5 ' + self.data.hex()))

    def prepare_pdf2(self):
        """second round: the content stream (needs the answer of r_pdf_file)"""
        a = self.ans.get('file', 'NONE')
        self.content = None
        if not a.startswith('OK '):
            return []
        t = a.split(' ')
        stream = bytes.fromhex('' if t[5] == '-' else t[5])
        self.stream = stream
        d = zlib.decompressobj()
        try:
            self.content = d.decompress(stream)
            self.zlib_ok = d.eof and not d.unused_data
        except zlib.error:
            self.zlib_ok = False
            return []
        out = [('read', 'r_pdf_content %s %s %s' % (self.content.hex() or '-', frac_tok(self.s), frac_tok(self.m * self.s)))]
        if self.exact:
            dark, light = ctok(self.kw.get('dark', '#000')), ctok(self.kw.get('light'))
            date = re.search(rb'/CreationDate\(D:([^)]*)\)', self.data)
            out.append(('model_content', 'w_pdf_content %s %s %d %s %s %s %s' % (self.colortab(), self.subj.rows, self.subj.size, scale_token(self.scale), self.bt(), dark, light)))
            out.append(('model', 'w_pdf %s %s %s %d %s %s %s %s %s' % (stream.hex() or '-', self.colortab(), self.subj.rows, self.subj.size,
                                                                      cps(date.group(1).decode('latin-1') if date else ''), scale_token(self.scale), self.bt(), dark, light)))
            self.model_want = 'OK ' + self.data.hex()
        return out

    def prepare_tex(self):
        data = self.data.encode('utf-8')
        self.reqs.append(('read', 'r_pgf %s %s %s' % (data.hex(), frac_tok(self.s), frac_tok(self.s / 2))))
        if self.exact:
            d = re.search(r'^% Date:     (.*)$', self.data, re.M)
            g = self.kw.get
            self.reqs.append(('model', 'w_tex %s %d %s %s %s %s %s %s' % (self.subj.rows, self.subj.size, cps(d.group(1) if d else ''), scale_token(self.scale), self.bt(),
                                                                         ostr(g('dark', 'black')), cps(g('unit', 'pt')), ostr(g('url')))))
            self.model_want = 'OK ' + data.hex()

    # ---- phase 2: judge
    def expected_cells(self):
        g = [[int(ch) for ch in r] for r in self.ans['grid'].split('/')]
        if len(g) != self.m or any(len(r) != self.m for r in g):
            self.corr.append('pixel_grid has %d rows, expected %d' % (len(g), self.m))
        return set((c, r) for r, row in enumerate(g) for c, v in enumerate(row) if v)

    def check_cells(self, cells, want, what='stroked cells'):
        """cells: list of (col, row) with multiplicity"""
        if cells is None:
            self.fail('%s: the strokes are not unit-wide horizontal segments on the module grid' % what, 'segments on the grid lines of the module rows')
            return False
        cs = set(cells)
        if len(cs) != len(cells):
            dup = sorted(c for c in cs if cells.count(c) > 1)[:3]
            self.fail('%s: painted more than once: %s' % (what, dup), 'every dark module once', at=dup[0])
            return False
        outside = sorted(c for c in cs if not (0 <= c[0] < self.m and 0 <= c[1] < self.m))
        if outside:
            self.fail('%s outside the page: %s' % (what, outside[:3]), 'nothing outside the %dx%d page' % (self.m, self.m), at=outside[0])
            return False
        if cs != want:
            extra, missing = sorted(cs - want), sorted(want - cs)
            self.fail('%s: %d light cells painted %s, %d dark modules missing %s' % (what, len(extra), extra[:3], len(missing), missing[:3]),
                      'exactly the dark modules shifted by the border', at=(extra + missing)[0])
            return False
        return True

    def judge(self):
        if self.data is None:
            return
        want = self.expected_cells()
        getattr(self, 'judge_' + self.fmt)(want)
        if 'model' in self.ans and self.ans['model'] != self.model_want:
            a, w = self.ans['model'], self.model_want
            k = next((i for i in range(min(len(a), len(w))) if a[i] != w[i]), min(len(a), len(w)))
            self.corr.append('%s: model and implementation differ (%s scale %s border %s %r) near %d: model %s / impl %s' % (
                self.fmt, self.subj.desc, self.scale, self.border, self.kw, k, a[max(0, k - 30):k + 30], w[max(0, k - 30):k + 30]))

    # -- SVG
    def judge_svg(self, want):
        if self.text is None:
            return
        kw = self.kw
        g = kw.get
        a = self.ans['read']
        if not a.startswith('OK '):
            self.fail('the independent SVG reader rejects the document: %s' % self.text[:200], 'a well-formed SVG document')
            return
        t = a.split(' ')
        page, width, height, viewbox = t[1:5]
        version, xmlns, sid, scls, title, desc = [unostr(x) for x in t[5:11]]
        paths = [] if t[11] == '-' else [p.split(';') for p in t[11:]]
        W = self.m * self.s
        if page == '-':
            self.fail('no usable page size: width %s height %s viewBox %s' % (width, height, viewbox), 'width/height without unit, or a viewBox')
            return
        pw, ph = [Fraction(x) for x in page.split(',')]
        if not (close(pw, W, self.exact) and close(ph, W, self.exact)):
            self.fail('page %s x %s' % (pw, ph), 'page %s x %s = (size + 2*border) * scale' % (W, W))
        unit = g('unit') or ''
        for name, tok in (('width', width), ('height', height)):
            if g('omitsize', False):
                if tok != '-':
                    self.fail('%s attribute present' % name, 'no width / height with omitsize')
            else:
                if tok == '-':
                    self.fail('%s attribute missing' % name, '%s="%s%s"' % (name, W, unit))
                    continue
                q, u = tok.split(':')
                if not close(Fraction(q), W, self.exact) or uncps(u) != unit:
                    self.fail('%s = %s%s' % (name, Fraction(q), uncps(u)), '%s%s' % (W, unit))
        if viewbox != '-':
            vb = [Fraction(x) for x in viewbox.split(',')]
            if len(vb) != 4 or vb[0] != 0 or vb[1] != 0 or not close(vb[2], W, self.exact) or not close(vb[3], W, self.exact):
                self.fail('viewBox %s' % vb, '0 0 %s %s' % (W, W))
        elif g('omitsize', False) or unit:
            self.fail('no viewBox', 'a viewBox when the size is omitted or carries a unit')
        # escaping / attributes
        for name, got, exp in (('title', title, g('title')), ('desc', desc, g('desc')), ('id', sid, g('svgid') or None), ('class', scls, g('svgclass', 'segno') or None),
                               ('xmlns', xmlns, 'http://www.w3.org/2000/svg' if g('svgns', True) else None)):
            if got != exp:
                self.fail('%s reads back as %r' % (name, got), '%s = %r' % (name, exp))
        v = g('svgversion')
        exp_version = None if v is None or v >= 2 else str(v)
        if version != exp_version:
            self.fail('version attribute %r' % version, 'version = %r' % exp_version)
        # paths
        recs = []
        for i, p in enumerate(paths):
            stroke, opacity, fill, cls, scale, cells, rect = p
            recs.append({'i': i, 'stroke': unostr(stroke), 'opacity': unostr(opacity), 'fill': unostr(fill), 'class': unostr(cls),
                         'scale': None if scale == '!' else Fraction(scale), 'cells': parse_cells(cells),
                         'rect': None if rect == '!' else [Fraction(x) for x in rect.split(',')]})
        stroked = [r for r in recs if r['stroke'] is not None]
        filled = [r for r in recs if r['fill'] is not None]

        def colour_of(r):
            c = rgba_of(r['stroke'])
            if isinstance(c, tuple) and r['opacity'] is not None:
                c = c[:3] + (float(r['opacity']) * 255,)
            return c
        for r in stroked + filled:
            if r['scale'] != self.s:
                self.fail('path %d is drawn under scale %s' % (r['i'], r['scale']), 'the document scales its paths by %s' % self.s)
                return
        colourful = any(k in kw for k in COLOUR_KEYS)
        dark, light = g('dark', '#000'), g('light')
        if not colourful:
            if len(stroked) != 1:
                self.fail('%d stroked paths' % len(stroked), 'one stroked path for the dark modules')
                return
            p = stroked[0]
            self.check_cells(p['cells'], want)
            if not same_rgba(colour_of(p), rgba_of(dark)):
                self.fail('stroke %r opacity %r' % (p['stroke'], p['opacity']), 'the dark colour %r' % (dark,))
            if g('lineclass', 'qrline') and p['class'] != g('lineclass', 'qrline'):
                self.fail('path class %r' % p['class'], 'class %r' % g('lineclass', 'qrline'))
            if light is not None:
                ok = [r for r in filled if r['rect'] == [0, 0, self.m, self.m] and same_rgba(rgba_of(r['fill']), rgba_of(light)) and r['i'] < p['i']]
                if not ok:
                    f = {'input': self.inp(), 'observed': 'no filled path covering the page before the module path (filled paths: %s)' % [(r['fill'], r['rect']) for r in filled],
                         'expected': 'the light colour %r fills the whole %sx%s page' % (light, self.m, self.m)}
                    self.failures.append(f)
            elif filled:
                self.fail('a filled path %r although no light colour was requested' % filled[0]['fill'], 'no background')
        else:
            # per-module-type colours: the implementation's own classification (C11 is about the classification itself)
            verbose = [list(r2) for r2 in impl.utils.matrix_iter_verbose(self.subj.matrix, (self.subj.size, self.subj.size), scale=1, border=self.border)]
            cm = writers._make_colormap(self.subj.size, self.subj.size, dark=dark, light=light, **{k: kw[k] for k in COLOUR_KEYS if k in kw})
            expect = {}
            for r, row in enumerate(verbose):
                for c, mt in enumerate(row):
                    col = rgba_of(cm[mt])
                    if col is not None:
                        expect.setdefault(tuple(col) if isinstance(col, tuple) else col, set()).add((c, r))
            got = {}
            for p in stroked:
                if p['cells'] is None:
                    self.fail('path %d: strokes are not on the module grid' % p['i'], 'unit-wide horizontal segments')
                    return
                col = colour_of(p)
                key = next((k for k in expect if same_rgba(k, col)), col)
                got.setdefault(key, []).extend(p['cells'])
            for key in set(expect) | set(got):
                self.check_cells(got.get(key, []), expect.get(key, set()), what='cells stroked with colour %s' % (key,))
            if filled:
                self.fail('a filled path %r in a multi-colour document' % filled[0]['fill'], 'stroked paths only')
            # dark modules must be covered by some path unless their configured colour is None
            covered = set(c for cs in got.values() for c in cs)
            trans = set((c, r) for r, row in enumerate(verbose) for c, mt in enumerate(row) if cm[mt] is None)
            if (want - trans) - covered:
                self.fail('dark modules not painted: %s' % sorted((want - trans) - covered)[:3], 'every dark module with a colour is painted')

    # -- EPS
    def judge_paints(self, tok, want, dark, light, fill_kind):
        """paints: optional page fill (light) followed by exactly one stroke (dark)"""
        paints = [] if tok == '-' else tok.split(';')
        strokes = [p for p in paints if p.startswith('S:')]
        fills = [p for p in paints if not p.startswith('S:')]
        if len(strokes) != 1:
            self.fail('%d stroke operations' % len(strokes), 'one stroked path')
            return
        _, rgb, width, nseg, cells = strokes[0].split(':')
        if Fraction(width) != self.s:
            self.fail('line width %s in device space' % Fraction(width), 'line width = module size %s' % self.s)
            return
        self.check_cells(parse_cells(cells), want)
        col = [Fraction(x) for x in rgb.split(',')]
        wd = rgba_of(dark)
        if not isinstance(wd, tuple) or any(abs(a - Fraction(b, 255)) > Fraction(1, 10 ** 6) for a, b in zip(col, wd[:3])):
            self.fail('stroke colour %s' % [float(x) for x in col], 'the dark colour %r = %s' % (dark, wd))
        if light is None:
            if fills:
                self.fail('fill operation %s although no light colour was requested' % fills[0][:40], 'no background')
            return
        wl = rgba_of(light)
        good = False
        for p in fills:
            if paints.index(p) > paints.index(strokes[0]):
                continue
            f = p.split(':')
            col = [Fraction(x) for x in f[1].split(',')]
            if any(abs(a - Fraction(b, 255)) > Fraction(1, 10 ** 6) for a, b in zip(col, wl[:3])):
                continue
            if f[0] == 'P':
                good = True
            elif f[0] == 'R':
                lo = [Fraction(x) for x in f[2].split(',')]
                hi = [Fraction(x) for x in f[3].split(',')]
                W = self.m * self.s
                if lo == [0, 0] and close(hi[0], W, self.exact) and close(hi[1], W, self.exact):
                    good = True
        if not good:
            self.fail('no fill of the whole page with the light colour before the stroke: %s' % [p[:60] for p in fills], 'the light colour %r fills the %s x %s page' % (light, self.m * self.s, self.m * self.s))

    def judge_eps(self, want):
        a = self.ans['read']
        if not a.startswith('OK '):
            self.fail('the independent EPS reader rejects the file: %s' % self.data[:300], 'a conforming EPS file (DSC header + the PostScript subset)')
            return
        W = self.m * self.s
        if self.bbox is None or self.bbox[0] != 0 or self.bbox[1] != 0 or not close(self.bbox[2], W, self.exact) or not close(self.bbox[3], W, self.exact):
            self.fail('BoundingBox %s' % (self.bbox,), 'BoundingBox 0 0 %s %s' % (W, W))
        self.judge_paints(a.split(' ')[2], want, self.kw.get('dark', '#000'), self.kw.get('light'), 'P')

    # -- PDF
    def judge_pdf(self, want):
        a = self.ans['file']
        if not a.startswith('OK '):
            self.fail('the independent PDF reader rejects the file structure (header, xref offsets of objects 1..5, /Length, stream, MediaBox, startxref)',
                      'a PDF file whose cross-reference table points at "n 0 obj" and whose /Length is the stream length')
            return
        t = a.split(' ')
        entries = t[2].split(';')
        box = [Fraction(x) for x in t[3].split(',')] if t[3] != '-' else []
        W = self.m * self.s
        if len(box) != 4 or box[0] != 0 or box[1] != 0 or not close(box[2], W, self.exact) or not close(box[3], W, self.exact):
            self.fail('MediaBox %s' % [str(x) for x in box], 'MediaBox 0 0 %s %s' % (W, W))
        if self.content is None or not self.zlib_ok:
            self.fail('/Length %s does not delimit one complete zlib stream' % t[4], '/Length = number of bytes of the deflated content stream')
            return
        if int(t[4]) != len(self.stream):
            self.fail('/Length %s, stream of %d bytes' % (t[4], len(self.stream)), 'equal')
        for k in range(1, 6):
            off, gen, used = entries[k].split(',')
            if used != '1' or not self.data[int(off):].startswith(b'%d 0 obj' % k):
                self.fail('xref entry %d -> offset %s' % (k, off), 'offset of "%d 0 obj"' % k)
        r = self.ans.get('read', 'NONE')
        if not r.startswith('OK '):
            self.fail('the independent content-stream reader rejects: %s' % self.content[:200], 'cm / m / l / re / rg / RG / S / f operators')
            return
        self.judge_paints(r.split(' ')[1], want, self.kw.get('dark', '#000'), self.kw.get('light'), 'R')
        if 'model_content' in self.ans and self.ans['model_content'] != 'OK ' + cps(self.content.decode('latin-1')):
            self.corr.append('pdf content: model and implementation differ (%s scale %s border %s %r): %s / %s' % (
                self.subj.desc, self.scale, self.border, self.kw, uncps(self.ans['model_content'][3:])[:80] if self.ans['model_content'].startswith('OK ') else self.ans['model_content'],
                self.content[:80]))

    # -- TeX
    def judge_tex(self, want):
        a = self.ans['read']
        if not a.startswith('OK '):
            self.fail('the independent PGF reader rejects the file: %s' % self.data[:300], 'a pgfpicture of \\pgfpathmoveto / \\pgfpathlineto / \\pgfusepath{stroke}')
            return
        _, unit, strokes = a.split(' ')
        strokes = [] if strokes == '-' else strokes.split(';')
        if unostr(unit) != self.kw.get('unit', 'pt'):
            self.fail('unit %r' % unostr(unit), 'unit %r' % self.kw.get('unit', 'pt'))
        if len(strokes) != 1:
            self.fail('%d strokes' % len(strokes), 'one stroked path')
            return
        colour, width, nseg, cells, segs = strokes[0].split('~')
        if Fraction(width) != self.s:
            self.fail('line width %s' % Fraction(width), 'line width = module size %s' % self.s)
            return
        cl = parse_cells(cells)
        if cl is None and not self.exact:
            # coordinates are products x * scale formed in binary floating point (e.g. 3 * 3.3 = 9.899999999999999): snap them to the grid
            # with a relative tolerance of 1e-9 and compute the cells here (row r is centred at -(r) * s: top edge of row 0 at s/2)
            cl = []
            for sg in ([] if segs == '-' else segs.split('|')):
                x1, y1, x2, y2 = [Fraction(v) for v in sg.split(',')]
                snapped = []
                for v in (x1, x2, y1, y2):
                    k = round(v / self.s)
                    if abs(v - k * self.s) > Fraction(1, 10 ** 9) * max(abs(v), 1):
                        snapped = None
                        break
                    snapped.append(k)
                if snapped is None or snapped[2] != snapped[3] or snapped[0] > snapped[1]:
                    cl = None
                    break
                cl += [(c, -snapped[2]) for c in range(snapped[0], snapped[1])]
        self.check_cells(cl, want)
        dark = self.kw.get('dark', 'black')
        exp = None if not dark or dark == 'black' else dark
        if unostr(colour) != exp:
            self.fail('\\color %r' % unostr(colour), 'colour %r' % exp)


def frac_tok(f):
    f = Fraction(f)
    return '%d/%d' % (f.numerator, f.denominator)


def run_jobs(jobs):
    for j in jobs:
        j.prepare()
    reqs = [(j, tag, q) for j in jobs for tag, q in j.reqs]
    ans = common.oracle_parallel([q for _, _, q in reqs], chunk=40) if reqs else []
    for (j, tag, _), a in zip(reqs, ans):
        j.ans[tag] = a
    # PDF: second round (content stream of the file the reader extracted)
    second = [(j, tag, q) for j in jobs if j.fmt == 'pdf' and j.data is not None for tag, q in j.prepare_pdf2()]
    ans = common.oracle_parallel([q for _, _, q in second], chunk=40) if second else []
    for (j, tag, _), a in zip(second, ans):
        j.ans[tag] = a
    for j in jobs:
        j.judge()


def make_jobs(ctx, subs):
    rng = ctx.rng
    jobs = []
    counters = {'svg': 0, 'vec': 0, 'tex': 0}

    def nxt(key, lst):
        v = lst[counters[key] % len(lst)]
        counters[key] += 1
        return dict(v)
    all_combos = [(s, b) for s in INT_SCALES + FRAC_SCALES for b in BORDERS]
    must = [(1, 0), (1, None), (2, 0), (2, None)]
    for subj in subs:
        if ctx.thorough and subj.size <= 45:
            combos = all_combos
        elif ctx.thorough:
            # large symbols: sampled combinations; the non-dyadic scale 3.3 is left to the smaller symbols (the exact
            # rational arithmetic of the Gallina readers does not reduce fractions, so thousands of operations on
            # k/2^50 coordinates exhaust memory)
            rest = [c for c in all_combos if c not in must and c[0] != 3.3]
            combos = must + rng.sample(rest, 6)
        else:
            rest = [c for c in all_combos if c not in must]
            combos = must + rng.sample(rest, 3 if subj.handmade else (5 if subj.size <= 25 else 3))
        for scale, border in combos:
            n_svg = 3 if ctx.thorough else (2 if not subj.handmade else 1)
            for _ in range(n_svg):
                kw = nxt('svg', SVG_VARIANTS)
                jobs.append(Job(subj, 'svg', scale, border, kw))
            # the Gallina path interpreters add unreduced rationals: with a fractional scale the denominators grow with
            # every path operator, so symbols beyond 45 modules get integer scales only for the three operator formats
            vscale = scale if (subj.size <= 45 or float(scale).is_integer()) else int(scale) + 1
            for fmt in ('eps', 'pdf'):
                kw = nxt('vec', VEC_COLOURS)
                jobs.append(Job(subj, fmt, vscale, border, kw))
            jobs.append(Job(subj, 'tex', vscale, border, nxt('tex', TEX_VARIANTS)))
    # every SVG variant at least once on a small and on a larger symbol, integer and fractional scale
    for i, v in enumerate(SVG_VARIANTS):
        jobs.append(Job(subs[i % 4], 'svg', [1, 2, 3, 0.5, 1.5, 3.3][i % 6], [None, 0, 1][i % 3], dict(v)))
        jobs.append(Job(subs[4 + i % 3], 'svg', [2, 1, 10, 2.25][i % 4], [0, None, 4][i % 3], dict(v)))
    return jobs


def run(ctx):
    subs = subjects(ctx)
    jobs = make_jobs(ctx, subs)
    run_jobs(jobs)
    failures, corr, hand_notes = [], [], []
    for j in jobs:
        if j.subj.handmade:
            # the property is about symbols: a failure on a hand-made matrix only directs the search (the unusual real symbols are always run)
            hand_notes += ['%s %s scale %s border %s: %s (expected %s)' % (j.subj.desc, j.fmt, j.scale, j.border, f['observed'][:120], f['expected'][:80]) for f in j.failures]
        else:
            failures += j.failures
        corr += j.corr
    uniq, seen = [], set()
    for f in failures:
        k = (f['input'].get('format'), f['expected'][:30], f['observed'][:25], f.get('kf'))
        if k not in seen:
            seen.add(k)
            uniq.append(f)
    dist = {}
    for j in jobs:
        key = '%s:%s' % (j.fmt, 'int' if isinstance(j.scale, int) else ('dyadic' if j.exact else 'decimal'))
        dist[key] = dist.get(key, 0) + 1
    feats = [s.desc for s in subs if isinstance(s.desc, dict) and s.desc.get('feature')]
    samples = [{'symbol': j.subj.desc, 'format': j.fmt, 'scale': j.scale, 'border': j.border, 'kw': repr(j.kw), 'page': str(j.m * j.s)} for j in jobs[:400:57]]
    return {'failures': uniq, 'correspondence_broken': sorted(set(c.split(' (')[0] for c in corr)), 'correspondence_details': corr[:10],
            'evaluations': len(jobs), 'distinct_nontrivial': len(set((repr(j.subj.desc), j.fmt, j.scale, j.border, repr(j.kw)) for j in jobs)),
            'rule': RULE, 'samples': samples, 'distribution': dist,
            'searched': '%d documents read back by the extracted independent readers; unusual symbols: %s; hand-made matrices with findings: %s' % (
                len(jobs), feats, hand_notes[:5] or 'none'),
            'explanation': 'EPS: for fractional scaling factors segno prints decimal numbers in %%BoundingBox (DSC asks for integers); the numbers are compared as decimals by '
                           'the harness and the Gallina reader receives the line with truncated integers.  TeX with a non-dyadic scale: coordinates are floating point '
                           'products, snapped to the grid with 1e-9 relative tolerance by the harness.  Failures on hand-made matrices are notes, not violations.',
            'trusted_extra': ['Python zlib inflates the PDF content stream (DEFLATE is not modelled); time stamps and the deflated stream of the real file are handed to the '
                              'writer models; str(1/255.0*c) is computed by CPython and handed to the PDF model as a table'],
            'hand_notes': hand_notes}


def replay(rec):
    inp = rec['input']
    print(json.dumps(inp, default=str)[:600])
    desc = inp['symbol']
    if isinstance(desc, str):
        desc = eval(desc)  # noqa: S307
    if 'handmade' in desc:
        print('hand-made matrices are not replayed')
        return 1
    mk = {k: v for k, v in desc.items() if k not in ('feature', 'designator')}
    q = segno.make_micro(mk['content']) if mk.get('micro') is True and len(mk) == 2 else segno.make(boost_error=False, **mk) if 'mask' not in mk and 'micro' not in mk else segno.make(**mk)
    subj = Subject(desc, q.matrix)
    kw = eval(inp['kw'])  # noqa: S307 (our own recorded repr)
    j = Job(subj, inp['format'], inp['scale'], inp['border'], kw)
    run_jobs([j])
    for f in j.failures:
        print('observed: %s\nexpected: %s' % (f['observed'], f['expected']))
    return 1 if j.failures else 0
