"""C09 -- raster and text outputs depict exactly the symbol with its quiet zone."""
import io
import json
import struct
import zlib

import sys
import common, enc, impl
import segno

TOP = ['theories/Props/C09.v', 'theories/Props/C09_netpbm.v', 'theories/Tie/TieTables.v',
       'theories/Tie/TieUtils.v', 'theories/Tie/TieUtilsIter.v', 'theories/Tie/TieUtilsVerbose.v',
       'theories/Tie/TieWrCommon.v', 'theories/Tie/TieWrText.v', 'theories/Tie/TieWrNetpbm.v', 'theories/Tie/TieColor.v', 'theories/Tie/TieWrColorFull.v',
       'theories/Tie/TiePng.v']
RULE = ('symbols of sizes 11..45 (and 177 in thorough) x scale {1,2,3,5,8} x border {0,1,2,4,default} x colour sets forcing every PNG colour type / '
        'bit depth and every PAM tuple type; every implementation file is parsed by the extracted INDEPENDENT reader of its format (PNG incl. CRCs; '
        'IDAT inflated with zlib and handed to the reader as the inflate function) and every pixel is compared with the extracted pixel specification; '
        'the extracted writer models are compared byte-for-byte with the implementation (PNG: all chunks except the compressed IDAT, whose inflated '
        'content is compared)')


def cps(s):
    return '.'.join(str(ord(c)) for c in s) or '-'


def ctok(c):
    if c is None:
        return 'N'
    if isinstance(c, str):
        return 'S:' + ('.'.join(str(ord(ch)) for ch in c))
    return 'T:' + '.'.join(str(int(x)) for x in c)


RGB = {'black': (0, 0, 0), 'white': (255, 255, 255), 'red': (255, 0, 0), 'darkblue': (0, 0, 139), 'yellow': (255, 255, 0),
       'green': (0, 128, 0), 'navy': (0, 0, 128), 'aliceblue': (240, 248, 255), 'antiquewhite': (250, 235, 215)}


def rgba_of(c):
    """Independent expectation for the colours used by the generator: names above, #rgb, #rrggbb, #rrggbbaa, int tuples, None."""
    if c is None:
        return (0, 0, 0, 0)
    if isinstance(c, tuple):
        return tuple(c) + ((255,) if len(c) == 3 else ())
    if c.lower() in RGB:
        return RGB[c.lower()] + (255,)
    h = c.lstrip('#')
    if len(h) in (3, 4):
        h = ''.join(ch * 2 for ch in h)
    v = tuple(int(h[i:i + 2], 16) for i in range(0, len(h), 2))
    return v + ((255,) if len(v) == 3 else ())


def rows_str(m):
    return '/'.join(''.join(str(b) for b in r) for r in m)


def grid_of(ans):
    return [[int(ch) for ch in r] for r in ans.split('/')]


def png_chunks(data):
    pos, out = 8, []
    while pos < len(data):
        n = struct.unpack('>I', data[pos:pos + 4])[0]
        out.append((data[pos + 4:pos + 8], data[pos + 8:pos + 8 + n], data[pos:pos + 12 + n]))
        pos += 12 + n
    return out


def run(ctx):
    rng = ctx.rng
    failures, corr, samples = [], [], []
    n = 0
    distinct = set()
    syms = [dict(content='1', version='M1'), dict(content='AB', version='M2'), dict(content='abc', version='M3'), dict(content='12345678', version='M4'),
            dict(content='HELLO', version=1, error='H'), dict(content='version two', version=2), dict(content='seven', version=7)]
    if ctx.thorough:
        syms += [dict(content='x' * 50, version=10), dict(content='y' * 100, version=40)]
    scales = [1, 2, 3] if not ctx.thorough else [1, 2, 3, 5, 8]
    borders = [0, 1, None] if not ctx.thorough else [0, 1, 2, 4, 7, None]
    png_colors = [dict(), dict(dark='darkblue'), dict(light=None), dict(dark='#00000080'), dict(dark=None), dict(dark='#123', light='#fed'),
                  dict(dark=(10, 20, 30), light=(250, 240, 230)), dict(dark='white', light='black'), dict(quiet_zone='black'),
                  dict(finder_dark='red', data_dark='green'), dict(finder_dark='red', data_dark='green', light=None),
                  dict(finder_dark='red', data_dark='green', timing_dark='navy', alignment_dark='yellow', format_dark='darkblue', quiet_zone='#eee'),
                  dict(dark=None, light=None),
                  # the colour the writer would pick as stand-in for "transparent" (first web colour not in the palette) IS the other colour:
                  # name, hex and tuple spellings of aliceblue (240, 248, 255), then of the next candidate antiquewhite
                  dict(dark='aliceblue', light=None), dict(dark='#F0F8FF', light=None), dict(dark=(240, 248, 255), light=None),
                  dict(dark=None, light='aliceblue'), dict(dark='antiquewhite', light=None),
                  dict(finder_dark='aliceblue', data_dark='antiquewhite', light=None)]
    pam_colors = [dict(), dict(light=None), dict(dark='white', light='black'), dict(dark='white', light=None), dict(dark='red'),
                  dict(dark='red', light=None), dict(dark=(10, 20, 30), light=(100, 100, 100)), dict(dark='#1234', light='#fff'), dict(dark='#00000080')]
    for sym in syms:
        q = segno.make(boost_error=False, **sym)
        m = [list(r) for r in q.matrix]
        size = len(m)
        rows = rows_str(m)
        dflt = 2 if size < 21 else 4
        combos = [(s, b) for s in scales for b in borders]
        if not ctx.thorough:
            combos = rng.sample(combos, 5)
        elif size > 45:
            # large symbols: a sample with small scales (a 191 x 8 pixel square per format and colour set is hours of reader time)
            combos = rng.sample([(s, b) for s in (1, 2, 3) for b in borders], 4)
        if size <= 13:
            # every residue of (row width * bit depth) mod 8: the width is odd, so scales 4 / 8 / 16 hit the byte-aligned rows
            combos += [(4, 0), (8, 1), (16, 0)]
        for scale, border in combos:
            b = dflt if border is None else border
            bt = '-' if border is None else str(border)
            want = grid_of(common.oracle(['pixel_grid %s %d %d %d' % (rows, size, scale, b)])[0])
            side = (size + 2 * b) * scale
            if len(want) != side:
                corr.append('pixel_grid has %d rows, expected %d' % (len(want), side))
            distinct.add((size, scale, b))

            def judge(fmt, kw, reader_ans, cell_ok, dims=None):
                nonlocal n
                n += 1
                if reader_ans == 'NONE' or not reader_ans.startswith('OK'):
                    failures.append({'input': {'symbol': sym, 'format': fmt, 'scale': scale, 'border': border, 'kw': repr(kw)},
                                     'observed': 'independent %s reader rejects the file (%s)' % (fmt, reader_ans[:40]), 'expected': 'well-formed file'})
                    return
                t = reader_ans.split(' ')
                if dims is not None:
                    w, h = int(t[1]), int(t[2])
                    if (w, h) != (side, side):
                        failures.append({'input': {'symbol': sym, 'format': fmt, 'scale': scale, 'border': border, 'kw': repr(kw)},
                                         'observed': 'declared %dx%d' % (w, h), 'expected': '%dx%d' % (side, side)})
                        return
                body = t[-1].split('/')
                if len(body) != side:
                    failures.append({'input': {'symbol': sym, 'format': fmt, 'scale': scale, 'border': border, 'kw': repr(kw)},
                                     'observed': '%d rows' % len(body), 'expected': '%d rows' % side})
                    return
                for y, r in enumerate(body):
                    cells = r.split(',') if ',' in r or '.' in r else list(r)
                    if len(cells) != side:
                        failures.append({'input': {'symbol': sym, 'format': fmt, 'scale': scale, 'border': border, 'kw': repr(kw)},
                                         'observed': 'row %d has %d cells' % (y, len(cells)), 'expected': '%d' % side})
                        return
                    for x, c in enumerate(cells):
                        if not cell_ok(c, want[y][x], y, x):
                            failures.append({'input': {'symbol': sym, 'format': fmt, 'scale': scale, 'border': border, 'kw': repr(kw), 'x': x, 'y': y},
                                             'observed': 'pixel %s' % c, 'expected': 'dark' if want[y][x] else 'light'})
                            return

            def model_cmp(fmt, req, got_tok):
                ans = common.oracle([req])[0]
                if ans != got_tok:
                    k = next((i for i in range(min(len(ans), len(got_tok))) if ans[i] != got_tok[i]), -1)
                    corr.append('%s: model and implementation differ (%s scale %s border %s) near %d: %s vs %s' % (
                        fmt, sym, scale, border, k, ans[max(0, k - 20):k + 20], got_tok[max(0, k - 20):k + 20]))

            # ---- PBM (P4 / P1)
            for plain in (False, True):
                out = io.BytesIO()
                q.save(out, kind='pbm', scale=scale, border=border, plain=plain)
                judge('pbm', {'plain': plain}, common.oracle(['r_pbm ' + out.getvalue().hex()])[0], lambda c, w, y, x: c == str(w), dims=True)
            # ---- XBM
            out = io.StringIO()
            q.save(out, kind='xbm', scale=scale, border=border)
            txt = out.getvalue()
            judge('xbm', {}, common.oracle(['r_xbm ' + cps(txt)])[0], lambda c, w, y, x: c == str(w), dims=True)
            model_cmp('xbm', 'w_xbm %s %d %d %s %s' % (rows, size, scale, bt, cps('img')), 'OK ' + cps(txt))
            # ---- XPM
            for kw in (dict(), dict(dark='#00f', light=None), dict(dark=(1, 2, 254), light='#ffffff')):
                out = io.StringIO()
                q.save(out, kind='xpm', scale=scale, border=border, **kw)
                txt = out.getvalue()
                d = rgba_of(kw.get('dark', '#000'))
                li = rgba_of(kw.get('light', '#fff')) if kw.get('light', '#fff') is not None else None
                dspec = '#%02x%02x%02x' % d[:3]
                lspec = 'None' if li is None else '#%02x%02x%02x' % li[:3]

                def ok(c, w, y, x, dspec=dspec, lspec=lspec):
                    s = ''.join(chr(int(v)) for v in c.split('.')) if c else ''
                    return s.lower() == (dspec if w else lspec).lower()
                judge('xpm', kw, common.oracle(['r_xpm ' + cps(txt)])[0], ok, dims=True)
                model_cmp('xpm', 'w_xpm %s %d %d %s %s %s %s' % (rows, size, scale, bt, ctok(kw.get('dark', '#000')), ctok(kw.get('light', '#fff')), cps('img')),
                          'OK ' + cps(txt))
            # ---- PNG
            for kw in (png_colors if (scale == combos[0][0] and border == combos[0][1]) or scale in (4, 8, 16) else png_colors[:4]):
                out = io.BytesIO()
                r = impl.call(lambda: q.save(out, kind='png', scale=scale, border=border, **kw))
                if r[0] != 'ok':
                    failures.append({'input': {'symbol': sym, 'format': 'png', 'kw': repr(kw)}, 'observed': r[1], 'expected': 'a PNG file'})
                    continue
                data = out.getvalue()
                chunks = png_chunks(data)
                comp = b''.join(d for t, d, _ in chunks if t == b'IDAT')
                raw = zlib.decompress(comp)
                ans = common.oracle(['r_png %s %s %s' % (data.hex(), comp.hex(), raw.hex() or '-')])[0]
                colourful = any(k.endswith(('_dark', '_light')) or k in ('quiet_zone', 'separator', 'dark_module') for k in kw)
                if colourful:
                    # per-type expectation from the implementation's own classification is C11's business; here: dark/light fallback for untouched types
                    verbose = [list(r2) for r2 in q.matrix_iter(scale=scale, border=border, verbose=True)]
                    cm = impl.writers._make_colormap(size, size, dark=kw.get('dark', '#000'), light=kw.get('light', '#fff'),
                                                     **{k: v for k, v in kw.items() if k not in ('dark', 'light')})

                    def ok(c, w, y, x, verbose=verbose, cm=cm):
                        exp = rgba_of(cm[verbose[y][x]])
                        got = tuple(int(v) for v in c.split('.'))
                        return got == exp or (exp[3] == 0 and got[3] == 0)
                else:
                    d, li = rgba_of(kw.get('dark', '#000')), rgba_of(kw.get('light', '#fff'))

                    def ok(c, w, y, x, d=d, li=li):
                        exp = d if w else li
                        got = tuple(int(v) for v in c.split('.'))
                        return got == exp or (exp[3] == 0 and got[3] == 0)
                judge('png', kw, ans, ok, dims=True)
                # model: chunks before IDAT, raw scanlines, IEND
                opts = [ctok(kw.get('dark', '#000')), ctok(kw.get('light', '#fff'))]
                for k in ('finder_dark', 'finder_light', 'data_dark', 'data_light', 'version_dark', 'version_light', 'format_dark', 'format_light',
                          'alignment_dark', 'alignment_light', 'timing_dark', 'timing_light', 'separator', 'dark_module', 'quiet_zone'):
                    opts.append(ctok(kw[k]) if k in kw else '-')
                pre = ','.join(c[2].hex() for c in chunks if c[0] not in (b'IDAT', b'IEND'))
                iend = [c[2].hex() for c in chunks if c[0] == b'IEND'][0]
                model_cmp('png', 'png_parts %s %d %d %s - %s' % (rows, size, scale, bt, ' '.join(opts)), 'OK %s %s %s' % (pre, raw.hex(), iend))
            # ---- PAM
            for kw in pam_colors:
                out = io.BytesIO()
                r = impl.call(lambda: q.save(out, kind='pam', scale=scale, border=border, **kw))
                if r[0] != 'ok':
                    failures.append({'input': {'symbol': sym, 'format': 'pam', 'kw': repr(kw)}, 'observed': r[1], 'expected': 'a PAM file'})
                    continue
                ans = common.oracle(['r_pam ' + out.getvalue().hex()])[0]
                d = rgba_of(kw.get('dark', '#000'))
                li = rgba_of(kw.get('light', '#fff')) if 'light' not in kw or kw['light'] is not None else None
                meta = ans.split(' ')

                def ok(c, w, y, x, d=d, li=li, meta=meta):
                    depth, maxval = int(meta[3]), int(meta[4])
                    v = [int(t) * 255 // maxval for t in c.split('.')]
                    exp = d if w else li
                    if depth == 1:
                        got = (v[0], v[0], v[0], 255)
                    elif depth == 2:
                        got = (v[0], v[0], v[0], v[1])
                    elif depth == 3:
                        got = (v[0], v[1], v[2], 255)
                    else:
                        got = tuple(v)
                    if exp is None:
                        return got[3] == 0
                    return got == tuple(exp) or (exp[3] == 0 and got[3] == 0)
                judge('pam', kw, ans, ok, dims=True)
            # ---- PPM
            for kw in (dict(), dict(dark='navy', light='#ffe'), dict(finder_dark='red', quiet_zone='yellow')):
                out = io.BytesIO()
                q.save(out, kind='ppm', scale=scale, border=border, **kw)
                ans = common.oracle(['r_ppm ' + out.getvalue().hex()])[0]
                verbose = [list(r2) for r2 in q.matrix_iter(scale=scale, border=border, verbose=True)]
                cm = impl.writers._make_colormap(size, size, dark=kw.get('dark', '#000'), light=kw.get('light', '#fff'),
                                                 **{k: v for k, v in kw.items() if k not in ('dark', 'light')})

                def ok(c, w, y, x, verbose=verbose, cm=cm):
                    return tuple(int(v) for v in c.split('.')) == rgba_of(cm[verbose[y][x]])[:3]
                judge('ppm', kw, ans, ok, dims=True)
            if len(samples) < 5:
                samples.append({'symbol': sym, 'scale': scale, 'border': border, 'side': side})
        # ---- scale-less text formats
        for border in borders:
            b = dflt if border is None else border
            bt = '-' if border is None else str(border)
            want = grid_of(common.oracle(['pixel_grid %s %d 1 %d' % (rows, size, b)])[0])
            side = size + 2 * b
            scale = 1

            def judge_t(fmt, ans, padded=False):
                nonlocal n
                n += 1
                if not ans.startswith('OK '):
                    failures.append({'input': {'symbol': sym, 'format': fmt, 'border': border}, 'observed': 'reader rejects the output', 'expected': 'grid'})
                    return
                g = grid_of(ans[3:])
                if padded and len(g) == side + 1:
                    g = g[:side]
                if g != want:
                    bad = next(((y, x) for y in range(min(len(g), side)) for x in range(min(len(g[y]), side)) if g[y][x] != want[y][x]), None)
                    failures.append({'input': {'symbol': sym, 'format': fmt, 'border': border, 'at': bad},
                                     'observed': '%dx%d grid differs' % (len(g), len(g[0]) if g else 0), 'expected': 'module grid incl. quiet zone'})
            for dark, light in (('1', '0'), ('##', '..')):
                out = io.StringIO()
                q.save(out, kind='txt', border=border, dark=dark, light=light)
                judge_t('txt', common.oracle(['r_txt %s %s %s' % (cps(dark), cps(light), cps(out.getvalue()))])[0])
                a = common.oracle(['w_txt %s %d %s %s %s' % (rows, size, bt, cps(dark), cps(light))])[0]
                if a != 'OK ' + cps(out.getvalue()):
                    corr.append('txt: model and implementation differ (%s border %s)' % (sym, border))
            out = io.StringIO()
            q.terminal(out=out, border=border)
            judge_t('ans', common.oracle(['r_term ' + cps(out.getvalue())])[0])
            if common.oracle(['w_term %s %d %s' % (rows, size, bt)])[0] != 'OK ' + cps(out.getvalue()):
                corr.append('terminal: model and implementation differ (%s border %s)' % (sym, border))
            out = io.StringIO()
            q.terminal(out=out, border=border, compact=True)
            judge_t('compact', common.oracle(['r_termc ' + cps(out.getvalue())])[0], padded=True)
            if common.oracle(['w_termc %s %d %s' % (rows, size, bt)])[0] != 'OK ' + cps(out.getvalue()):
                corr.append('compact terminal: model and implementation differ (%s border %s)' % (sym, border))
    # ---- scale truncation / refusals
    q = segno.make('T', version=1)
    for kind in ('png', 'pbm', 'pam', 'ppm', 'xbm', 'xpm'):
        for scale, want in ((2.9, 2), (1.5, 1)):
            n += 1
            a, bb = io.BytesIO(), io.BytesIO()
            text = kind in ('xbm', 'xpm')
            if text:
                a, bb = io.StringIO(), io.StringIO()
            r = impl.call(lambda: (q.save(a, kind=kind, scale=scale), q.save(bb, kind=kind, scale=want)))
            if r[0] != 'ok' or a.getvalue() != bb.getvalue():
                failures.append({'input': {'format': kind, 'scale': scale}, 'observed': r[1] if r[0] != 'ok' else 'differs from scale %d' % want,
                                 'expected': 'scale truncated to %d' % want})
        for scale in (0, 0.5, -1):
            n += 1
            r = impl.call(lambda: q.save(io.StringIO() if kind in ('xbm', 'xpm') else io.BytesIO(), kind=kind, scale=scale))
            if r[0] == 'ok' or r[1] != 'ValueError':
                failures.append({'input': {'format': kind, 'scale': scale}, 'observed': r[1] if r[0] != 'ok' else 'accepted', 'expected': 'ValueError'})
    # ---- colours that are equal as Python values but mean different things, rendered one after the other in this process:
    #      alpha 1 (int: 1/255, almost transparent) and alpha 1.0 (float: opaque) of the same RGB, both orders; True/1
    q1 = segno.make('1', version='M1')

    def pam_dark_rgba(colour):
        out = io.BytesIO()
        q1.save(out, kind='pam', dark=colour, light=None, border=0, scale=1)
        data = out.getvalue()
        body = data[data.index(b'ENDHDR\n') + 7:]
        hdr = data[:data.index(b'ENDHDR\n')].decode('ascii')
        depth = int([ln.split()[1] for ln in hdr.splitlines() if ln.startswith('DEPTH')][0])
        px = tuple(body[:depth])          # module (0, 0) of a Micro symbol is a dark finder module
        return px
    for rgb, order in (((255, 0, 0), ('float', 'int', 'float')), ((0, 0, 128), ('int', 'float', 'int')), ((9, 8, 7), ('float', 'int'))):
        for form in order:
            n += 1
            colour = rgb + ((1.0,) if form == 'float' else (1,))
            r = impl.call(lambda: pam_dark_rgba(colour))
            want_a = 255 if form == 'float' else 1
            if r[0] != 'ok':
                failures.append({'input': {'format': 'pam', 'dark': repr(colour), 'history': repr(order)}, 'observed': r[1], 'expected': 'RGBA %r' % (rgb + (want_a,),)})
            else:
                px = r[1]
                got = px if len(px) == 4 else (px + (255,) if len(px) == 3 else px)
                if tuple(got) != rgb + (want_a,):
                    failures.append({'input': {'format': 'pam', 'dark': repr(colour), 'history': 'rendered after %r of the same RGB' % (order,)},
                                     'observed': 'dark pixel %r' % (tuple(got),), 'expected': 'RGBA %r' % (rgb + (want_a,),)})
            # the PNG of the same colour must not depend on what was rendered before either
            a = io.BytesIO()
            r2 = impl.call(lambda: q1.save(a, kind='png', dark=colour, light=None, border=0, scale=1))
            if r2[0] == 'ok':
                chunks = {t: d for t, d, _ in png_chunks(a.getvalue())}
                trns = chunks.get(b'tRNS')
                alphas = sorted(trns) if trns else []
                want_alphas = [0, 1] if form == 'int' else [0]
                if alphas != want_alphas and not (form == 'float' and alphas in ([0], [0, 255])):
                    failures.append({'input': {'format': 'png', 'dark': repr(colour), 'history': 'rendered after %r of the same RGB' % (order,)},
                                     'observed': 'tRNS alpha values %r' % alphas, 'expected': 'alpha values %r' % want_alphas})
    uniq, seen = [], set()
    for f in failures:
        k = (f['input'].get('format'), f['observed'][:30])
        if k not in seen:
            seen.add(k)
            uniq.append(f)
    return {'failures': uniq, 'correspondence_broken': sorted(set(c.split(' (')[0] for c in corr)), 'correspondence_details': corr[:10],
            'evaluations': n, 'distinct_nontrivial': len(distinct) * 10, 'rule': RULE, 'samples': samples,
            'searched': '%d files read back by the extracted independent readers' % n,
            'trusted_extra': ['Python zlib is used to inflate PNG IDAT data (DEFLATE is not modelled); struct is used to split PNG chunks for the model comparison']}


def replay(rec):
    return common.replay_by_rerun(sys.modules[__name__], rec)
