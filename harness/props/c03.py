"""C03 -- Reed-Solomon block layout and validity."""
import enc, gen, sweep, encprop

TOP = ['theories/Props/C03.v', 'theories/Tie/TieTables.v', 'theories/Tie/TieEcc.v']
WANT = ('c03',)
RULE = ('all 168 (version, level) layouts with random data of random length (both tiers), plus random cases; on every implementation '
        'matrix the extracted oracle de-interleaves by ISO Table 9 and evaluates all syndromes over GF(256)')
CODES = {1: 'format information unreadable', 2: 'number of modules in the encoding region != 8*codewords + remainder bits',
         3: 'remainder bits not zero', 4: 'wrong number of blocks', 5: 'block sizes differ from Table 9',
         6: 'a block is not a Reed-Solomon codeword (non-zero syndrome)'}


def judge(r):
    if r['code'] is None:
        return None
    a = r.get('c03')
    if a and a != '-':
        return '; '.join(CODES.get(int(x), x) for x in a.split(','))
    return None


def cases(ctx):
    rng = ctx.rng
    out = []
    reps = 3 if ctx.thorough else 1
    for _ in range(reps):
        for v in gen.VERSIONS:
            for level in gen.levels_of(v):
                mode = rng.choice([1, 2, 4]) if v >= -1 else 1
                n = gen.max_count(mode, v, level) or 1
                c = {'content': gen.content_of(rng, mode, rng.choice([1, n // 2, n]) or 1), 'version': enc.vname(v),
                     'mask': rng.randrange(4), 'boost_error': False}
                if level:
                    c['error'] = level
                out.append(c)
    out += [enc.random_case(rng) for _ in range(1000 if ctx.thorough else 150)]
    return out


def run(ctx):
    return encprop.run_cases(ctx, cases(ctx), WANT, judge, RULE, exhaustive=True)


def replay(rec):
    return encprop.replay_case(rec, WANT, judge)
