"""C14 -- arguments honoured or refused with ValueError; nothing else escapes."""
import io
import json
import subprocess
import sys

import common, enc, gen, sweep, impl, seq
import segno

TOP = ['theories/Props/C14.v', 'theories/Tie/TieTables.v', 'theories/Tie/TieMaskArg.v', 'theories/Tie/TieVersion.v', 'theories/Tie/TieNorm.v', 'theories/Tie/TieEncodeTop.v', 'theories/Tie/TieColor.v', 'theories/Tie/TieWrColorFull.v', 'theories/Tie/TieApiQr.v', 'theories/Tie/TieApiMake.v']
RULE = ('product of the documented argument domains for make / make_qr / make_micro / make_sequence including boundary and malformed values '
        '(empty content, odd-length kanji, version "m5", mask 8, error "x", numeric strings with sign/space/underscore, control characters, '
        'Unicode spaces and decimal digits, the 4300-digit limit of int(); bools, case variants including the non-ASCII code points whose '
        'str.lower() / upper() contains an ASCII character: Kelvin sign, dotless i, long s, ligatures), '
        'serializer arguments (scale, border, colours, kind) and the command line; the exception class of the implementation is compared with '
        'the extracted model and checked against the allowed set; alternative spellings must give the canonical symbol')

ALLOWED = {'ValueError', 'DataOverflow', 'UnicodeErr', 'LookupErr'}


def documented_types(c):
    """The exception-class clause of the property quantifies over values of the DOCUMENTED option types (version: int / str /
    None, error and mode: str / None, mask: int / numeric str / None, micro: bool / None).  The generator also draws values of other
    types (bools, internal integer constants, 0 / 1 / '' for micro): those are judged by model correspondence only."""
    def is_int(v):
        return isinstance(v, int) and not isinstance(v, bool)
    v, e, mo, ma, mi = c.get('version'), c.get('error'), c.get('mode'), c.get('mask'), c.get('micro')
    return ((v is None or is_int(v) or isinstance(v, str)) and (e is None or isinstance(e, str)) and (mo is None or isinstance(mo, str))
            and (ma is None or is_int(ma) or isinstance(ma, str)) and (mi is None or isinstance(mi, bool)))


def pv(v):
    if v is None:
        return 'N'
    if isinstance(v, bool):
        return 'B1' if v else 'B0'
    if isinstance(v, int):
        return 'I%d' % v
    if not v:
        return 'S'
    if all(ord(ch) < 128 for ch in v):
        return 'S' + v.encode('ascii').hex()
    return 'U' + '.'.join(str(ord(ch)) for ch in v)      # any str: the code points in decimal (ocaml/driver.ml pyval_of_string)


VERSIONS = [None, 1, 2, 7, 40, 41, 0, -1, 'M1', 'm1', 'M4', 'm3', 'M5', 'm5', '1', ' 2 ', '+3', '0', '-1', '4_0', '1_0', '41', 'x', '', True, False, '007']
ERRORS = [None, 'L', 'l', 'M', 'm', 'Q', 'q', 'H', 'h', 'x', '', 'LL', 1, 0, 3, 2, 4, -1, True, False]
MODES = [None, 'numeric', 'NUMERIC', 'Alphanumeric', 'byte', 'Byte', 'kanji', 'KANJI', 'hanzi', 'Hanzi', 'binary', '', 1, 2, 4, 8, 13, 3, 7, 0, True, False]
MASKS = [None, 0, 3, 4, 7, 8, -1, '0', '7', '8', ' 3', '+2', '-0', 'x', '', True, False, '1_0']
# Strings that separate CPython's int(str) from "strip the str.isspace() characters, then parse" (DESIGN.md 11.11.1): \x1c .. \x1f are
# str.isspace() but never skipped by int(); a str with a non-ASCII code point is first rewritten (Unicode spaces -> ' ', Unicode decimal
# digits -> ASCII digits, anything else refused); single underscores between digits; one sign directly before the digits; more than
# 4300 digit characters are refused.  The digit is 5 for a version, 3 for a mask.
def int_forms(n):
    d, fw, ar, ea, mb = str(n), chr(0xff10 + n), chr(0x660 + n), chr(0x6f0 + n), chr(0x1d7ce + n)    # ASCII, full-width, Arabic-Indic, ..
    return ['\x1c' + d, d + '\x1f', '\x1c' + d + ' ', '\x1c' + d + '\u2003', d + '\x1c\uff10', fw, ar, ea, mb, '0_' + d, '_' + d, d + '_', '0__' + d,
            '+ ' + d, '- ' + d, '+' + d, '-' + d, '++' + d, '\t' + d + '\n', '\x0b' + d + '\x0c\r', '\u2003' + d + '\xa0', '\x85' + d + '\u3000',
            '\u1680' + fw + '\u2028', d + '\u200b', d + '\xe9', '\x7f' + d, '\x7f' + fw, '\uff0b' + d, '\u2212' + d, '\uff10_' + fw, '\u0660' + d, d + '\x00',
            d + ' ' + d, fw + ' ' + fw, d + '.0', '0x' + d, '\xb2', '\u2460', '\x1e', '\x1e\u2003',
            '0' * 4299 + d, '0' * 4300 + d, '\u2003' * 4400 + d, '\uff10' * 4300 + d]


INT_VERSIONS = int_forms(5) + ['1_0', '\uff14\uff10', '\uff14\uff11', '\uff2d1', 'M\uff11', '\u217f1']
INT_MASKS = int_forms(3) + ['\uff17', '\uff18', '\u0664']
VERSIONS += [INT_VERSIONS[i] for i in (0, 1, 2, 5, 6, 10, 13, 18, 20)]      # a few of them in the random product as well
MASKS += [INT_MASKS[i] for i in (0, 1, 2, 5, 6, 10, 13, 18, 20)]
# str.lower() / str.upper() beyond ASCII (DESIGN.md 11.14.1).  Python lowers the Kelvin sign U+212A to 'k' ('\u212aanji' IS kanji) and
# U+0130 to 'i' + U+0307; upper() maps dotless i U+0131 to 'I', long s U+017F to 'S', sharp s to 'SS', U+1E96 to 'H' + U+0331, the
# ligatures U+FB00 .. U+FB06 to 'FF' .. 'ST'.  Every other non-ASCII code point has an image without ASCII characters.
CASE_MODES = ['\u212aanji', '\u212aANJI', 'kanj\u0131', 'KANJ\u0131', 'kanj\u0130', 'KANJ\u0130', 'byt\xe9', 'BYT\xc9', 'han\u017fi', 'alphanumer\u0131c',
              '\u212a', 'kanji\u0307', 'numeri\u0441', 'HAN\u2124I', '\uff4banji']
CASE_ERRORS = ['\u017f', '\u0131', '\u1e96', '\ufb02', '\xdf', '\u212a', 'l\u0307', '\uff2c', '\u216c', 'h\u0331', '\u210d', '\u211a']
CASE_VERSIONS = ['m\u0131', 'M\u0131', '\u017f1', '\uff2d1', '\u217f1', 'm\uff11', '\u2133\u0031', 'M1\u0307', '\ufb011', '\xdf1']
MODES += CASE_MODES[:6]
ERRORS += CASE_ERRORS[:4]
VERSIONS += CASE_VERSIONS[:3]
CONTENTS = ['', '0', '12345', 'HELLO WORLD', 'hello', 'ä', '点', '漢字', 'a' * 20, b'', b'\x81', b'\x93\x5f', b'\x93\x5f\x93', b'\x82\x00', 0, 7, 12345678901234567890, -5,
            'A' * 4296, '1' * 7089, '1' * 7090, b'\xff' * 2953, b'\xff' * 2954, '\ud800']


def encargs_request(c):
    mode = c.get('mode')
    hanzi = (isinstance(mode, str) and mode.lower() == 'hanzi') or (mode == 13 and not isinstance(mode, bool))
    eff = 'hanzi' if hanzi else None
    toks = ['encargs', pv(c.get('error')), pv(c.get('version')), pv(mode), pv(c.get('mask')), '1' if c.get('eci') else '0',
            pv(c.get('micro')), '1' if c.get('boost_error', True) else '0']
    content = c['content']
    tok = enc.part_token(content, eff, c.get('encoding'))
    # the mode field of the part token is overwritten by the driver with the normalised global mode
    toks.append(tok)
    return ' '.join(toks)


def run_make(c, fn):
    kw = {k: v for k, v in c.items() if k not in ('content',) and not k.startswith('_')}
    r = impl.call(lambda: fn(c['content'], **kw))
    if r[0] == 'ok':
        q = r[1]
        code = q._code if hasattr(q, '_code') else None
        return 'OK %s %s %s' % (q.designator, q.mask, enc.rows_str(q.matrix)), q
    return 'ERR ' + r[1], None


def run(ctx):
    rng = ctx.rng
    failures, corr, samples = [], [], []
    dist = {}
    n_cases = 0
    distinct = set()
    # ---- 1. encoder.encode argument product: implementation vs model, exception classes
    cases = []
    n = 2500 if ctx.thorough else 700
    for _ in range(n):
        c = {'content': rng.choice(CONTENTS[:18]) if rng.random() < 0.9 else rng.choice(CONTENTS)}
        for key, dom in (('version', VERSIONS), ('error', ERRORS), ('mode', MODES), ('mask', MASKS)):
            if rng.random() < 0.55:
                c[key] = rng.choice(dom)
        if rng.random() < 0.25:
            c['micro'] = rng.choice([True, False, None, 0, 1, ''])
        if rng.random() < 0.2:
            c['eci'] = True
        if rng.random() < 0.2:
            c['encoding'] = rng.choice(['utf-8', 'latin1', 'shift_jis', 'no-such-codec', 'ascii'])
        if rng.random() < 0.3:
            c['boost_error'] = False
        cases.append(c)
    # exhaustive small scope: every version class x every mask value (int and numeric string) x micro
    for ver in ('M1', 'M2', 'M3', 'M4', 'm4', 1, 2, 7, 40, '1', None):
        for mk in list(range(-1, 9)) + [str(k) for k in range(0, 9)]:
            for micro in (None, True, False):
                content = '1' if ver in ('M1',) else ('12345678901234567890' if ver is None else '12')
                c = {'content': content, 'version': ver, 'mask': mk}
                if micro is not None:
                    c['micro'] = micro
                if ver is None:
                    c['error'] = 'M'
                cases.append(c)
    # every version x every error level spelling x every mode
    for ver in ('M1', 'M2', 'M3', 'M4', 1, 40):
        for err in (None, 'L', 'M', 'Q', 'H', 'l', 'h'):
            for mode in (None, 'numeric', 'alphanumeric', 'byte', 'kanji', 'hanzi'):
                cases.append({'content': '12', 'version': ver, 'error': err, 'mode': mode})
    # int(str): every discriminating string as the version and as the mask (Micro and not), and the Unicode tables of the model
    for v in INT_VERSIONS:
        cases.append({'content': '12', 'version': v})
    for mk in INT_MASKS:
        cases.append({'content': '12', 'mask': mk})
        cases.append({'content': '12', 'mask': mk, 'version': 'M3'})
    spaces, zeros = int_tables_of_cpython()
    for sp in spaces:
        cases.append({'content': '12', 'version': chr(sp) + '5' + chr(sp)})
        cases.append({'content': '12', 'mask': '3' + chr(sp)})
    for z in zeros:
        if z > 127:
            cases.append({'content': '12', 'version': chr(z) + chr(z + 7)})
            cases.append({'content': '12', 'mask': chr(z + 3)})
            cases.append({'content': '12', 'version': chr(z - 1)})
            cases.append({'content': '12', 'version': chr(z + 10)})
    # str.lower() / str.upper() beyond ASCII: every discriminating spelling through encode() ...
    for mo in CASE_MODES:
        cases.append({'content': b'\x93\x5f', 'mode': mo})
        cases.append({'content': '12', 'mode': mo, 'version': 1})
    for e in CASE_ERRORS:
        cases.append({'content': '12', 'error': e})
    for v in CASE_VERSIONS:
        cases.append({'content': '12', 'version': v})
    # ... and through the normalisers alone (oracle commands norm_mode / norm_error / norm_version), one code point at a time as well:
    # each listed code point in the place of the ASCII letter it maps to, in every name that has that letter
    lower_sp, upper_sp, case_problems = case_tables_of_cpython()
    for prob in case_problems:
        corr.append({'case': 'str.lower() / str.upper() of the running interpreter', 'impl': prob[:120], 'model': 'Base/PyCase.v assumes otherwise'})
    norm_modes = list(MODES) + CASE_MODES
    norm_errors = list(ERRORS) + CASE_ERRORS
    norm_versions = [v for v in VERSIONS if not (isinstance(v, str) and len(v) > 100)] + CASE_VERSIONS
    for c, img in lower_sp:
        for name in ('numeric', 'alphanumeric', 'byte', 'kanji', 'hanzi'):
            for ch in set(img):
                if ch in name:
                    norm_modes += [name.replace(ch, chr(c)), name.upper().replace(ch.upper(), chr(c)), name.replace(img, chr(c))]
    for c, img in upper_sp:
        for name in ('L', 'M', 'Q', 'H', 'M1', 'M2', 'M3', 'M4'):
            for ch in set(img):
                if ch in name:
                    (norm_errors if len(name) == 1 else norm_versions).extend([name.replace(ch, chr(c)), name.lower().replace(ch.lower(), chr(c))])
        norm_errors.append(chr(c))
        norm_versions.append(chr(c) + '1')
    nreq, nimpl = [], []
    for v in norm_modes:
        nreq.append('norm_mode ' + pv(v))
        nimpl.append((('normalize_mode', v), impl.call(lambda: impl.encoder.normalize_mode(v))))
    for v in norm_errors:
        for acc in (True, False):
            nreq.append('norm_error %s %d' % (pv(v), acc))
            nimpl.append((('normalize_errorlevel', v, acc), impl.call(lambda: impl.encoder.normalize_errorlevel(v, accept_none=acc))))
    for v in norm_versions:
        nreq.append('norm_version ' + pv(v))
        nimpl.append((('normalize_version', v), impl.call(lambda: impl.encoder.normalize_version(v))))
    for (what, r), m in zip(nimpl, common.oracle_parallel(nreq, chunk=200)):
        n_cases += 1
        s = ('OK %s' % ('-' if r[1] is None else int(r[1]))) if r[0] == 'ok' else 'ERR ' + r[1]
        dist['norm ' + (s if s.startswith('ERR') else 'ok')] = dist.get('norm ' + (s if s.startswith('ERR') else 'ok'), 0) + 1
        if s != m:
            corr.append({'case': {'call': what[0], 'args': [repr(a) for a in what[1:]]}, 'impl': s, 'model': m})
        if r[0] != 'ok' and r[1] not in ALLOWED:
            failures.append({'input': {'call': what[0], 'args': [repr(a) for a in what[1:]]}, 'observed': '%s: %s' % (r[1], r[2]),
                             'expected': 'a value or ValueError'})
    case_model = common.oracle_parallel(['case_tables'], chunk=1)[0]
    fmt = lambda tab: ';'.join('%d:%s' % (c, ','.join(str(ord(x)) for x in img)) for c, img in tab) or '-'
    case_want = '%s %s' % (fmt(lower_sp), fmt(upper_sp))
    if case_model != case_want:
        corr.append({'case': 'non-ASCII code points whose str.lower() / str.upper() contains an ASCII character, with their images',
                     'impl': case_want[:200], 'model': case_model[:200]})
    tables = common.oracle_parallel(['int_tables'], chunk=1)[0]
    want = '%s %s' % (','.join(map(str, spaces)), ','.join(map(str, zeros)))
    if tables != want:
        corr.append({'case': 'Unicode tables of int(str): str.isspace() code points >= 127 / zero digits of the decimal-digit runs',
                     'impl': want[:120], 'model': tables[:120]})
    reqs, keep = [], []
    for c in cases:
        try:
            reqs.append(encargs_request(c))
            keep.append(c)
        except (UnicodeError, KeyError):
            pass
    model = common.oracle_parallel(reqs, chunk=25)
    for c, m in zip(keep, model):
        kw = {k: v for k, v in c.items() if k != 'content'}
        r = impl.call(lambda: impl.encoder.encode(c['content'], **kw))
        n_cases += 1
        if r[0] == 'ok':
            code = r[1]
            segs = ';'.join('%d,%d,%s' % (s.mode, s.char_count, ''.join('1' if b else '0' for b in s.bits) or '-') for s in code.segments)
            s = 'OK %d %s %d %s %s' % (code.version, '-' if code.error is None else int(code.error), int(code.mask), enc.rows_str(code.matrix), segs)
        else:
            s = 'ERR ' + r[1]
            if r[1] not in ALLOWED and documented_types(c):
                failures.append({'input': {'call': 'encode', 'args': descr(c)}, 'observed': '%s: %s' % (r[1], r[2]),
                                 'expected': 'a symbol or ValueError / LookupError'})
        k = s if s.startswith('ERR') else 'ok'
        dist[k] = dist.get(k, 0) + 1
        distinct.add(hash((s[:300], json.dumps(descr(c), sort_keys=True))))
        if s != m:
            corr.append({'case': descr(c), 'impl': s[:120], 'model': m[:120]})
        if len(samples) < 4 and r[0] == 'ok':
            samples.append({'args': descr(c), 'result': s[:40]})
    # ---- 2. documented exclusions are always refused; alternative spellings give the canonical symbol
    for content in ('12345', 'HELLO', 'hello world'):
        canon = segno.make(content, version=2, error='Q', mode='byte', mask=3, boost_error=False)
        for v in (2, '2', ' 2', '+2', '02', True and 2, '\t2\n', '0_2', '\uff12', '\u0662', '\u20032\xa0'):
            for e in ('Q', 'q'):
                for mo in ('byte', 'BYTE', 'Byte', 4):
                    for ma in (3, '3', ' 3', '+3', '\uff13', '\u06f3\u3000'):
                        n_cases += 1
                        s, q = run_make({'content': content, 'version': v, 'error': e, 'mode': mo, 'mask': ma, 'boost_error': False}, segno.make)
                        if q is None or q.matrix != canon.matrix or q.designator != canon.designator:
                            failures.append({'input': {'call': 'make', 'args': {'content': content, 'version': v, 'error': e, 'mode': mo, 'mask': ma}},
                                             'observed': s[:60], 'expected': 'same symbol as version=2, error="Q", mode="byte", mask=3'})
        for v in ('M3', 'm3'):
            n_cases += 1
            a = segno.make('12', version='M3', error='L', boost_error=False, mask=1)
            s, q = run_make({'content': '12', 'version': v, 'error': 'l', 'boost_error': False, 'mask': '1'}, segno.make)
            if q is None or q.matrix != a.matrix:
                failures.append({'input': {'call': 'make', 'args': {'content': '12', 'version': v}}, 'observed': s[:60], 'expected': 'same symbol as M3'})
    excluded = [({'content': '1', 'error': 'H', 'micro': True}, segno.make), ({'content': '1', 'error': 'H', 'version': 'M4'}, segno.make),
                ({'content': '1', 'error': 'h'}, segno.make_micro), ({'content': 'a', 'eci': True, 'micro': True}, segno.make),
                ({'content': 'a', 'eci': True, 'version': 'M4'}, segno.make), ({'content': '点', 'mode': 'hanzi', 'version': 'M4'}, segno.make),
                ({'content': '点', 'mode': 'hanzi', 'micro': True}, segno.make), ({'content': 'A', 'version': 'M1'}, segno.make),
                ({'content': 'a', 'version': 'M2'}, segno.make), ({'content': '点', 'mode': 'kanji', 'version': 'M2'}, segno.make),
                ({'content': '1', 'mask': 8}, segno.make), ({'content': '1', 'mask': -1}, segno.make), ({'content': '1', 'mask': 4, 'micro': True}, segno.make),
                ({'content': '1', 'version': 41}, segno.make), ({'content': '1', 'version': 0}, segno.make), ({'content': '1', 'version': 'M5'}, segno.make),
                ({'content': '1', 'version': 1}, segno.make_micro), ({'content': '1', 'version': 'M1'}, segno.make_qr),
                ({'content': '1', 'version': 'M1'}, segno.make_sequence), ({'content': '1', 'symbol_count': 0}, segno.make_sequence),
                ({'content': '1' * 40, 'symbol_count': 17}, segno.make_sequence), ({'content': '1'}, segno.make_sequence)]
    for c, fn in excluded:
        n_cases += 1
        s, q = run_make(c, fn)
        if s != 'ERR ValueError' and s != 'ERR DataOverflow':
            failures.append({'input': {'call': fn.__name__, 'args': descr(c)}, 'observed': s[:60], 'expected': 'ValueError (documented exclusion)'})
    # ---- 3. make_sequence argument product (exception classes)
    for _ in range(400 if ctx.thorough else 120):
        c = {'content': rng.choice(['', '1' * 50, 'A' * 60, 'hello' * 10, b'\x01' * 40, 12345678901234567890123456789, -77, 'ä' * 30, 'ä' * 31, '点' * 20])}
        if rng.random() < 0.6:
            c['version'] = rng.choice([1, 2, '1', 'M1', 0, 41, None])
        if rng.random() < 0.6:
            c['symbol_count'] = rng.choice([None, 0, 1, 2, 5, 16, 17, -1])
        for key, dom in (('error', ERRORS), ('mode', MODES), ('mask', MASKS)):
            if rng.random() < 0.3:
                c[key] = rng.choice(dom)
        n_cases += 1
        s, q = run_make(c, segno.make_sequence) if False else seq_call(c)
        dist['seq ' + (s if s.startswith('ERR') else 'ok')] = dist.get('seq ' + (s if s.startswith('ERR') else 'ok'), 0) + 1
        if s.startswith('ERR') and s[4:] not in ALLOWED:
            failures.append({'input': {'call': 'make_sequence', 'args': descr(c)}, 'observed': s, 'expected': 'symbols or ValueError / LookupError'})
    # ---- 3b. symbol_count outside 1..16 is refused whatever else is given (version, mode, level), and the
    #          sequence model agrees with the implementation on the (version, symbol_count) product
    seq_cases = []
    for content in ('1' * 40, 'A' * 40, 'hello world, hello world, hello world', b'\x01' * 40, 'ä' * 31):
        for sc in (None, -16, -1, 0, 1, 2, 3, 16, 17, 18, 100):
            for v in (None, 1, 2, 5, 40, '1', '07'):
                for kw in ({}, {'error': 'H'}, {'mode': 'byte'}, {'boost_error': False}):
                    if kw and sc not in (0, 17, 2) and not ctx.thorough:
                        continue
                    c = dict(content=content, version=v, symbol_count=sc, **kw)
                    seq_cases.append(c)
    creq, cexp = [], []
    for c in seq_cases:
        n_cases += 1
        s, q = seq_call({k: v for k, v in c.items() if v is not None})
        sc = c['symbol_count']
        if sc is not None and not 1 <= sc <= 16 and s not in ('ERR ValueError', 'ERR DataOverflow'):
            failures.append({'input': {'call': 'make_sequence', 'args': descr(c)}, 'observed': s[:40] + (' (%d symbols)' % len(q) if q else ''),
                             'expected': 'ValueError: symbol_count outside 1..16 is always refused'})
        elif s.startswith('ERR') and s[4:] not in ALLOWED:
            failures.append({'input': {'call': 'make_sequence', 'args': descr(c)}, 'observed': s, 'expected': 'symbols or ValueError / LookupError'})
        if not isinstance(c['version'], str):
            cc = {k: v for k, v in c.items() if v is not None}
            creq.append(seq.request(cc))
            cexp.append((c, seq.run_impl(cc)[0]))
    for (c, e), a in zip(cexp, common.oracle_parallel(creq, chunk=10) if creq else []):
        if (a.split(' ')[0] != e.split(' ')[0]) or (e.startswith('ERR') and a != e) or (e.startswith('OK') and a != e):
            corr.append({'case': descr(c), 'impl': e[:120], 'model': a[:120]})
    # ---- 3c. spellings of an encoding name: with eci=True a byte segment in an alias of ISO 8859-1 ('latin1', 'l1', ...) is written with
    #          an ECI header like any other named encoding; whatever the size estimate assumes, the result must be a complete symbol or
    #          a refusal - never a symbol with the content cut (lengths on both sides of the capacity boundaries of versions 1 and 2)
    alias_cases = []
    for alias in ('latin1', 'ISO-8859-1', 'l1', 'iso8859-1', 'L1', 'cp819', 'iso-8859-1', 'utf-8', 'UTF8', 'ascii', 'us-ascii', 'Shift_JIS', 'sjis'):
        for n_ in (6, 7, 8, 10, 11, 12, 13, 14, 15, 16, 17, 18, 25, 26, 27, 30, 31, 32):
            for kw in ({'version': 1, 'error': 'L'}, {'micro': False}, {'version': 2, 'error': 'L', 'boost_error': False}, {'micro': False, 'error': 'H'}):
                alias_cases.append(dict(content='a' * n_, encoding=alias, eci=True, mask=0, **kw))
    sw = sweep.Sweep(alias_cases, want=('decode',)).run()
    for r_ in sw.rows:
        n_cases += 1
        if r_['code'] is not None:
            msg = sweep.check_c01(r_['case'], r_['code'], r_.get('dec'))
            if msg:
                failures.append({'input': {'call': 'make', 'args': descr(r_['case'])}, 'observed': msg, 'expected': 'a symbol carrying the whole content, or DataOverflowError'})
        elif r_['impl'].startswith('ERR') and r_['impl'][4:] not in ALLOWED:
            failures.append({'input': {'call': 'make', 'args': descr(r_['case'])}, 'observed': r_['impl'], 'expected': 'a symbol or ValueError / LookupError'})
    for d_ in sw.corr[:3]:
        corr.append(d_)
    # ---- 4. serializer arguments
    q = segno.make('SERIALIZER', error='M')
    kinds = ['svg', 'png', 'eps', 'pdf', 'txt', 'pbm', 'pam', 'ppm', 'xpm', 'xbm', 'tex', 'ans']
    bad_colors = ['#12', '#1', '', 'nocolor', '#gggggg', '#12345', '#1234567', (1, 2), (1, 2, 3, 4, 5), (256, 0, 0), (-1, 0, 0), (0, 0, 0, 256),
                  # strings that int(pair, 16) would accept although they are not hexadecimal digit strings
                  '#+f+f+f', '# 1 1 1', '#1 2 3 ', '#-1-1-1', '#\uff11\uff11\uff12\uff12\uff13\uff13', '#+1+2+3+4', '# f f f f',
                  '#\u0661\u0661\u0662\u0662\u0663\u0663', '#1_1_1_1_', '#0x10x10x1', '#\t1\t1\t1', '#12345\n', '# 12', '#+12', '#12 4']
    # 'ındigo' (dotless i: lower() keeps it), 'İndigo' (U+0130 lowers to 'i' + U+0307), a Cyrillic 'с', the Kelvin sign inside a hex string
    bad_colors += ['\u0131ndigo', '\u0130ndigo', 'bla\u0441k', '#\u212a\u212a\u212a', 'blac\uff4b', 'blacK\u0307', '\u017filver', 'bei\u0261e']
    good_colors = ['#123', 'red', 'RED', '#aAbBcC', (1, 2, 3), '#1234', '#11223344', (1, 2, 3, 4)]
    # str.lower() maps the Kelvin sign U+212A to 'k': these ARE black, darkblue, khaki, ... for Python (DESIGN.md 11.14.1)
    kelvin_colors = {'blac\u212a': 'black', 'BLAC\u212a': 'black', 'dar\u212ablue': '#00008b', '\u212ahaki': '#f0e68c', 'dar\u212a\u212ahaki': 'darkkhaki',
                     'Hotpin\u212a': 'hotpink', 'WHITESMO\u212aE': 'whitesmoke'}
    good_colors += list(kelvin_colors)
    # the colour conversion itself, implementation against the extracted model (Model/Color.v color_to_rgba), both alpha modes
    def ctok(c):
        return ('T:' + '.'.join(str(x) for x in c)) if isinstance(c, tuple) else 'S:' + '.'.join(str(ord(ch)) for ch in c)
    col_all = bad_colors + good_colors + list(kelvin_colors.values()) + ['black', 'BLACK', 'Black', '#000', 'khaki', 'transparent', 'none', '#FFF', 'White',
                                                                        ' black', 'black ', 'bl ack']
    col_all += [n.replace('k', '\u212a') for n in impl.writers._NAME2RGB if 'k' in n] + [n.replace('i', '\u0131', 1) for n in list(impl.writers._NAME2RGB)[:40] if 'i' in n]
    creq2, cimpl2 = [], []
    for c in col_all:
        for af in (False, True):
            creq2.append('color_rgba %s %d' % (ctok(c), af))
            cimpl2.append((c, af, impl.call(lambda: impl.writers._color_to_rgba(c, alpha_float=af))))
    for (c, af, r), m in zip(cimpl2, common.oracle_parallel(creq2, chunk=200)):
        n_cases += 1
        if r[0] == 'ok':
            rgba = r[1]
            a = rgba[3]
            units = round(a * 10000) if af else a
            s = 'OK %d,%d,%d,%d' % (rgba[0], rgba[1], rgba[2], units) if (not af or a == units / 10000) and len(rgba) == 4 else 'OK %r' % (rgba,)
        else:
            s = 'ERR ' + r[1]
            if r[1] != 'ValueError':
                failures.append({'input': {'call': '_color_to_rgba', 'color': repr(c), 'alpha_float': af}, 'observed': '%s: %s' % (r[1], r[2]),
                                 'expected': 'a colour or ValueError'})
        if s != m:
            corr.append({'case': {'call': '_color_to_rgba', 'color': repr(c), 'alpha_float': af}, 'impl': s, 'model': m})
    # a name spelled with the Kelvin sign gives the very output of the plain name
    for kind in ('svg', 'png', 'ppm', 'pam', 'xpm'):
        for spelled, plain in kelvin_colors.items():
            n_cases += 1
            outs = []
            for col in (spelled, plain):
                o = io.StringIO() if kind == 'xpm' else io.BytesIO()
                r = impl.call(lambda: q.save(o, kind=kind, dark=col, light='#eee'))
                outs.append(o.getvalue() if r[0] == 'ok' else 'ERR ' + r[1])
            if outs[0] != outs[1]:
                failures.append({'input': {'call': 'save', 'kind': kind, 'dark': repr(spelled)}, 'observed': repr(outs[0][:60]),
                                 'expected': 'the output for dark=%r (str.lower() maps U+212A to k)' % plain})
    for kind in kinds:
        for kw, must_fail in ([({'scale': 0}, True), ({'scale': -1}, True), ({'border': -1}, True), ({'border': 1.5}, True),
                               ({'scale': 1}, False), ({'border': 0}, False), ({'scale': 2, 'border': 3}, False), ({'scale': 0.5}, None), ({'scale': 2.7}, False)]
                              + [({'dark': c}, True) for c in bad_colors] + [({'light': c}, True) for c in bad_colors[:6]]
                              # malformed tuples with a FLOAT alpha outside 0..1 (the int and the float branch of the alpha check are separate code)
                              + [({'dark': c}, True) for c in ((10, 20, 30, -0.5), (10, 20, 30, 1.5), (1, 2, 3, -1e-9), (0, 0, 0, -1.0), (0, 0, 0, 2.0))]
                              + [({'light': c}, True) for c in ((10, 20, 30, -0.5), (255, 255, 255, 1.0001))]
                              + [({'dark': c}, None) for c in good_colors] + [({'light': c}, None) for c in good_colors]):
            if kind in ('txt', 'ans') and ('scale' in kw or 'dark' in kw or 'light' in kw):
                continue
            if kind in ('pbm', 'xbm') and ('dark' in kw or 'light' in kw):
                continue
            if kind == 'tex' and ('light' in kw or 'dark' in kw):
                continue
            n_cases += 1
            out = io.BytesIO() if kind in ('png', 'pdf', 'pbm', 'pam', 'ppm', 'svg') else io.StringIO()
            r = impl.call(lambda: q.save(out, kind=kind, **kw))
            cls = 'ok' if r[0] == 'ok' else r[1]
            if cls not in ('ok', 'ValueError'):
                failures.append({'input': {'call': 'save', 'kind': kind, 'kw': repr(kw)}, 'observed': '%s: %s' % (cls, r[2] if len(r) > 2 else ''),
                                 'expected': 'output or ValueError'})
            elif must_fail is True and cls == 'ok':
                failures.append({'input': {'call': 'save', 'kind': kind, 'kw': repr(kw)}, 'observed': 'accepted', 'expected': 'ValueError'})
            elif must_fail is False and cls != 'ok':
                failures.append({'input': {'call': 'save', 'kind': kind, 'kw': repr(kw)}, 'observed': cls, 'expected': 'accepted'})
    for kind in ('bmp', 'jpg', '', 'svgx'):
        n_cases += 1
        r = impl.call(lambda: q.save(io.BytesIO(), kind=kind))
        if r[0] == 'ok' or r[1] != 'ValueError':
            failures.append({'input': {'call': 'save', 'kind': kind}, 'observed': r[1] if r[0] != 'ok' else 'accepted', 'expected': 'ValueError (unknown kind)'})
    for kind in ('SVG', 'Png', 'TXT'):
        n_cases += 1
        r = impl.call(lambda: q.save(io.BytesIO() if kind.lower() != 'txt' else io.StringIO(), kind=kind))
        if r[0] != 'ok':
            failures.append({'input': {'call': 'save', 'kind': kind}, 'observed': r[1], 'expected': 'accepted (kind in any letter case)'})
    # ---- 5. command line: exit status and stderr
    cli_cases = [(['-o', '{out}.png', 'HELLO'], 0), (['--version=41', 'x'], 1), (['--error=x', 'x'], 2), (['--pattern=9', 'x'], 1),
                 (['--micro', '--error=H', '1'], 1), (['--version=M1', 'A'], 1), (['--version=1', 'A' * 100], 1)]
    # serialiser refusals must not depend on the letter case of the output extension
    for ext in ('png', 'PNG', 'Png', 'svg', 'SVG', 'Svg', 'pdf', 'PDF', 'eps', 'EPS', 'SVGZ', 'svgz'):
        # (raised while SAVING: the clause about "no traceback" covers refusals while creating the symbol only, so any non-zero status is accepted)
        cli_cases += [(['--scale=0', '-o', '{out}.' + ext, 'HELLO'], 'refuse'), (['--border=-1', '-o', '{out}.' + ext, 'HELLO'], 'refuse'),
                      (['--dark=#12', '-o', '{out}.' + ext, 'HELLO'], 'refuse'), (['--scale=2', '--border=1', '-o', '{out}.' + ext, 'HELLO'], 0)]
    import tempfile, os
    with tempfile.TemporaryDirectory() as d:
        for i, (argv, want) in enumerate(cli_cases):
            n_cases += 1
            outp = os.path.join(d, 'o%d' % i)
            argv = [a.replace('{out}', outp) for a in argv]
            p = subprocess.run([sys.executable, '-m', 'segno.cli'] + argv, capture_output=True, text=True, timeout=60,
                               env=dict(os.environ, PYTHONPATH=common.REPO))
            wrote = any(f.startswith('o%d' % i) for f in os.listdir(d))
            if p.returncode == 0 and '-o' in argv and not wrote:
                failures.append({'input': {'call': 'cli', 'argv': argv}, 'observed': 'exit 0 without output file', 'expected': 'output written'})
            if want == 0 and p.returncode != 0:
                failures.append({'input': {'call': 'cli', 'argv': argv}, 'observed': 'exit %d %s' % (p.returncode, p.stderr[-100:]), 'expected': 'exit 0'})
            if want == 'refuse' and p.returncode == 0:
                failures.append({'input': {'call': 'cli', 'argv': argv}, 'observed': 'exit 0', 'expected': 'non-zero exit status: the serialiser refuses this option value'})
            if want == 1 and (p.returncode != 1 or 'Traceback' in p.stderr or not p.stderr.strip()):
                failures.append({'input': {'call': 'cli', 'argv': argv}, 'observed': 'exit %d, stderr %r' % (p.returncode, p.stderr[-160:]),
                                 'expected': 'exit status 1 with the library message on stderr and no traceback'})
    corr_b = ['encode argument handling: model and implementation differ on %d cases' % len(corr)] if corr else []
    return {'failures': failures, 'correspondence_broken': corr_b, 'correspondence_details': corr[:10], 'evaluations': n_cases,
            'distinct_nontrivial': len(distinct), 'rule': RULE, 'samples': samples, 'distribution': dist,
            'searched': '%d argument combinations' % n_cases}


def int_tables_of_cpython():
    """What int(str) of the running interpreter does, code point by code point: the code points >= 127 it skips as whitespace and
    the zero digits of the runs z .. z + 9 it reads as the decimal digits 0 .. 9 (every accepted digit must lie in such a run)."""
    def val(s):
        try:
            return int(s)
        except ValueError:
            return None
    dec = {}
    spaces = []
    for c in range(0x110000):
        ch = chr(c)
        v = val(ch)
        if v is not None:
            dec[c] = v
        elif c >= 127 and val(ch + '5') == 5 and val('5' + ch) == 5:
            spaces.append(c)
    zeros = sorted(c for c, v in dec.items() if v == 0)
    assert len(dec) == 10 * len(zeros) and all(dec.get(z + i) == i for z in zeros for i in range(10)), 'decimal digits outside runs of ten'
    return spaces, zeros


def case_tables_of_cpython():
    """What str.lower() / str.upper() of the running interpreter do, code point by code point, as far as ASCII characters are concerned:
    the non-ASCII code points whose image contains an ASCII character (with the image), and a list of problems -- anything that
    contradicts what Base/PyCase.v assumes about the rest: ASCII code points follow the ASCII rule, every other image is non-empty and
    free of ASCII characters, the listed images do not depend on the context, the result is the concatenation of the images."""
    problems = []
    tabs = []
    for meth, lo, hi, d in ((str.lower, 65, 90, 32), (str.upper, 97, 122, -32)):
        tab = []
        for c in range(0x110000):
            ch = chr(c)
            img = meth(ch)
            if c < 128:
                if img != (chr(c + d) if lo <= c <= hi else ch):
                    problems.append('%s of ASCII U+%04X is %r' % (meth.__name__, c, img))
            elif any(ord(x) < 128 for x in img):
                tab.append((c, img))
                for ctx in ('a%sb', '%s', 'A%s', '%sZ', '\u03a3%s\u03a3', '%s' * 2):
                    s = ctx.replace('%s', ch)
                    want = ''.join(img if x == ch else meth(x) for x in s) if '\u03a3' not in s else None
                    got = meth(s)
                    if want is not None and got != want:
                        problems.append('%s of %r is %r, not the concatenation %r' % (meth.__name__, s, got, want))
                    if want is None and got.count(img) != s.count(ch):
                        problems.append('%s of %r is %r' % (meth.__name__, s, got))
            elif not img:
                problems.append('%s of U+%04X is empty' % (meth.__name__, c))
        tabs.append(tab)
        # concatenation of the per-character images on mixed strings (lower(): except for the final-sigma rule, which stays non-ASCII)
        for s in ('blac\u212a \u0130x\xdf', 'M\u0131\u017f\ufb03\u1e96q', 'a\u03a3 \u03a3b\u03a3', '\xc9\u0130\u212a\u0149Z'):
            got = meth(s)
            want = ''.join(meth(x) for x in s)
            strip = lambda u: [x if ord(x) < 128 else '*' for x in u]
            if strip(got) != strip(want) or (got != want and '\u03a3' not in s):
                problems.append('%s of %r is %r, per character %r' % (meth.__name__, s, got, want))
    return tabs[0], tabs[1], problems


def seq_call(c):
    kw = {k: v for k, v in c.items() if k != 'content'}
    r = impl.call(lambda: list(impl.encoder.encode_sequence(c['content'], **kw)))
    return ('OK', r[1]) if r[0] == 'ok' else ('ERR ' + r[1], None)


def descr(c):
    d = {}
    for k, v in c.items():
        d[k] = {'bytes': v.hex()} if isinstance(v, bytes) else v
    return d


def replay(rec):
    return common.replay_by_rerun(sys.modules[__name__], rec)
