"""C14 -- arguments honoured or refused with ValueError; nothing else escapes."""
import io
import json
import subprocess
import sys

import common, enc, gen, sweep, impl, seq
import segno

TOP = ['theories/Props/C14.v', 'theories/Tie/TieTables.v', 'theories/Tie/TieMaskArg.v', 'theories/Tie/TieVersion.v']
RULE = ('product of the documented argument domains for make / make_qr / make_micro / make_sequence including boundary and malformed values '
        '(empty content, odd-length kanji, version "m5", mask 8, error "x", numeric strings with sign/space/underscore, bools, case variants), '
        'serializer arguments (scale, border, colours, kind) and the command line; the exception class of the implementation is compared with '
        'the extracted model and checked against the allowed set; alternative spellings must give the canonical symbol')

ALLOWED = {'ValueError', 'DataOverflow', 'UnicodeErr', 'LookupErr'}


def pv(v):
    if v is None:
        return 'N'
    if isinstance(v, bool):
        return 'B1' if v else 'B0'
    if isinstance(v, int):
        return 'I%d' % v
    return 'S' + v.encode('ascii').hex() if v else 'S'


VERSIONS = [None, 1, 2, 7, 40, 41, 0, -1, 'M1', 'm1', 'M4', 'm3', 'M5', 'm5', '1', ' 2 ', '+3', '0', '-1', '4_0', '1_0', '41', 'x', '', True, False, '007']
ERRORS = [None, 'L', 'l', 'M', 'm', 'Q', 'q', 'H', 'h', 'x', '', 'LL', 1, 0, 3, 2, 4, -1, True, False]
MODES = [None, 'numeric', 'NUMERIC', 'Alphanumeric', 'byte', 'Byte', 'kanji', 'KANJI', 'hanzi', 'Hanzi', 'binary', '', 1, 2, 4, 8, 13, 3, 7, 0, True, False]
MASKS = [None, 0, 3, 4, 7, 8, -1, '0', '7', '8', ' 3', '+2', '-0', 'x', '', True, False, '1_0']
CONTENTS = ['', '0', '12345', 'HELLO WORLD', 'hello', 'ä', '点', '漢字', 'a' * 20, b'', b'\x81', b'\x93\x5f', b'\x93\x5f\x93', b'\x82\x00', 0, 7, 12345678901234567890, -5,
            'A' * 4296, '1' * 7089, '1' * 7090, b'\xff' * 2953, b'\xff' * 2954, '\ud800']


def encargs_request(c):
    mode = c.get('mode')
    hanzi = (isinstance(mode, str) and mode.lower() == 'hanzi') or (mode == 13 and not isinstance(mode, bool))
    eff = 'hanzi' if hanzi else None
    toks = ['encargs', pv(c.get('error')), pv(c.get('version')), pv(mode), pv(c.get('mask')), '1' if c.get('eci') else '0',
            pv(c.get('micro')), '1' if c.get('boost_error', True) else '0']
    content = c['content']
    tok = enc.part_token(content, eff, c.get('encoding'))
    # the mode field of the part token is overwritten by the driver with the normalised global mode
    toks.append(tok)
    return ' '.join(toks)


def run_make(c, fn):
    kw = {k: v for k, v in c.items() if k not in ('content',) and not k.startswith('_')}
    r = impl.call(lambda: fn(c['content'], **kw))
    if r[0] == 'ok':
        q = r[1]
        code = q._code if hasattr(q, '_code') else None
        return 'OK %s %s %s' % (q.designator, q.mask, enc.rows_str(q.matrix)), q
    return 'ERR ' + r[1], None


def run(ctx):
    rng = ctx.rng
    failures, corr, samples = [], [], []
    dist = {}
    n_cases = 0
    distinct = set()
    # ---- 1. encoder.encode argument product: implementation vs model, exception classes
    cases = []
    n = 2500 if ctx.thorough else 700
    for _ in range(n):
        c = {'content': rng.choice(CONTENTS[:18]) if rng.random() < 0.9 else rng.choice(CONTENTS)}
        for key, dom in (('version', VERSIONS), ('error', ERRORS), ('mode', MODES), ('mask', MASKS)):
            if rng.random() < 0.55:
                c[key] = rng.choice(dom)
        if rng.random() < 0.25:
            c['micro'] = rng.choice([True, False, None, 0, 1, ''])
        if rng.random() < 0.2:
            c['eci'] = True
        if rng.random() < 0.2:
            c['encoding'] = rng.choice(['utf-8', 'latin1', 'shift_jis', 'no-such-codec', 'ascii'])
        if rng.random() < 0.3:
            c['boost_error'] = False
        cases.append(c)
    # exhaustive small scope: every version class x every mask value (int and numeric string) x micro
    for ver in ('M1', 'M2', 'M3', 'M4', 'm4', 1, 2, 7, 40, '1', None):
        for mk in list(range(-1, 9)) + [str(k) for k in range(0, 9)]:
            for micro in (None, True, False):
                content = '1' if ver in ('M1',) else ('12345678901234567890' if ver is None else '12')
                c = {'content': content, 'version': ver, 'mask': mk}
                if micro is not None:
                    c['micro'] = micro
                if ver is None:
                    c['error'] = 'M'
                cases.append(c)
    # every version x every error level spelling x every mode
    for ver in ('M1', 'M2', 'M3', 'M4', 1, 40):
        for err in (None, 'L', 'M', 'Q', 'H', 'l', 'h'):
            for mode in (None, 'numeric', 'alphanumeric', 'byte', 'kanji', 'hanzi'):
                cases.append({'content': '12', 'version': ver, 'error': err, 'mode': mode})
    reqs, keep = [], []
    for c in cases:
        try:
            reqs.append(encargs_request(c))
            keep.append(c)
        except (UnicodeError, KeyError):
            pass
    model = common.oracle_parallel(reqs, chunk=25)
    for c, m in zip(keep, model):
        kw = {k: v for k, v in c.items() if k != 'content'}
        r = impl.call(lambda: impl.encoder.encode(c['content'], **kw))
        n_cases += 1
        if r[0] == 'ok':
            code = r[1]
            segs = ';'.join('%d,%d,%s' % (s.mode, s.char_count, ''.join('1' if b else '0' for b in s.bits) or '-') for s in code.segments)
            s = 'OK %d %s %d %s %s' % (code.version, '-' if code.error is None else int(code.error), int(code.mask), enc.rows_str(code.matrix), segs)
        else:
            s = 'ERR ' + r[1]
            if r[1] not in ALLOWED:
                failures.append({'input': {'call': 'encode', 'args': descr(c)}, 'observed': '%s: %s' % (r[1], r[2]),
                                 'expected': 'a symbol or ValueError / LookupError'})
        k = s if s.startswith('ERR') else 'ok'
        dist[k] = dist.get(k, 0) + 1
        distinct.add(hash((s[:300], json.dumps(descr(c), sort_keys=True))))
        if s != m:
            corr.append({'case': descr(c), 'impl': s[:120], 'model': m[:120]})
        if len(samples) < 4 and r[0] == 'ok':
            samples.append({'args': descr(c), 'result': s[:40]})
    # ---- 2. documented exclusions are always refused; alternative spellings give the canonical symbol
    for content in ('12345', 'HELLO', 'hello world'):
        canon = segno.make(content, version=2, error='Q', mode='byte', mask=3, boost_error=False)
        for v in (2, '2', ' 2', '+2', '02', True and 2):
            for e in ('Q', 'q'):
                for mo in ('byte', 'BYTE', 'Byte', 4):
                    for ma in (3, '3', ' 3', '+3'):
                        n_cases += 1
                        s, q = run_make({'content': content, 'version': v, 'error': e, 'mode': mo, 'mask': ma, 'boost_error': False}, segno.make)
                        if q is None or q.matrix != canon.matrix or q.designator != canon.designator:
                            failures.append({'input': {'call': 'make', 'args': {'content': content, 'version': v, 'error': e, 'mode': mo, 'mask': ma}},
                                             'observed': s[:60], 'expected': 'same symbol as version=2, error="Q", mode="byte", mask=3'})
        for v in ('M3', 'm3'):
            n_cases += 1
            a = segno.make('12', version='M3', error='L', boost_error=False, mask=1)
            s, q = run_make({'content': '12', 'version': v, 'error': 'l', 'boost_error': False, 'mask': '1'}, segno.make)
            if q is None or q.matrix != a.matrix:
                failures.append({'input': {'call': 'make', 'args': {'content': '12', 'version': v}}, 'observed': s[:60], 'expected': 'same symbol as M3'})
    excluded = [({'content': '1', 'error': 'H', 'micro': True}, segno.make), ({'content': '1', 'error': 'H', 'version': 'M4'}, segno.make),
                ({'content': '1', 'error': 'h'}, segno.make_micro), ({'content': 'a', 'eci': True, 'micro': True}, segno.make),
                ({'content': 'a', 'eci': True, 'version': 'M4'}, segno.make), ({'content': '点', 'mode': 'hanzi', 'version': 'M4'}, segno.make),
                ({'content': '点', 'mode': 'hanzi', 'micro': True}, segno.make), ({'content': 'A', 'version': 'M1'}, segno.make),
                ({'content': 'a', 'version': 'M2'}, segno.make), ({'content': '点', 'mode': 'kanji', 'version': 'M2'}, segno.make),
                ({'content': '1', 'mask': 8}, segno.make), ({'content': '1', 'mask': -1}, segno.make), ({'content': '1', 'mask': 4, 'micro': True}, segno.make),
                ({'content': '1', 'version': 41}, segno.make), ({'content': '1', 'version': 0}, segno.make), ({'content': '1', 'version': 'M5'}, segno.make),
                ({'content': '1', 'version': 1}, segno.make_micro), ({'content': '1', 'version': 'M1'}, segno.make_qr),
                ({'content': '1', 'version': 'M1'}, segno.make_sequence), ({'content': '1', 'symbol_count': 0}, segno.make_sequence),
                ({'content': '1' * 40, 'symbol_count': 17}, segno.make_sequence), ({'content': '1'}, segno.make_sequence)]
    for c, fn in excluded:
        n_cases += 1
        s, q = run_make(c, fn)
        if s != 'ERR ValueError' and s != 'ERR DataOverflow':
            failures.append({'input': {'call': fn.__name__, 'args': descr(c)}, 'observed': s[:60], 'expected': 'ValueError (documented exclusion)'})
    # ---- 3. make_sequence argument product (exception classes)
    for _ in range(400 if ctx.thorough else 120):
        c = {'content': rng.choice(['', '1' * 50, 'A' * 60, 'hello' * 10, b'\x01' * 40, 12345678901234567890123456789, -77, 'ä' * 30, 'ä' * 31, '点' * 20])}
        if rng.random() < 0.6:
            c['version'] = rng.choice([1, 2, '1', 'M1', 0, 41, None])
        if rng.random() < 0.6:
            c['symbol_count'] = rng.choice([None, 0, 1, 2, 5, 16, 17, -1])
        for key, dom in (('error', ERRORS), ('mode', MODES), ('mask', MASKS)):
            if rng.random() < 0.3:
                c[key] = rng.choice(dom)
        n_cases += 1
        s, q = run_make(c, segno.make_sequence) if False else seq_call(c)
        dist['seq ' + (s if s.startswith('ERR') else 'ok')] = dist.get('seq ' + (s if s.startswith('ERR') else 'ok'), 0) + 1
        if s.startswith('ERR') and s[4:] not in ALLOWED:
            failures.append({'input': {'call': 'make_sequence', 'args': descr(c)}, 'observed': s, 'expected': 'symbols or ValueError / LookupError'})
    # ---- 3b. symbol_count outside 1..16 is refused whatever else is given (version, mode, level), and the
    #          sequence model agrees with the implementation on the (version, symbol_count) product
    seq_cases = []
    for content in ('1' * 40, 'A' * 40, 'hello world, hello world, hello world', b'\x01' * 40, 'ä' * 31):
        for sc in (None, -16, -1, 0, 1, 2, 3, 16, 17, 18, 100):
            for v in (None, 1, 2, 5, 40, '1', '07'):
                for kw in ({}, {'error': 'H'}, {'mode': 'byte'}, {'boost_error': False}):
                    if kw and sc not in (0, 17, 2) and not ctx.thorough:
                        continue
                    c = dict(content=content, version=v, symbol_count=sc, **kw)
                    seq_cases.append(c)
    creq, cexp = [], []
    for c in seq_cases:
        n_cases += 1
        s, q = seq_call({k: v for k, v in c.items() if v is not None})
        sc = c['symbol_count']
        if sc is not None and not 1 <= sc <= 16 and s not in ('ERR ValueError', 'ERR DataOverflow'):
            failures.append({'input': {'call': 'make_sequence', 'args': descr(c)}, 'observed': s[:40] + (' (%d symbols)' % len(q) if q else ''),
                             'expected': 'ValueError: symbol_count outside 1..16 is always refused'})
        elif s.startswith('ERR') and s[4:] not in ALLOWED:
            failures.append({'input': {'call': 'make_sequence', 'args': descr(c)}, 'observed': s, 'expected': 'symbols or ValueError / LookupError'})
        if not isinstance(c['version'], str):
            cc = {k: v for k, v in c.items() if v is not None}
            creq.append(seq.request(cc))
            cexp.append((c, seq.run_impl(cc)[0]))
    for (c, e), a in zip(cexp, common.oracle_parallel(creq, chunk=10) if creq else []):
        if (a.split(' ')[0] != e.split(' ')[0]) or (e.startswith('ERR') and a != e) or (e.startswith('OK') and a != e):
            corr.append({'case': descr(c), 'impl': e[:120], 'model': a[:120]})
    # ---- 4. serializer arguments
    q = segno.make('SERIALIZER', error='M')
    kinds = ['svg', 'png', 'eps', 'pdf', 'txt', 'pbm', 'pam', 'ppm', 'xpm', 'xbm', 'tex', 'ans']
    bad_colors = ['#12', '#1', '', 'nocolor', '#gggggg', '#12345', '#1234567', (1, 2), (1, 2, 3, 4, 5), (256, 0, 0), (-1, 0, 0), (0, 0, 0, 256),
                  # strings that int(pair, 16) would accept although they are not hexadecimal digit strings
                  '#+f+f+f', '# 1 1 1', '#1 2 3 ', '#-1-1-1', '#\uff11\uff11\uff12\uff12\uff13\uff13', '#+1+2+3+4', '# f f f f',
                  '#\u0661\u0661\u0662\u0662\u0663\u0663', '#1_1_1_1_', '#0x10x10x1', '#\t1\t1\t1', '#12345\n', '# 12', '#+12', '#12 4']
    good_colors = ['#123', 'red', 'RED', '#aAbBcC', (1, 2, 3), '#1234', '#11223344', (1, 2, 3, 4)]
    for kind in kinds:
        for kw, must_fail in ([({'scale': 0}, True), ({'scale': -1}, True), ({'border': -1}, True), ({'border': 1.5}, True),
                               ({'scale': 1}, False), ({'border': 0}, False), ({'scale': 2, 'border': 3}, False), ({'scale': 0.5}, None), ({'scale': 2.7}, False)]
                              + [({'dark': c}, True) for c in bad_colors] + [({'light': c}, True) for c in bad_colors[:6]]
                              + [({'dark': c}, None) for c in good_colors] + [({'light': c}, None) for c in good_colors]):
            if kind in ('txt', 'ans') and ('scale' in kw or 'dark' in kw or 'light' in kw):
                continue
            if kind in ('pbm', 'xbm') and ('dark' in kw or 'light' in kw):
                continue
            if kind == 'tex' and ('light' in kw or 'dark' in kw):
                continue
            n_cases += 1
            out = io.BytesIO() if kind in ('png', 'pdf', 'pbm', 'pam', 'ppm', 'svg') else io.StringIO()
            r = impl.call(lambda: q.save(out, kind=kind, **kw))
            cls = 'ok' if r[0] == 'ok' else r[1]
            if cls not in ('ok', 'ValueError'):
                failures.append({'input': {'call': 'save', 'kind': kind, 'kw': repr(kw)}, 'observed': '%s: %s' % (cls, r[2] if len(r) > 2 else ''),
                                 'expected': 'output or ValueError'})
            elif must_fail is True and cls == 'ok':
                failures.append({'input': {'call': 'save', 'kind': kind, 'kw': repr(kw)}, 'observed': 'accepted', 'expected': 'ValueError'})
            elif must_fail is False and cls != 'ok':
                failures.append({'input': {'call': 'save', 'kind': kind, 'kw': repr(kw)}, 'observed': cls, 'expected': 'accepted'})
    for kind in ('bmp', 'jpg', '', 'svgx'):
        n_cases += 1
        r = impl.call(lambda: q.save(io.BytesIO(), kind=kind))
        if r[0] == 'ok' or r[1] != 'ValueError':
            failures.append({'input': {'call': 'save', 'kind': kind}, 'observed': r[1] if r[0] != 'ok' else 'accepted', 'expected': 'ValueError (unknown kind)'})
    for kind in ('SVG', 'Png', 'TXT'):
        n_cases += 1
        r = impl.call(lambda: q.save(io.BytesIO() if kind.lower() != 'txt' else io.StringIO(), kind=kind))
        if r[0] != 'ok':
            failures.append({'input': {'call': 'save', 'kind': kind}, 'observed': r[1], 'expected': 'accepted (kind in any letter case)'})
    # ---- 5. command line: exit status and stderr
    cli_cases = [(['-o', '{out}.png', 'HELLO'], 0), (['--version=41', 'x'], 1), (['--error=x', 'x'], 2), (['--pattern=9', 'x'], 1),
                 (['--micro', '--error=H', '1'], 1), (['--version=M1', 'A'], 1), (['--version=1', 'A' * 100], 1)]
    import tempfile, os
    with tempfile.TemporaryDirectory() as d:
        for i, (argv, want) in enumerate(cli_cases):
            n_cases += 1
            outp = os.path.join(d, 'o%d' % i)
            argv = [a.replace('{out}', outp) for a in argv]
            p = subprocess.run([sys.executable, '-m', 'segno.cli'] + argv, capture_output=True, text=True, timeout=60,
                               env=dict(os.environ, PYTHONPATH=common.REPO))
            wrote = any(f.startswith('o%d' % i) for f in os.listdir(d))
            if p.returncode == 0 and '-o' in argv and not wrote:
                failures.append({'input': {'call': 'cli', 'argv': argv}, 'observed': 'exit 0 without output file', 'expected': 'output written'})
            if want == 0 and p.returncode != 0:
                failures.append({'input': {'call': 'cli', 'argv': argv}, 'observed': 'exit %d %s' % (p.returncode, p.stderr[-100:]), 'expected': 'exit 0'})
            if want == 1 and (p.returncode != 1 or 'Traceback' in p.stderr or not p.stderr.strip()):
                failures.append({'input': {'call': 'cli', 'argv': argv}, 'observed': 'exit %d, stderr %r' % (p.returncode, p.stderr[-160:]),
                                 'expected': 'exit status 1 with the library message on stderr and no traceback'})
    corr_b = ['encode argument handling: model and implementation differ on %d cases' % len(corr)] if corr else []
    return {'failures': failures, 'correspondence_broken': corr_b, 'correspondence_details': corr[:10], 'evaluations': n_cases,
            'distinct_nontrivial': len(distinct), 'rule': RULE, 'samples': samples, 'distribution': dist,
            'searched': '%d argument combinations' % n_cases}


def seq_call(c):
    kw = {k: v for k, v in c.items() if k != 'content'}
    r = impl.call(lambda: list(impl.encoder.encode_sequence(c['content'], **kw)))
    return ('OK', r[1]) if r[0] == 'ok' else ('ERR ' + r[1], None)


def descr(c):
    d = {}
    for k, v in c.items():
        d[k] = {'bytes': v.hex()} if isinstance(v, bytes) else v
    return d


def replay(rec):
    return common.replay_by_rerun(sys.modules[__name__], rec)
