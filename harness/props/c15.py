"""C15 -- encoding is pure: deterministic, history-free, thread-safe, idempotent."""
import copy
import hashlib
import io
import json
import threading

import sys
import common, enc, gen, sweep, impl
import segno
from segno import consts, encoder, writers, utils

TOP = ['theories/Props/C15.v', 'theories/Tie/TieTables.v']
RULE = ('random histories of make / make_sequence / save (all kinds) / matrix_iter / terminal calls over a pool of argument sets: every result is '
        'compared with the single-call answer of the extracted model and with the first answer for the same arguments; the same pool is '
        'replayed in a different order and concurrently in 8 threads; deep snapshots of all module-level tables, of the arguments and of '
        'previously returned matrices before/after; re-encoding with the reported version/level/mask and boost_error=False must reproduce the matrix')


def fresh_result(case):
    """The answer of a fresh interpreter (empty history) for one argument set."""
    import subprocess, sys, os
    code = ('import sys, json; sys.path.insert(0, %r); import enc; '
            'c = enc.undescribe(json.loads(sys.stdin.read())); print(enc.run_impl(c)[0])' % os.path.dirname(os.path.dirname(os.path.abspath(__file__))))
    r = subprocess.run([sys.executable, '-c', code], input=json.dumps(enc.describe(case)), capture_output=True, text=True,
                       env=dict(os.environ, PYTHONPATH=common.REPO, PYTHONHASHSEED='0'), timeout=120)
    return r.stdout.strip()


def fresh_history(cases):
    """The answers of ONE fresh interpreter that makes the calls in the given order."""
    import subprocess, os
    code = ('import sys, json; sys.path.insert(0, %r); import enc; '
            'cs = json.loads(sys.stdin.read()); print(json.dumps([enc.run_impl(enc.undescribe(c))[0] for c in cs]))'
            % os.path.dirname(os.path.dirname(os.path.abspath(__file__))))
    r = subprocess.run([sys.executable, '-c', code], input=json.dumps([enc.describe(c) for c in cases]), capture_output=True, text=True,
                       env=dict(os.environ, PYTHONPATH=common.REPO, PYTHONHASHSEED='0'), timeout=600)
    try:
        return json.loads(r.stdout.strip().splitlines()[-1])
    except Exception:  # noqa: BLE001
        return None


def snapshot_tables():
    h = hashlib.sha256()
    for mod in (consts, encoder, writers, utils):
        for name in sorted(vars(mod)):
            v = getattr(mod, name)
            if name.startswith('__') or callable(v) or isinstance(v, type(consts)):
                continue
            try:
                h.update(name.encode())
                h.update(repr(v).encode())
            except Exception:  # noqa: BLE001
                pass
    return h.hexdigest()


def result_key(case):
    s, code = enc.run_impl(case)
    return s


def run(ctx):
    rng = ctx.rng
    failures, corr, samples = [], [], []
    n_pool = 120 if ctx.thorough else 40
    pool = []
    while len(pool) < n_pool:
        c = enc.random_case(rng, max_len=40)
        if enc.representable(c):
            pool.append(c)
    # directed: multi-part contents whose parts merge, the same parts alone, and repetitions (shared / cached state between calls shows here)
    fam = []
    for parts in (['123', '456'], ['AB', 'CD'], ['abc', 'def'], [b'\x01\x02', b'\x03'], ['123456', '789'], ['点', '漢'], [12, 34], ['123', '456', 'AB', 'CD']):
        for kw in ({}, {'error': 'M'}, {'micro': False}):
            fam.append(dict(content=list(parts), **kw))
            for x in parts:
                fam.append(dict(content=x, **kw))
            fam.append(dict(content=list(parts), **kw))
    # directed: calls of the same shape (same modes, same length class) that differ in ONE size-relevant aspect - the
    # encoding of a byte segment with/without ECI header, Hanzi subset bits, SA - at a capacity boundary: anything
    # memoised per shape makes the second call of such a pair wrong
    for a, b in ((dict(content='a' * 17, eci=True), dict(content='€€€€€ab', eci=True)),
                 (dict(content='abc', eci=True), dict(content='é' * 7, eci=True, encoding='utf-8')),
                 (dict(content='x' * 7, eci=True, encoding='utf-8'), dict(content='x' * 7, eci=True)),
                 (dict(content='a' * 32, eci=True, error='L'), dict(content='a' * 32, eci=True, error='L', encoding='utf-8')),
                 (dict(content='a' * 17), dict(content='a' * 17, eci=True, encoding='utf-8')),
                 (dict(content='点' * 8, mode='hanzi'), dict(content='点' * 8, mode='kanji', encoding='shift_jis')),
                 (dict(content='1' * 41, micro=False), dict(content='1' * 41, micro=False, error='L')),
                 (dict(content='A' * 25, version=1), dict(content='A' * 25, version=2))):
        if enc.representable(a) and enc.representable(b):
            fam += [a, b, a, b]
    n_fam = len(fam)
    pool = fam + pool
    n_pool = len(pool)
    model = common.oracle_parallel([enc.request(c) for c in pool], chunk=10)
    tables0 = snapshot_tables()
    args0 = copy.deepcopy(pool)
    first = {}
    kept = []       # (index, code, deep copy of its matrix)
    n = 0
    kinds = ['svg', 'png', 'eps', 'pdf', 'txt', 'pbm', 'pam', 'ppm', 'xpm', 'xbm', 'tex', 'ans']
    # ---- history 1: random interleaving of operations
    steps = 1500 if ctx.thorough else 400
    for step in range(steps + len(fam)):
        if step < len(fam):
            i, op = step, 'make'
        else:
            i = rng.randrange(n_pool)
            op = rng.choice(['make', 'make', 'save', 'iter', 'terminal', 'seq'])
        c = pool[i]
        if op == 'make' or i not in first:
            if i in first and step >= len(fam) and False:
                pass
            s, code = enc.run_impl(c)
            n += 1
            if i in first and first[i] != s:
                failures.append({'input': {'case': enc.describe(c), 'step': step}, 'observed': s[:80], 'expected': 'same as first call: ' + first[i][:80]})
            first.setdefault(i, s)
            if s != model[i]:
                fr = fresh_result(c)
                if fr != s:
                    # the same arguments give a different answer in a fresh interpreter: the result depends on the call history
                    failures.append({'input': {'case': enc.describe(c), 'step': step,
                                               'history': [enc.describe(pool[j]) for j in (range(step) if step < len(fam) else [])][-6:]},
                                     'observed': s[:80], 'expected': 'answer of a fresh interpreter for the same arguments: ' + fr[:80]})
                else:
                    corr.append({'case': enc.describe(c), 'impl': s[:100], 'model': model[i][:100]})
            if code is not None and len(kept) < 60:
                kept.append((i, code, [bytes(r) for r in code.matrix]))
        elif kept:
            j, code, snap = rng.choice(kept)
            q = segno.QRCode(code)
            n += 1
            try:
                if op == 'save':
                    kind = rng.choice(kinds)
                    out = io.StringIO() if kind in ('eps', 'txt', 'ans', 'tex', 'xbm', 'xpm') else io.BytesIO()
                    kw = {}
                    if kind not in ('txt', 'ans') and rng.random() < 0.5:
                        kw['scale'] = rng.choice([1, 2, 3])
                    if rng.random() < 0.5:
                        kw['border'] = rng.choice([0, 1, 4])
                    q.save(out, kind=kind, **kw)
                elif op == 'iter':
                    for _ in q.matrix_iter(scale=rng.choice([1, 2]), border=rng.choice([None, 0, 2]), verbose=rng.random() < 0.5):
                        pass
                elif op == 'terminal':
                    q.terminal(out=io.StringIO(), compact=rng.random() < 0.5)
                elif op == 'seq':
                    segno.make_sequence('SEQ' * rng.randrange(5, 40), version=rng.choice([1, 2]))
            except Exception as ex:  # noqa: BLE001
                failures.append({'input': {'op': op, 'case': enc.describe(pool[j])}, 'observed': '%s: %s' % (type(ex).__name__, ex), 'expected': 'no exception'})
            if [bytes(r) for r in code.matrix] != snap:
                failures.append({'input': {'op': op, 'case': enc.describe(pool[j])}, 'observed': 'matrix of a returned symbol changed', 'expected': 'unchanged'})
    # ---- history 1b: long runs of IDENTICAL serialisations (state consumed per call - a shared iterator, a counter, a cache that fills up -
    #      shows only after many calls): 200 PNG saves per colour set with a transparent entry; no exception, same image data every time
    if kept:
        import struct as _st
        j, code, snap = kept[0]
        q = segno.QRCode(code)
        for ckw in (dict(dark=(0, 0, 255, 128), light=None), dict(dark='#1234', light=None, finder_dark=(9, 9, 9, 200)), dict(dark='navy', light=None),
                    dict(dark=None, light=(250, 250, 250, 10))):
            ref = None
            for rep in range(200):
                n += 1
                out = io.BytesIO()
                try:
                    q.save(out, kind='png', scale=1, **ckw)
                except Exception as ex:  # noqa: BLE001
                    failures.append({'input': {'op': 'save png x200', 'colours': repr(ckw), 'call': rep + 1, 'case': enc.describe(pool[j])},
                                     'observed': '%s: %s' % (type(ex).__name__, ex), 'expected': 'no exception, as for the first call'})
                    break
                data, pos, idat = out.getvalue(), 8, b''
                while pos < len(data):
                    ln = _st.unpack('>I', data[pos:pos + 4])[0]
                    if data[pos + 4:pos + 8] in (b'IDAT', b'tRNS', b'IHDR'):
                        idat += data[pos + 4:pos + 8 + ln]
                    pos += 12 + ln
                if ref is None:
                    ref = idat
                elif idat != ref:
                    failures.append({'input': {'op': 'save png x200', 'colours': repr(ckw), 'call': rep + 1, 'case': enc.describe(pool[j])},
                                     'observed': 'IHDR / tRNS / IDAT differ from the first identical call', 'expected': 'identical image data'})
                    break
            if [bytes(r) for r in code.matrix] != snap:
                failures.append({'input': {'op': 'save png x200', 'case': enc.describe(pool[j])}, 'observed': 'matrix of a returned symbol changed', 'expected': 'unchanged'})
    # ---- history 2: different order
    for i in rng.sample(range(n_pool), n_pool):
        s = result_key(pool[i])
        n += 1
        if i in first and s != first[i]:
            failures.append({'input': {'case': enc.describe(pool[i]), 'order': 'shuffled'}, 'observed': s[:80], 'expected': first[i][:80]})
        first.setdefault(i, s)
    # ---- history 2b: the directed families in REVERSE order in one fresh interpreter (a per-shape cache is filled by
    #      whichever call comes first; the forward order only exposes the second of each pair)
    rev = list(reversed(range(n_fam)))
    ans = fresh_history([pool[i] for i in rev])
    if ans is not None:
        for i, s in zip(rev, ans):
            n += 1
            if i in first and s != first[i]:
                fr = fresh_result(pool[i])
                failures.append({'input': {'case': enc.describe(pool[i]), 'order': 'reversed directed families in a fresh interpreter'},
                                 'observed': ('in-process answer %s' % first[i][:60]) if fr == s else s[:80],
                                 'expected': 'answer of a fresh interpreter for the same arguments: ' + fr[:80]})
    # ---- history 3: 8 threads
    results = [dict() for _ in range(8)]
    errors = []

    def worker(t):
        r = __import__('random').Random(ctx.seed * 100 + t)
        order = list(range(n_pool))
        r.shuffle(order)
        for i in order:
            try:
                results[t][i] = result_key(pool[i])
                if i % 5 == 0 and kept:
                    j, code, snap = kept[i % len(kept)]
                    segno.QRCode(code).save(io.BytesIO(), kind='png', scale=2)
            except Exception as ex:  # noqa: BLE001
                errors.append('%s: %s' % (type(ex).__name__, ex))
    threads = [threading.Thread(target=worker, args=(t,)) for t in range(8)]
    for t in threads:
        t.start()
    for t in threads:
        t.join()
    for e in errors[:3]:
        failures.append({'input': {'threads': 8}, 'observed': e, 'expected': 'no exception'})
    for t in range(8):
        for i, s in results[t].items():
            n += 1
            if s != first.get(i, s):
                failures.append({'input': {'case': enc.describe(pool[i]), 'thread': t}, 'observed': s[:80], 'expected': first[i][:80]})
    # ---- purity
    if snapshot_tables() != tables0:
        failures.append({'input': {'check': 'module tables'}, 'observed': 'a module-level table changed', 'expected': 'unchanged'})
    if pool != args0:
        failures.append({'input': {'check': 'arguments'}, 'observed': 'an argument object was modified', 'expected': 'unchanged'})
    for j, code, snap in kept:
        if [bytes(r) for r in code.matrix] != snap:
            failures.append({'input': {'case': enc.describe(pool[j])}, 'observed': 'matrix of a returned symbol changed', 'expected': 'unchanged'})
    # ---- idempotence: re-encode with the chosen version / level / mask, boosting disabled
    for i, code, snap in kept:
        c = dict(gen.strip(pool[i]))
        c['version'] = enc.vname(code.version)
        if code.error is not None:
            c['error'] = sweep.LEVEL_OF_CONST[code.error]
        else:
            c.pop('error', None)
        c['mask'] = code.mask
        c['boost_error'] = False
        if code.version < 1 and c.get('micro') is False:
            continue
        s2, code2 = enc.run_impl(c)
        n += 1
        if code2 is None or [bytes(r) for r in code2.matrix] != snap:
            failures.append({'input': {'case': enc.describe(pool[i]), 'reencode': enc.describe(c)}, 'observed': s2[:80],
                             'expected': 'identical matrix when version/level/mask are requested explicitly'})
        if len(samples) < 4:
            samples.append({'case': enc.describe(pool[i]), 'chosen': [code.version, code.error, code.mask]})
    return {'failures': failures, 'correspondence_broken': ['encode: model and implementation differ on %d history steps' % len(corr)] if corr else [],
            'correspondence_details': corr[:10], 'evaluations': n, 'distinct_nontrivial': len(set(first.values())), 'rule': RULE,
            'samples': samples, 'searched': '%d history steps over a pool of %d argument sets, 8 threads' % (n, n_pool),
            'assumptions': ['thread interleavings are sampled, not enumerated: the model cannot exhibit them']}


def replay(rec):
    return common.replay_by_rerun(sys.modules[__name__], rec)
