"""C01 -- every symbol decodes back to exactly the content."""
import enc, gen, sweep, encprop

TOP = ['theories/Props/C01.v', 'theories/Tie/TieTables.v', 'theories/Tie/TieVersion.v', 'theories/Tie/TiePad.v', 'theories/Tie/TieFit.v', 'theories/Tie/TieFnPat.v', 'theories/Tie/TieEcc.v', 'theories/Tie/TiePlace.v', 'theories/Tie/TieSeg.v', 'theories/Tie/TieEncode.v', 'theories/Tie/TieEncodeFull.v', 'theories/Tie/TieMode.v', 'theories/Tie/TieSegMake.v', 'theories/Tie/TieEncodeFinal.v', 'theories/Tie/TieChain.v', 'theories/Tie/TieSegments.v', 'theories/Tie/TieEncodeTop.v']
WANT = ('decode',)
RULE = ('class-stratified random contents (digits, 45-char alphabet, Shift JIS lead/trail classes, latin-1, BMP, hanzi, ints, '
        'multi-part) x random options, plus both sides of capacity boundaries; each implementation symbol is read by the '
        'extracted reference decoder and compared with the content bytes under the documented codec policy; '
        'distinct = different (case, result)')


def judge(r):
    if r['code'] is None:
        return None
    return sweep.check_c01(r['case'], r['code'], r.get('dec'))


def cases(ctx):
    rng = ctx.rng
    n = 6000 if ctx.thorough else 700
    out = [enc.random_case(rng, max_len=rng.choice([20, 60, 300])) for _ in range(n)]
    vs = gen.VERSIONS if ctx.thorough else [-3, -2, -1, 0, 1, 2, 9, 10, 26, 27, 40]
    out += [gen.strip(c) for c in gen.boundary_cases(rng, versions=vs, deltas=(0,), request_version=(True,))]
    # eci-specific
    for _ in range(200 if ctx.thorough else 40):
        c = {'content': enc.gen_content(rng, rng.choice(['latin1', 'bmp', 'kanji', 'ascii']), rng.choice([1, 3, 9])),
             'eci': True, 'mask': 0}
        if rng.random() < 0.7:
            c['encoding'] = rng.choice(['utf-8', 'latin1', 'iso-8859-1', 'shift_jis', 'cp1252', 'iso-8859-15', 'utf-16-be', 'ascii'])
        if rng.random() < 0.5:
            c['mode'] = 'byte'
        out.append(c)
    # ECI header (12 bits) x automatic boosting of the error level: every byte length of versions 1-2 (thorough: 1-4) at each requested level,
    # and automatic versions, so that each 'fits the next level only without the ECI bits' length is hit
    caps = {1: 17, 2: 32, 3: 53, 4: 78}
    for v in ((1, 2, 3, 4) if ctx.thorough else (1, 2)):
        for nbytes in range(1, caps[v] + 1):
            for lvl in ('L', 'M', 'Q'):
                out.append({'content': 'a' * nbytes, 'encoding': 'utf-8', 'eci': True, 'version': v, 'error': lvl})
    for nbytes in range(1, 120 if ctx.thorough else 60):
        out.append({'content': '\u00e4' * (nbytes // 2) + 'x' * (nbytes % 2), 'encoding': 'utf-8', 'eci': True, 'error': rng.choice(['L', 'M', 'Q'])})
    out += gen.multipart_eci_cases(rng, ctx.thorough)[::3]
    # the documented fallback chain is iso-8859-1 -> shift_jis -> utf-8 with PYTHON's codecs: characters that only vendor supersets of
    # Shift JIS (cp932 ...) can encode must end up as UTF-8, characters only plain Shift JIS maps (U+203E) as Shift JIS
    for txt in ('\u2460\u2461\u2462', '\u2163\u2116', '\u9ad9', '\uff5e', '\u203e', '\u3231\u2460', '\u30c6\u30b9\u30c8\u2460', '\u30c6\u30b9\u30c8',
                '\u70b9\uff5e', '\ue000', '\u00a5', '\u301c', '\u2225', '\uff0d', '\u00a2\u00a3\u00ac'):
        for kw in ({}, {'eci': True}, {'micro': False}, {'eci': True, 'error': 'M'}):
            out.append(dict(content=txt, mask=0, **kw))
    return out


def run(ctx):
    return encprop.run_cases(ctx, cases(ctx), WANT, judge, RULE)


def replay(rec):
    return encprop.replay_case(rec, WANT, judge)
