"""C04 -- smallest fitting symbol; overflow reported, never truncated."""
import common, enc, gen, sweep, encprop

TOP = ['theories/Props/C04.v', 'theories/Tie/TieTables.v', 'theories/Tie/TieVersion.v', 'theories/Tie/TieFit.v', 'theories/Tie/TieSegments.v', 'theories/Tie/TieEncodeTop.v']
WANT = ('decode',)
RULE = ('both sides of every (mode, version, level) capacity boundary x micro in {None, True, False} x requested version in '
        '{none, exact}; multi-part contents around the version-range boundaries 9/10 and 26/27; random cases. Verdict by the extracted '
        'first-fit specification evaluated on the segments actually found in the implementation symbol (and on the content for refusals)')


def spec_for_content(case):
    """(segs string, eci_requested) for the spec when the implementation refused: modes by the extracted mode spec."""
    exp = sweep.expected_parts(case)
    if exp is None:
        return None
    reqs = ['spec_mode ' + (b.hex() or '-') for b, _, m in exp]
    modes = common.oracle(reqs)
    segs = []
    for (b, e, m), auto in zip(exp, modes):
        mode = m if m is not None else int(auto)
        n = len(b) // 2 if mode in (8, 13) else len(b)
        import codecs
        hdr = 1 if (case.get('eci') and mode == 4 and codecs.lookup(e).name != 'iso8859-1') else 0
        segs.append('%d,%d,%d' % (mode, n, hdr))
    return ';'.join(segs) or '-'


def judge(r):
    case = r['case']
    micro = case.get('micro')
    level = case.get('error')
    lv = '-' if level is None else str(gen.LEVELS[level])
    mi = '-' if micro is None else ('1' if micro else '0')
    ec = '1' if case.get('eci') else '0'
    if r['code'] is not None:
        d = r.get('dec')
        if d is None:
            return 'reference decoder cannot read the symbol'
        msg = sweep.check_c01(case, r['code'], d)
        if msg:
            return 'content not completely in the symbol: ' + msg
        segs = sweep.spec_segs(d)
        if case.get('version') is None:
            want = common.oracle(['spec_version %s %s %s 0 %s' % (mi, ec, lv, segs)])[0]
            if want != str(d['version']):
                return 'version %s chosen, first fit is %s' % (enc.vname(d['version']), want)
        else:
            v = enc.MICRO.get(case['version'], case['version'])
            if d['version'] != v:
                return 'requested version %s, got %s' % (case['version'], enc.vname(d['version']))
        return None
    if r['impl'] == 'ERR DataOverflow':
        # refusal must be justified: nothing admissible fits (or the requested version does not fit)
        segs = spec_for_content(case)
        if segs is None:
            return None
        parts = segs.split(';') if segs != '-' else []
        # adjacent same-mode parts may legitimately be merged or not: an overflow is unjustified only if it fits without merging
        if case.get('version') is None:
            want = common.oracle(['spec_version %s %s %s 0 %s' % (mi, ec, lv, segs)])[0]
            if want != 'NONE' and len(parts) == 1:
                return 'DataOverflowError although version %s fits' % want
        else:
            v = enc.MICRO.get(case['version'], case['version'])
            if v == -3 and level is not None:
                return None      # M1 has no error correction level: with a requested level nothing admissible fits
            if len(parts) == 1 and not (v < 1 and (case.get('eci') or micro is False)):
                bits = int(common.oracle(['spec_bits %d 0 %s' % (v, segs)])[0])
                cap = gen.capacity(v, level if v != -3 else None) if (level or v == -3) else gen.capacity(v, 'L')
                mode = int(parts[0].split(',')[0])
                if cap is not None and bits <= cap and gen.cci(mode, v) is not None:
                    return 'DataOverflowError although the content (%d bits) fits version %s (%d bits)' % (bits, case['version'], cap)
    return None


def cases(ctx):
    rng = ctx.rng
    vs = gen.VERSIONS if ctx.thorough else [-3, -2, -1, 0, 1, 2, 3, 8, 9, 10, 11, 25, 26, 27, 28, 39, 40]
    out = gen.boundary_cases(rng, versions=vs, deltas=(0, 1), micro_values=(None, True, False) if ctx.thorough else (None,),
                             request_version=(False, True))
    out += gen.boundary_cases(rng, versions=[-3, -2, -1, 0, 1], deltas=(0, 1), micro_values=(True, False), request_version=(False,))
    # multi-part contents whose bit length is not monotone in the version
    for n in (88, 91, 92, 96, 97):
        parts = [('a' if k % 2 == 0 else '1') for k in range(n)]
        for ver in (None, 9, 10, 11):
            c = {'content': parts, 'error': 'L', 'boost_error': False, 'mask': 0, 'micro': False}
            if ver:
                c['version'] = ver
            out.append(c)
    out += gen.multipart_eci_cases(rng, ctx.thorough)
    out += gen.multisegment_boundary_cases(__import__('random').Random(ctx.seed * 7 + 4), thorough=ctx.thorough)
    out += [enc.random_case(rng, max_len=rng.choice([30, 200, 1200])) for _ in range(2000 if ctx.thorough else 250)]
    return out


def run(ctx):
    return encprop.run_cases(ctx, cases(ctx), WANT, judge, RULE)


def replay(rec):
    return encprop.replay_case(rec, WANT, judge)
