"""C16 -- helper payload builders (segno/helpers.py): WIFI, MeCard, vCard, geo, mailto, EPC.

For every generated argument set the REAL builder is called; its payload is parsed by the extracted INDEPENDENT reader
(theories/Ref/HelpersReader.v) and the recovered fields are compared with the supplied values (oracle); the payload is
compared with the output of the extracted writer model (theories/Model/Helpers.v) (correspondence); the symbols of the
make_* factories are read by the extracted reference decoder (C01) and compared with the payload bytes."""
import datetime
import decimal
import json
import re
from fractions import Fraction

import common, impl, sweep
import segno
from segno import helpers

TOP = ['theories/Props/C16.v', 'theories/Tie/TieTables.v', 'theories/Tie/TieHelpersEsc.v', 'theories/Tie/TieHelpersWifi.v',
       'theories/Tie/TieHelpersMecard.v', 'theories/Tie/TieHelpersVcard.v', 'theories/Tie/TieHelpersMisc.v']
RULE = ('adversarial field values (delimiters ; : , \\ ", backslash before a delimiter, CR/LF, empty strings, multi-valued fields, non-ASCII incl. '
        'astral, lone surrogates, strings at the EPC limits 70/71 140/141 35/36 34/35 4/5, amounts around 0.01 and 999999999.99, all eight EPC '
        'encodings by number / name / auto-selection) -> real make_*_data / _make_epc_qr_data; every payload is parsed by the extracted independent '
        'reader and compared field by field with the supplied values; every limit violation must raise ValueError; payload == extracted model; '
        'factory symbols (incl. an EPC sweep over every text length 1..140) are decoded by the extracted reference decoder: payload bytes, level M, '
        'version <= 13')

D = decimal.Decimal
# EPC069-12 character set numbers (independent of segno's tuple)
EPC_CHARSETS = {1: 'utf-8', 2: 'iso-8859-1', 3: 'iso-8859-2', 4: 'iso-8859-4', 5: 'iso-8859-5', 6: 'iso-8859-7', 7: 'iso-8859-10', 8: 'iso-8859-15'}
LOOKS_LIKE_DATETIME = re.compile(r'^\d{4}-\d{2}-\d{2}(?:T\d{2}:\d{2}:\d{2}(?:(?:-?\d{2}:\d{2})|Z)?)?\Z')


# ------------------------------------------------------------------ encodings for the oracle binary
def cps(s):
    return '.'.join(str(ord(c)) for c in s) or '-'


def uncps(t):
    return '' if t in ('-', '') else ''.join(chr(int(x)) for x in t.split('.'))


def ostr(v):
    return 'N' if v is None else 'S:' + cps(v)


def unostr(t):
    return None if t == 'N' else uncps(t[2:])


def multi(v):
    """The documented reading of a multi-valued argument: None / '' / empty iterable -> no value, str -> one value."""
    if not v:
        return []
    if isinstance(v, str):
        return [v]
    return list(v)


def lstr(v):
    return 'L:' + '|'.join(cps(x) for x in multi(v))


def dec_token(x):
    """Exact value of an int / float / Decimal as  neg,mantissa,scale ; nan / inf / -inf otherwise."""
    d = D(x)
    if d.is_nan():
        return 'nan'
    if d.is_infinite():
        return '-inf' if d < 0 else 'inf'
    sign, digits, exp = d.as_tuple()
    mant = int(''.join(str(k) for k in digits) or '0')
    if exp > 0:
        mant, exp = mant * 10 ** exp, 0
    return 'F:%d,%d,%d' % (sign, mant, -exp)


def frac_of_triple(t):
    neg, m, sc = t.split(',')
    v = Fraction(int(m), 10 ** int(sc))
    return (-v if neg == '1' else v), neg == '1'


def round_half_even(q, places):
    """q (Fraction) rounded half-even to `places` decimals, as a Fraction."""
    return Fraction(round(q * 10 ** places), 10 ** places)


# ------------------------------------------------------------------ generators
ALPHA = 'abcXYZ019 -_.'
PIECES = [';', ':', ',', '\\', '"', '\\;', '\\:', '\\,', '\\\\', '\\"', '\r', '\n', '\r\n', '\\n', '\\r\\n', ' ', '\t', 'ä', 'ß', 'ǆ', '€', 'Ł', '日本', '\U0001F600',
          '\U0010FFFF', '%', '&', '?', '#', '=', '+', "'", '<', '>', '/', '%41', '\x00', '\x0b', '\x85', ' ', ';;', 'P:x;', 'END:VCARD', 'H:true']
DIRECTED = ['', ';', ';;', ':', ',', '\\', '\\\\', '\\;', 'a;b', 'a\\;b', 'a\\\\;b', 'abc\\', 'a:b;c', 'x;P:forged;', 'x;;', '"quoted"', 'a,b', 'x\r\nEND:VCARD',
            'x\nEND:VCARD\nBEGIN:VCARD', 'line1\r\n line2', '\r', '\n', 'a\rb', 'tab\tsep', ' lead', 'trail ', 'ä;ö', '日本;語', '\U0001F600;\\', 'T:WPA', 'nopass',
            'N:x', '\\n', 'a\\nb', 'a\\', '\\:', '::', 'http://example.org/?a=1&b=2;c', 'Doe;John', 'Doe,John']


def adv(rng, maxlen=10):
    r = rng.random()
    if r < 0.25:
        return rng.choice(DIRECTED)
    k = rng.randrange(0, maxlen)
    return ''.join(rng.choice(PIECES) if rng.random() < 0.5 else rng.choice(ALPHA) for _ in range(k))


def opt(rng, f, p_none=0.35, p_empty=0.1):
    r = rng.random()
    if r < p_none:
        return None
    if r < p_none + p_empty:
        return ''
    return f()


def multival(rng, f):
    r = rng.random()
    if r < 0.25:
        return None
    if r < 0.3:
        return ''
    if r < 0.35:
        return rng.choice([[], ()])
    if r < 0.6:
        return f()
    n = rng.randrange(1, 4)
    vals = [f() for _ in range(n)]
    return vals if rng.random() < 0.6 else tuple(vals)


SAFE_ADDR = 'abcdefghijklmnopqrstuvwxyzABCXYZ0123456789.-_+'


def addr(rng):
    def word(n):
        return ''.join(rng.choice(SAFE_ADDR) for _ in range(rng.randrange(1, n)))
    return '%s@%s.%s' % (word(8), word(8), rng.choice(['org', 'example', 'de', 'x-y']))


# ------------------------------------------------------------------ a case: builder name + kwargs
class Case:
    def __init__(self, builder, kw):
        self.builder, self.kw = builder, kw
        self.res = None
        self.reader = None
        self.model = None

    def describe(self):
        return {'builder': self.builder, 'kwargs': repr(self.kw)}


BUILDERS = {'wifi': 'make_wifi_data', 'mecard': 'make_mecard_data', 'vcard': 'make_vcard_data', 'geo': 'make_geo_data',
            'mailto': 'make_make_email_data', 'epc': '_make_epc_qr_data'}
FACTORIES = {'wifi': 'make_wifi', 'mecard': 'make_mecard', 'vcard': 'make_vcard', 'geo': 'make_geo', 'mailto': 'make_email', 'epc': 'make_epc_qr'}


def call_builder(c):
    f = getattr(helpers, BUILDERS[c.builder], None)
    if f is None:
        return ('unavailable',)
    return impl.call(lambda: f(**c.kw))


# ---- WIFI
def gen_wifi(rng, n):
    out = [Case('wifi', dict(ssid=s, password=p, security=t, hidden=h)) for s, p, t, h in [
        ('net', 'pw', 'WPA', False), ('net', None, None, False), ('net', '', 'nopass', True), ('a;b', 'p\\', 'wpa', False), ('x', 'P:1;S:evil', 'WEP', True),
        ('', '', '', False), ('s', 'p', 'NOPASS', False), ('s', 'p', 'ß', False), ('s', 'p', 'wpa;T:x', False), ('\\', '\\\\', 'a:b', True),
        ('"q"', ';', 'WPA2-EAP', False), ('日本', '\U0001F600', 'ǆ', True)]]
    for _ in range(n):
        out.append(Case('wifi', dict(ssid=adv(rng), password=opt(rng, lambda: adv(rng), 0.2, 0.1),
                                     security=rng.choice([None, None, '', 'WPA', 'wpa', 'WEP', 'nopass', 'Nopass', 'wpa2', adv(rng, 5)]),
                                     hidden=rng.random() < 0.4)))
    return out


def req_wifi(c):
    kw = c.kw
    sec = kw['security']
    model = 'w_wifi %s %s %s %s %d' % (cps(kw['ssid']), ostr(kw['password']), ostr(sec), cps(sec.upper() if sec else ''), 1 if kw['hidden'] else 0)
    reader = ('r_mecard %s %s' % (cps('WIFI:'), cps(c.res[1]))) if c.res[0] == 'ok' else None
    return model, reader


def parse_fields(tok):
    out = []
    if tok == '-':
        return out
    for f in tok.split(';'):
        k, v, comps = f.split('=')
        out.append((uncps(k), uncps(v), [uncps(x) for x in comps.split(',')]))
    return out


def judge_wifi(c):
    kw = c.kw
    if c.res[0] != 'ok':
        return 'raised %s' % c.res[1], 'a WIFI payload'
    if not c.reader.startswith('OK '):
        return 'the independent reader rejects %r' % c.res[1], 'WIFI:KEY:value;...;'
    want = []
    if kw['security']:
        want.append(('T', kw['security'] if kw['security'] == 'nopass' else kw['security'].upper()))
    want.append(('S', kw['ssid']))
    if kw['password'] is not None:
        want.append(('P', kw['password']))
    if kw['hidden']:
        want.append(('H', 'true'))
    got = [(k, v) for k, v, _ in parse_fields(c.reader.split(' ')[1])]
    if got != want:
        return 'fields %r in %r' % (got, c.res[1]), 'fields %r' % (want,)
    return None


# ---- MeCard
MECARD_ADR = ('pobox', 'roomno', 'houseno', 'city', 'prefecture', 'zipcode', 'country')


def gen_mecard(rng, n):
    out = [Case('mecard', dict(name='Doe,John', reading='ドウ', email='a@b.c', phone=['1', '2'], videophone=('3',), memo='m;n', nickname='nick\\',
                               birthday='19800102', url=['http://x/?a=1;b', 'http://y:80/'], pobox='1', roomno='2', houseno='3', city='c;d', prefecture='p',
                               zipcode='z', country='DE')),
           Case('mecard', dict(name='n', birthday=datetime.date(1980, 1, 2))),
           Case('mecard', dict(name='n', birthday='1980;01', houseno='1,2')),
           Case('mecard', dict(name='', email=['', 'x'], country='\\')),
           Case('mecard', dict(name='a;URL:http://evil', memo=';;'))]
    for _ in range(n):
        kw = dict(name=adv(rng))
        for k in ('reading', 'memo', 'nickname') + MECARD_ADR:
            if rng.random() < 0.45:
                kw[k] = opt(rng, lambda: adv(rng, 6), 0.2, 0.15)
        for k in ('email', 'phone', 'videophone', 'url'):
            if rng.random() < 0.5:
                kw[k] = multival(rng, lambda: adv(rng, 6))
        if rng.random() < 0.4:
            kw['birthday'] = rng.choice([None, '', '19800102', datetime.date(2001, 12, 31), adv(rng, 6)])
        out.append(Case('mecard', kw))
    return out


def mecard_birthday(b):
    return b.strftime('%Y%m%d') if hasattr(b, 'strftime') else b


def req_mecard(c):
    kw = c.kw
    g = kw.get
    b = g('birthday')
    toks = [cps(kw['name']), ostr(g('reading')), lstr(g('email')), lstr(g('phone')), lstr(g('videophone')), ostr(g('memo')), ostr(g('nickname')),
            ostr(mecard_birthday(b) if b else (None if b is None else '')), lstr(g('url'))] + [ostr(g(k)) for k in MECARD_ADR]
    reader = ('r_mecard %s %s' % (cps('MECARD:'), cps(c.res[1]))) if c.res[0] == 'ok' else None
    return 'w_mecard ' + ' '.join(toks), reader


def judge_mecard(c):
    kw = c.kw
    g = kw.get
    if c.res[0] != 'ok':
        return 'raised %s' % c.res[1], 'a MeCard payload'
    if not c.reader.startswith('OK '):
        return 'the independent reader rejects %r' % c.res[1], 'MECARD:KEY:value;...;;'
    want = [('N', kw['name'])]
    if g('reading'):
        want.append(('SOUND', g('reading')))
    want += [('TEL', v) for v in multi(g('phone'))]
    want += [('TELAV', v) for v in multi(g('videophone'))]
    want += [('EMAIL', v) for v in multi(g('email'))]
    if g('nickname'):
        want.append(('NICKNAME', g('nickname')))
    if g('birthday'):
        want.append(('BDAY', mecard_birthday(g('birthday'))))
    want += [('URL', v) for v in multi(g('url'))]
    adr = [g(k) or '' for k in MECARD_ADR]
    if any(adr):
        want.append(('ADR', ','.join(adr)))
    if g('memo'):
        want.append(('MEMO', g('memo')))
    fields = parse_fields(c.reader.split(' ')[1])
    got = [(k, v) for k, v, _ in fields]
    if got != want:
        return 'fields %r in %r' % (got, c.res[1]), 'fields %r' % (want,)
    if any(adr) and not any(',' in a for a in adr):
        comps = [cs for k, _, cs in fields if k == 'ADR'][0]
        if comps != adr:
            return 'ADR components %r' % (comps,), 'ADR components %r' % (adr,)
    if not c.res[1].endswith(';;'):
        return 'payload does not end with ";;": %r' % c.res[1][-5:], 'MeCard terminator'
    return None


# ---- vCard
VCARD_MULTI = [('email', 'EMAIL'), ('phone', 'TEL'), ('fax', 'TEL;TYPE=FAX'), ('videophone', 'TEL;TYPE=VIDEO'), ('cellphone', 'TEL;TYPE=CELL'),
               ('homephone', 'TEL;TYPE=HOME'), ('workphone', 'TEL;TYPE=WORK'), ('url', 'URL'), ('title', 'TITLE'), ('photo_uri', 'PHOTO;VALUE=uri')]
VCARD_ADR = ('pobox', 'street', 'city', 'region', 'zipcode', 'country')
DATES = [None, '', '1980-01-02', '2024-02-29T10:20:30', '2024-02-29T10:20:30Z', '2024-02-29T10:20:30-05:00', '2024-02-29T10:20:3002:00', datetime.date(1999, 12, 31),
         datetime.datetime(2020, 5, 6, 7, 8, 9), '1980', 'x', '1980-01-02\n', '1980-01-02\r\nX:1', '19800102', ' 1980-01-02', '1980-01-02T', '١٩٨٠-٠١-٠٢',
         '1980-01-02;x', '1980-1-2']
COORDS = [None, 0, 0.0, -0.0, 48.5, -11.25, 1e-07, 5, 179.99999999, -90]


def gen_vcard(rng, n):
    out = [Case('vcard', dict(name='Doe;John', displayname='John Doe', email=('a@b.c', 'd@e.f'), phone='+1', fax=['2'], videophone='3', memo='x\r\nEND:VCARD',
                              nickname='n,m;o', birthday='1980-01-02', url='http://x/;y', pobox='p;o', street='s\\t', city='c,d', region='r\nr', zipcode='z',
                              country='DE', org='o;rg', lat=1.5, lng=-2.25, source='http://s', rev=datetime.date(2020, 1, 2), title=['t1', 't;2'],
                              photo_uri='http://p', cellphone='4', homephone='5', workphone='6')),
           Case('vcard', dict(name='n\r\nX:1', displayname='d\r\n y')), Case('vcard', dict(name='', displayname='')),
           Case('vcard', dict(name='n', displayname='d', lat=0, lng=0)), Case('vcard', dict(name='n', displayname='d', lat=0.0, lng=5.0)),
           Case('vcard', dict(name='n', displayname='d', lat=1.0)), Case('vcard', dict(name='n', displayname='d', lng=1.0)),
           Case('vcard', dict(name='n', displayname='d', lat=0, lng=None)), Case('vcard', dict(name='n', displayname='d', lat=None, lng=0.0))]
    out += [Case('vcard', dict(name='n', displayname='d', birthday=b)) for b in DATES] + [Case('vcard', dict(name='n', displayname='d', rev=b)) for b in DATES]
    for _ in range(n):
        kw = dict(name=adv(rng), displayname=adv(rng))
        for k in ('memo', 'nickname', 'org', 'source') + VCARD_ADR:
            if rng.random() < 0.4:
                kw[k] = opt(rng, lambda: adv(rng, 6), 0.2, 0.15)
        for k, _ in VCARD_MULTI:
            if rng.random() < 0.3:
                kw[k] = multival(rng, lambda: adv(rng, 6))
        if rng.random() < 0.3:
            kw['birthday'] = rng.choice(DATES)
        if rng.random() < 0.3:
            kw['rev'] = rng.choice(DATES)
        if rng.random() < 0.4:
            kw['lat'] = rng.choice(COORDS)
            kw['lng'] = rng.choice(COORDS) if rng.random() < 0.8 else None
        out.append(Case('vcard', kw))
    return out


def vcard_date_text(v):
    return v.strftime('%Y-%m-%d') if hasattr(v, 'strftime') else v


def req_vcard(c):
    kw = c.kw
    g = kw.get
    impl_regex = getattr(helpers, '_looks_like_datetime', LOOKS_LIKE_DATETIME.match)

    def vdate(v):
        if v is None:
            return 'N'
        if not v:
            return 'D:0:-'
        t = vcard_date_text(v)
        return 'D:%d:%s' % (1 if impl_regex(t) else 0, cps(t))

    def vgeo(v):
        return 'N' if v is None else 'G:' + cps(str(v))
    toks = [cps(kw['name']), cps(kw['displayname']), lstr(g('email')), lstr(g('phone')), lstr(g('fax')), lstr(g('videophone')), ostr(g('memo')),
            ostr(g('nickname')), vdate(g('birthday')), lstr(g('url'))] + [ostr(g(k)) for k in VCARD_ADR] + \
           [ostr(g('org')), vgeo(g('lat')), vgeo(g('lng')), ostr(g('source')), vdate(g('rev')), lstr(g('title')), lstr(g('photo_uri')),
            lstr(g('cellphone')), lstr(g('homephone')), lstr(g('workphone'))]
    reader = ('r_vcard ' + cps(c.res[1])) if c.res[0] == 'ok' else None
    return 'w_vcard ' + ' '.join(toks), reader


def vcard_must_refuse(kw):
    for k in ('birthday', 'rev'):
        v = kw.get(k)
        if v and not LOOKS_LIKE_DATETIME.match(vcard_date_text(v)):
            return '%s is not a date / date-time' % k
    if (kw.get('lat') is None) != (kw.get('lng') is None):
        return 'incomplete geo information'
    return None


def judge_vcard(c):
    kw = c.kw
    g = kw.get
    refuse = vcard_must_refuse(kw)
    if refuse:
        if c.res[0] == 'ok':
            return 'accepted: %r' % c.res[1][:80], 'ValueError (%s)' % refuse
        if c.res[1] not in ('ValueError', 'UnicodeErr'):
            return 'raised %s' % c.res[1], 'ValueError (%s)' % refuse
        return None
    if c.res[0] != 'ok':
        return 'raised %s (%s)' % (c.res[1], c.res[2]), 'a vCard'
    if not c.reader.startswith('OK '):
        return 'the independent reader rejects %r' % c.res[1], 'CRLF-terminated content lines name:value'
    nocr = lambda s: s.replace('\r', '')
    want = [('BEGIN', 'raw', 'VCARD'), ('VERSION', 'raw', '3.0'), ('N', 'text', nocr(kw['name'])), ('FN', 'text', nocr(kw['displayname']))]
    if g('org'):
        want.append(('ORG', 'text', nocr(g('org'))))
    for k, name in VCARD_MULTI:
        want += [(name, 'text', nocr(v)) for v in multi(g(k))]
    if g('nickname'):
        want.append(('NICKNAME', 'text', nocr(g('nickname'))))
    adr = [g(k) or '' for k in VCARD_ADR]
    if any(adr):
        want.append(('ADR', 'comps', [nocr(adr[0]), ''] + [nocr(a) for a in adr[1:]]))
    if g('birthday'):
        want.append(('BDAY', 'raw', vcard_date_text(g('birthday'))))
    if g('lat') is not None:
        want.append(('GEO', 'raw', '%s;%s' % (g('lat'), g('lng'))))
    if g('source'):
        want.append(('SOURCE', 'text', nocr(g('source'))))
    if g('memo'):
        want.append(('NOTE', 'text', nocr(g('memo'))))
    if g('rev'):
        want.append(('REV', 'raw', vcard_date_text(g('rev'))))
    want.append(('END', 'raw', 'VCARD'))
    _, entries, lines, pieces = c.reader.split(' ')
    got = []
    for e in entries.split(';'):
        k, raw, unesc, comps = e.split('=')
        got.append((uncps(k), uncps(raw), uncps(unesc), [uncps(x) for x in comps.split(',')]))
    lines = [uncps(x) for x in lines.split(';')]
    pieces = [uncps(x) for x in pieces.split(';')]
    if lines != pieces or pieces[-1] != '' or len(pieces) != len(want) + 1 or any('\r' in p or '\n' in p for p in pieces):
        return '%d content lines / %d CRLF pieces: %r' % (len(lines), len(pieces), pieces), '%d content lines, one per supplied value' % len(want)
    if len(got) != len(want):
        return '%d name:value entries' % len(got), '%d' % len(want)
    for (k, raw, unesc, comps), (wk, kind, wv) in zip(got, want):
        seen = {'raw': raw, 'text': unesc, 'comps': comps}[kind]
        if k != wk or seen != wv:
            return 'line %s:%r reads as %r' % (k, raw, seen), '%s with value %r' % (wk, wv)
    return None


# ---- geo
GEO_VALUES = [0, 0.0, -0.0, 1, -1, 48.137154, 11.576124, -33.865143, 151.2099, 90, -180.0, 1e-9, 5e-9, 0.000000005, 0.000000015, 1.5e-8, 123.456789015,
              12345678.123456789, 1e10, 0.1, 0.30000000000000004, -0.000000004, 89.999999995, 1e-320, 179.99999999]


def gen_geo(rng, n):
    out = [Case('geo', dict(lat=a, lng=b)) for a in GEO_VALUES[:8] for b in GEO_VALUES[:3]] + [Case('geo', dict(lat=a, lng=-a)) for a in GEO_VALUES]
    for _ in range(n):
        def num():
            r = rng.random()
            if r < 0.2:
                return rng.randrange(-180, 181)
            if r < 0.6:
                return rng.uniform(-180, 180)
            if r < 0.8:
                return round(rng.uniform(-90, 90), rng.randrange(0, 10))
            return rng.randrange(-10 ** 10, 10 ** 10) / 10 ** rng.randrange(7, 11)
        out.append(Case('geo', dict(lat=num(), lng=num())))
    out += [Case('geo', dict(lat=float('nan'), lng=float('inf'))), Case('geo', dict(lat=float('-inf'), lng=1.0))]
    return out


def req_geo(c):
    kw = c.kw
    finite = all(x == x and abs(x) != float('inf') for x in (kw['lat'], kw['lng']))
    reader = ('r_geo ' + cps(c.res[1])) if c.res[0] == 'ok' and finite else None
    return 'w_geo %s %s' % (dec_token(kw['lat']), dec_token(kw['lng'])), reader


def judge_geo(c):
    kw = c.kw
    if c.reader is None:
        return None          # nan / inf: outside the property (no number to carry); correspondence only
    if c.res[0] != 'ok':
        return 'raised %s' % c.res[1], 'a geo URI'
    if not c.reader.startswith('OK '):
        return 'the independent reader rejects %r' % c.res[1], 'geo:<decimal>,<decimal>'
    _, a, b = c.reader.split(' ')
    for name, tok in (('lat', a), ('lng', b)):
        want = round_half_even(Fraction(kw[name]), 8)
        got, neg = frac_of_triple(tok)
        if got != want or (want != 0 and neg != (want < 0)):
            return '%s reads as %s in %r' % (name, got, c.res[1]), '%r rounded to 8 decimals = %s' % (kw[name], want)
    return None


# ---- mailto
TEXTS = ['', 'Hello', 'a b', 'a&b=c', '?x#y', '100%', 'ä€日本\U0001F600', 'line1\r\nline2', '&body=forged', 'a+b', '%41', '/~._-', '\x00\x7f', '"\'<>']


def gen_mailto(rng, n):
    out = [Case('mailto', dict(to=t)) for t in ('me@example.org', ['a@b.c', 'd@e.f'], ('x@y.z',), '', None, [], ())]
    out += [Case('mailto', dict(to='me@example.org', subject=s)) for s in TEXTS] + [Case('mailto', dict(to='me@example.org', body=s)) for s in TEXTS]
    out += [Case('mailto', dict(to='me@example.org', cc='c@c.c', bcc=['b@b.b', 'b2@b.b'], subject='s', body='b')),
            Case('mailto', dict(to='me@example.org', bcc='b@b.b', body='only body')),
            Case('mailto', dict(to='me@example.org', subject='lone \ud800 surrogate')), Case('mailto', dict(to='me@example.org', body='\udfff'))]
    for _ in range(n):
        kw = dict(to=multival(rng, lambda: addr(rng)) if rng.random() < 0.9 else rng.choice(['', None, []]))
        for k in ('cc', 'bcc'):
            if rng.random() < 0.5:
                kw[k] = multival(rng, lambda: addr(rng))
        for k in ('subject', 'body'):
            if rng.random() < 0.6:
                kw[k] = opt(rng, lambda: rng.choice(TEXTS) if rng.random() < 0.3 else adv(rng, 12), 0.15, 0.1)
        out.append(Case('mailto', kw))
    return out


def has_surrogate(s):
    return s is not None and any(0xD800 <= ord(ch) <= 0xDFFF for ch in s)


def req_mailto(c):
    g = c.kw.get
    reader = ('r_mailto ' + cps(c.res[1])) if c.res[0] == 'ok' else None
    return 'w_mailto %s %s %s %s %s' % (lstr(g('to')), lstr(g('cc')), lstr(g('bcc')), ostr(g('subject')), ostr(g('body'))), reader


def judge_mailto(c):
    g = c.kw.get
    if not multi(g('to')):
        if c.res[0] == 'ok' or c.res[1] != 'ValueError':
            return ('accepted' if c.res[0] == 'ok' else 'raised ' + c.res[1]), 'ValueError (no recipient)'
        return None
    if has_surrogate(g('subject')) or has_surrogate(g('body')):
        if c.res[0] == 'ok' or c.res[1] not in ('ValueError', 'UnicodeErr'):
            return ('accepted' if c.res[0] == 'ok' else 'raised ' + c.res[1]), 'UnicodeEncodeError (text cannot be UTF-8 encoded)'
        return None
    if c.res[0] != 'ok':
        return 'raised %s' % c.res[1], 'a mailto URI'
    if not c.reader.startswith('OK '):
        return 'the independent reader rejects %r' % c.res[1], 'mailto:to?key=value&...'
    _, to, entries = c.reader.split(' ')
    got = []
    if entries != '-':
        for e in entries.split(';'):
            k, raw, text = e.split('=')
            got.append((uncps(k), uncps(raw), None if text == '!' else uncps(text)))
    want = []
    for k in ('cc', 'bcc'):
        if multi(g(k)):
            want.append((k, 'raw', ','.join(multi(g(k)))))
    for k in ('subject', 'body'):
        if g(k) is not None:
            want.append((k, 'text', g(k)))
    if uncps(to) != ','.join(multi(g('to'))):
        return 'recipients %r' % uncps(to), 'recipients %r' % ','.join(multi(g('to')))
    if len(got) != len(want):
        return 'query %r in %r' % (got, c.res[1]), 'query keys %r' % [w[0] for w in want]
    for (k, raw, text), (wk, kind, wv) in zip(got, want):
        if k != wk or (raw if kind == 'raw' else text) != wv:
            return '%s=%r decodes to %r' % (k, raw, text), '%s = %r' % (wk, wv)
        if kind == 'text' and not re.fullmatch(r"(?:[A-Za-z0-9._~/-]|%[0-9A-Fa-f]{2})*", raw):
            return '%s=%r contains characters that are not allowed in a URI query value' % (k, raw), 'unreserved characters or percent escapes'
    return None


# ---- EPC
ENC_TEXT = {1: '日本 Ltd ☃', 2: 'Müller & Söhne', 3: 'Łódź Spółka', 4: 'Ādaži Ķekava', 5: 'Иван Петров', 6: 'Αθήνα ΑΕ', 7: 'ÞórĀ', 8: 'Œuvre Š€'}
AMOUNTS = [D('0.01'), D('0.005'), D('0.009'), D('0.0100'), D('999999999.99'), D('999999999.991'), D('999999999.995'), 1000000000, D('1.005'), D('1.015'), D('2.675'),
           10, 0.5, 0.01, 0.1, 1.005, 2.675, 999999999.99, 99999999.99, 12.3, 1, 0, -1, D('-0.01'), D('1E+2'), D('1E+9'), D('12.345'), D('0.015'), D('100.10'),
           float('nan'), float('inf'), float('-inf'), D('NaN'), D('Infinity'), 'abc', 123456789, D('0.1') + D('0.2'), 1e-3, 1e9, 5e-324]
ENCODINGS = [None] * 6 + list(range(1, 9)) + list(EPC_CHARSETS.values()) + ['UTF-8', 'ISO-8859-15', 'Iso-8859-7', 0, 9, -1, 'utf8', 'latin1', 'iso-8859-3', '']


def gen_epc(rng, n):
    base = dict(name='Wikimedia', iban='DE33100205000001194700', amount=D('12.30'), text='Spende')
    out = [Case('epc', dict(base))]
    for k, v in [('name', 'x' * 70), ('name', 'x' * 71), ('name', ' ' + 'x' * 70 + ' '), ('name', ''), ('name', '   '), ('name', None), ('iban', 'x' * 4), ('iban', 'x' * 5),
                 ('iban', 'x' * 34), ('iban', 'x' * 35), ('iban', None), ('iban', ''), ('text', 'x' * 140), ('text', 'x' * 141), ('text', 'x' * 140 + '  '), ('text', ''),
                 ('text', None), ('text', '   '), ('bic', 'x' * 8), ('bic', 'x' * 11), ('bic', 'x' * 7), ('bic', 'x' * 9), ('bic', 'x' * 10), ('bic', 'x' * 12),
                 ('bic', ' ' + 'x' * 8 + ' '), ('bic', ''), ('purpose', 'GDDS'), ('purpose', 'abc'), ('purpose', 'abcde'), ('purpose', '')]:
        out.append(Case('epc', dict(base, **{k: v})))
    for ref in ('RF18539007547034', 'x' * 35, 'x' * 36, 'x' * 35 + ' ', ''):
        out.append(Case('epc', dict(name='n', iban='x' * 22, amount=1, reference=ref)))
    out.append(Case('epc', dict(base, reference='RF18')))                      # both
    out += [Case('epc', dict(base, amount=a)) for a in AMOUNTS]
    out += [Case('epc', dict(base, encoding=e)) for e in ENCODINGS]
    for num, t in ENC_TEXT.items():
        out.append(Case('epc', dict(base, name=t)))                            # auto-selection
        out.append(Case('epc', dict(base, text=t)))
        for e in (num, EPC_CHARSETS[num], EPC_CHARSETS[num].upper(), 1, 2, 8):
            out.append(Case('epc', dict(base, name=t, encoding=e)))            # requested (possibly unable to encode)
    out.append(Case('epc', dict(name='日' * 70, iban='x' * 34, amount=1, text='本' * 140)))            # > 331 bytes
    out.append(Case('epc', dict(name='ä' * 70, iban='x' * 34, amount=D('999999999.99'), text='ö' * 140, bic='x' * 11, purpose='GDDS', encoding=1)))
    out.append(Case('epc', dict(name='ä' * 70, iban='x' * 34, amount=D('999999999.99'), text='ö' * 140, bic='x' * 11, purpose='GDDS')))
    out.append(Case('epc', dict(base, name='lone \ud800')))
    for k in range(100, 141):                                                    # around the 331 byte limit with two-byte characters
        out.append(Case('epc', dict(name='n' * 70, iban='x' * 34, amount=D('999999999.99'), text='ö' * k, bic='x' * 11, purpose='GDDS', encoding='utf-8')))
    for _ in range(n):
        kw = dict(name=rng.choice(list(ENC_TEXT.values()) + ['N' * rng.choice([1, 69, 70, 71])]), iban='x' * rng.choice([5, 22, 34, 4, 35, 22, 22]),
                  amount=rng.choice(AMOUNTS) if rng.random() < 0.5 else D(rng.randrange(-5, 10 ** rng.randrange(1, 13))) / 100)
        if rng.random() < 0.7:
            kw['text'] = rng.choice(list(ENC_TEXT.values()) + ['t' * rng.choice([1, 139, 140, 141]), 'x ' * 3])
        if rng.random() < 0.3:
            kw['reference'] = 'R' * rng.choice([1, 35, 36])
        if rng.random() < 0.3:
            kw['bic'] = 'B' * rng.choice([8, 11, 8, 11, 9, 0])
        if rng.random() < 0.3:
            kw['purpose'] = 'P' * rng.choice([4, 4, 4, 3, 5, 0])
        if rng.random() < 0.5:
            kw['encoding'] = rng.choice(ENCODINGS)
        out.append(Case('epc', kw))
    return out


def epc_norm(kw):
    g = kw.get
    text = g('text').rstrip() if g('text') else g('text')
    reference = g('reference').rstrip() if g('reference') else g('reference')
    bic = g('bic').strip() if g('bic') else g('bic')
    name = g('name').strip() if g('name') else g('name')
    return text, reference, bic, name


def epc_amount_fraction(a):
    """Exact value of a documented amount (int / float / Decimal); None if it is not a finite number."""
    try:
        d = D(a)
    except (decimal.InvalidOperation, TypeError, ValueError):
        return None
    if not d.is_finite():
        return None
    return Fraction(d)


def epc_must_refuse(kw):
    """The documented limits (docstring of make_epc_qr / error messages / EPC069-12)."""
    text, reference, bic, name = epc_norm(kw)
    e = kw.get('encoding')
    if e is not None:
        if isinstance(e, str):
            if e.lower() not in EPC_CHARSETS.values():
                return 'unknown encoding'
        elif not 1 <= e <= 8:
            return 'encoding number out of range'
    if bool(text) == bool(reference):
        return 'either text or reference'
    if text and len(text) > 140:
        return 'text longer than 140'
    if reference and len(reference) > 35:
        return 'reference longer than 35'
    if not name or len(name) > 70:
        return 'name empty or longer than 70'
    if kw.get('iban') is None or not 4 < len(kw['iban']) <= 34:
        return 'IBAN length'
    if bic and len(bic) not in (8, 11):
        return 'BIC length'
    if kw.get('purpose') and len(kw['purpose']) != 4:
        return 'purpose length'
    q = epc_amount_fraction(kw['amount'])
    if q is None or not Fraction(1, 100) <= q <= Fraction(99999999999, 100):
        return 'amount out of range / not a number'
    return None


def epc_text_lines(kw, charset_digit='1'):
    text, reference, bic, name = epc_norm(kw)
    q = epc_amount_fraction(kw['amount'])
    amount = 'EUR0' if q is None else 'EUR' + ('%d.%02d' % divmod(round(abs(q) * 100), 100)).rstrip('0').rstrip('.')
    lines = ['BCD', '002', charset_digit, 'SCT', bic or '', name or '', kw.get('iban') or '', amount, kw.get('purpose') or '', reference or '']
    if text:
        lines.append(text)
    return lines


def encodable(s, enc):
    try:
        s.encode(enc)
        return True
    except UnicodeError:
        return False


def req_epc(c):
    kw = c.kw
    g = kw.get
    payload = '\n'.join(epc_text_lines(kw))
    enc = ''.join('1' if encodable(payload, EPC_CHARSETS[n]) else '0' for n in range(1, 9))
    a = kw['amount']
    amount = 'bad' if isinstance(a, str) and epc_amount_fraction(a) is None and not re.fullmatch(r'(?i)\s*[+-]?(nan|inf|infinity)\s*', a) else dec_token(a)
    e = g('encoding')
    etok = 'N' if e is None else ('S:' + cps(e) if isinstance(e, str) else 'I:%d' % e)
    model = 'w_epc %s %s %s %s %s %s %s %s %s' % (enc, ostr(g('name')), ostr(g('iban')), amount, ostr(g('text')), ostr(g('reference')), ostr(g('bic')),
                                               ostr(g('purpose')), etok)
    reader = None
    c.charset = None
    if c.res[0] == 'ok' and isinstance(c.res[1], bytes):
        parts = c.res[1].split(b'\n')
        if len(parts) > 2 and parts[2] in (b'1', b'2', b'3', b'4', b'5', b'6', b'7', b'8'):
            c.charset = int(parts[2])
            try:
                c.text = c.res[1].decode(EPC_CHARSETS[c.charset])
                reader = 'r_epc ' + cps(c.text)
            except UnicodeError:
                c.text = None
    return model, reader


def judge_epc(c):
    kw = c.kw
    refuse = epc_must_refuse(kw)
    if refuse:
        if c.res[0] == 'ok':
            return 'accepted: %r' % c.res[1][:60], 'ValueError (%s)' % refuse
        if c.res[1] not in ('ValueError', 'UnicodeErr'):
            return 'raised %s (%s)' % (c.res[1], c.res[2]), 'ValueError (%s)' % refuse
        return None
    # valid arguments: the payload text must be encodable in the requested / some character set and fit into 331 bytes
    lines = epc_text_lines(kw)
    probe = '\n'.join(lines)
    e = kw.get('encoding')
    if e is None:
        want_cs = next((n for n in range(2, 9) if encodable(probe, EPC_CHARSETS[n])), 1)
    else:
        want_cs = e if not isinstance(e, str) else [n for n, nm in EPC_CHARSETS.items() if nm == e.lower()][0]
    if not encodable(probe, EPC_CHARSETS[want_cs]):
        if c.res[0] == 'ok' or c.res[1] not in ('ValueError', 'UnicodeErr'):
            return ('accepted' if c.res[0] == 'ok' else 'raised ' + c.res[1]), 'UnicodeEncodeError (not encodable in %s)' % EPC_CHARSETS[want_cs]
        return None
    lines[2] = str(want_cs)
    want_bytes = '\n'.join(lines).encode(EPC_CHARSETS[want_cs])
    if len(want_bytes) > 331:
        if c.res[0] == 'ok' or c.res[1] != 'ValueError':
            return ('accepted %d bytes' % len(c.res[1]) if c.res[0] == 'ok' else 'raised ' + c.res[1]), 'ValueError (payload of %d bytes > 331)' % len(want_bytes)
        return None
    if c.res[0] != 'ok':
        return 'raised %s (%s)' % (c.res[1], c.res[2]), 'an EPC payload'
    data = c.res[1]
    if len(data) > 331:
        return '%d bytes' % len(data), 'at most 331 bytes'
    if c.charset is None or c.reader is None or not c.reader.startswith('OK '):
        return 'third line / bytes are not decodable with the announced character set: %r' % data[:40], 'character set number 1..8 matching the bytes'
    if c.charset != want_cs:
        return 'character set %d' % c.charset, 'character set %d (%s)' % (want_cs, 'requested' if e is not None else 'first applicable of 2..8, else 1')
    if c.text.encode(EPC_CHARSETS[c.charset]) != data:
        return 'bytes do not round-trip through %s' % EPC_CHARSETS[c.charset], 'the encoding announced on line 3'
    _, ltok, atok = c.reader.split(' ')
    got = [uncps(x) for x in ltok.split(';')]
    if got != lines:
        return 'lines %r' % (got,), 'lines %r' % (lines,)
    if len(got) != (11 if epc_norm(kw)[0] else 10):
        return '%d lines' % len(got), '10 lines + 1 for the unstructured text'
    if atok == 'NONE' or not re.fullmatch(r'EUR\d+(\.\d{1,2})?', got[7]):
        return 'amount line %r' % got[7], 'EUR#.##'
    val, neg = frac_of_triple(atok)
    want = round_half_even(epc_amount_fraction(kw['amount']), 2)
    if val != want or neg:
        return 'amount %s' % val, 'amount %s (= %r in cents, half-even)' % (want, kw['amount'])
    return None


KINDS = {'wifi': (gen_wifi, req_wifi, judge_wifi), 'mecard': (gen_mecard, req_mecard, judge_mecard), 'vcard': (gen_vcard, req_vcard, judge_vcard),
         'geo': (gen_geo, req_geo, judge_geo), 'mailto': (gen_mailto, req_mailto, judge_mailto), 'epc': (gen_epc, req_epc, judge_epc)}


def impl_token(c):
    """The implementation's result in the answer format of the model."""
    r = c.res
    if r[0] == 'unavailable':
        return None
    if r[0] != 'ok':
        return 'ERR ' + r[1]
    if c.builder == 'epc':
        if c.charset is None or getattr(c, 'text', None) is None:
            return 'OK ? undecodable'
        return 'OK %d %s' % (c.charset, cps(c.text))
    return 'OK ' + cps(r[1])


def run_cases(cases):
    """-> (failures, correspondence differences)"""
    for c in cases:
        c.res = call_builder(c)
    reqs, slots = [], []
    for c in cases:
        if c.res[0] == 'unavailable':
            continue
        model, reader = KINDS[c.builder][1](c)
        reqs.append(model)
        slots.append((c, 'model'))
        if reader is not None:
            reqs.append(reader)
            slots.append((c, 'reader'))
    ans = common.oracle_parallel(reqs, chunk=400) if reqs else []
    for (c, what), a in zip(slots, ans):
        setattr(c, what, a)
    failures, corr = [], []
    for c in cases:
        if c.res[0] == 'unavailable':
            continue
        bad = KINDS[c.builder][2](c)
        if bad is not None:
            failures.append({'input': c.describe(), 'observed': bad[0][:400], 'expected': bad[1][:400]})
        tok = impl_token(c)
        if tok != c.model:
            corr.append({'case': c.describe(), 'impl': tok[:300], 'model': (c.model or '')[:300]})
    return failures, corr


# ------------------------------------------------------------------ factory symbols
def rows_str(m):
    return '/'.join(''.join('1' if b else '0' for b in r) for r in m)


def symbol_checks(ctx, cases):
    """make_wifi / make_mecard / make_vcard / make_geo / make_email / make_epc_qr: the symbol decodes to the payload of the *_data builder."""
    rng = ctx.rng
    todo = []
    per_kind = 40 if ctx.thorough else 12
    for kind in KINDS:
        ok = [c for c in cases if c.builder == kind and c.res[0] == 'ok']
        for c in (ok if len(ok) <= per_kind else rng.sample(ok, per_kind)):
            todo.append((kind, c.kw, c.res[1]))
    # EPC sweep: every text length, sizes from ~30 to 331 bytes, all eight encodings
    short = dict(name='N', iban='DE123', amount=1)
    for k in range(1, 141):
        todo.append(('epc', dict(short, text='t' * k), None))
        todo.append(('epc', dict(short, text='ö' * k, encoding=1), None))
        todo.append(('epc', dict(name='ä' * 70, iban='x' * 34, amount=D('999999999.99'), text='ö' * k, bic='x' * 11, purpose='GDDS',
                                 encoding=(k % 8) + 1 if (k % 8) + 1 in (1, 2, 3, 4, 7, 8) else 2), None))
    for k in range(100, 141):
        todo.append(('epc', dict(name='n' * 70, iban='x' * 34, amount=D('999999999.99'), text='ö' * k, bic='x' * 11, purpose='GDDS', encoding='utf-8'), None))
    for num, t in ENC_TEXT.items():
        for k in (1, 50, 100):
            todo.append(('epc', dict(short, name=t, text=(t * 20)[:k], encoding=num), None))
    failures, reqs, meta = [], [], []
    for kind, kw, payload in todo:
        fac = getattr(helpers, FACTORIES[kind], None)
        bld = getattr(helpers, BUILDERS[kind], None)
        if fac is None or bld is None:
            continue
        if payload is None:
            r = impl.call(lambda: bld(**kw))
            if r[0] != 'ok':
                if kind == 'epc' and epc_must_refuse(kw) is None and len('\n'.join(epc_text_lines(kw)).encode('utf-8')) <= 331:
                    failures.append({'input': {'builder': kind, 'kwargs': repr(kw)}, 'observed': 'raised %s' % r[1], 'expected': 'an EPC payload'})
                continue
            payload = r[1]
        r = impl.call(lambda: fac(**kw))
        if r[0] != 'ok':
            failures.append({'input': {'factory': FACTORIES[kind], 'kwargs': repr(kw)}, 'observed': 'raised %s (%s)' % (r[1], r[2]), 'expected': 'a QR code'})
            continue
        q = r[1]
        reqs.append('decode ' + rows_str(q.matrix))
        meta.append((kind, kw, payload, q))
    ans = common.oracle_parallel(reqs, chunk=20) if reqs else []
    for (kind, kw, payload, q), a in zip(meta, ans):
        inp = {'factory': FACTORIES[kind], 'kwargs': repr(kw)}
        dec = sweep.parse_decoded(a)
        if dec is None:
            failures.append({'input': inp, 'observed': 'the reference decoder cannot read the symbol', 'expected': 'a readable symbol'})
            continue
        if isinstance(payload, bytes):
            want = payload
        else:
            parts = sweep.expected_parts({'content': payload})
            want = None if parts is None else b''.join(b for b, _, _ in parts)
        got = b''.join(s['bytes'] for s in dec['segments'])
        if want is None or got != want:
            failures.append({'input': inp, 'observed': 'symbol decodes to %r' % got[:120], 'expected': 'payload %r' % (want if want is None else want[:120])})
            continue
        if dec['version'] < 1:
            failures.append({'input': inp, 'observed': 'Micro QR symbol', 'expected': 'a QR code (make_qr)'})
        if kind == 'epc':
            if dec['level'] != 'M':
                failures.append({'input': inp, 'observed': 'error level %s (payload of %d bytes, version %d)' % (dec['level'], len(got), dec['version']),
                                 'expected': 'error level M'})
            if dec['version'] > 13:
                failures.append({'input': inp, 'observed': 'version %d' % dec['version'], 'expected': 'version <= 13'})
            if q.error != 'M' or q.version != dec['version']:
                failures.append({'input': inp, 'observed': 'reported error=%s version=%s' % (q.error, q.version),
                                 'expected': 'M / the version of the symbol (%d)' % dec['version']})
    return failures, len(meta)


def run(ctx):
    rng = ctx.rng
    t = 6 if ctx.thorough else 1
    cases = []
    for kind, n in (('wifi', 300), ('mecard', 250), ('vcard', 250), ('geo', 200), ('mailto', 250), ('epc', 300)):
        cases += KINDS[kind][0](rng, n * t)
    failures, corr = run_cases(cases)
    sfail, nsym = symbol_checks(ctx, cases)
    failures += sfail
    uniq, seen = [], set()
    for f in failures:
        k = (f['input'].get('builder') or f['input'].get('factory'), f['expected'][:40], f['observed'][:25])
        if k not in seen:
            seen.add(k)
            uniq.append(f)
    dist = {}
    for c in cases:
        key = '%s:%s' % (c.builder, c.res[0] if c.res[0] != 'exn' else c.res[1])
        dist[key] = dist.get(key, 0) + 1
    samples = []
    for kind in KINDS:
        for c in cases:
            if c.builder == kind and c.res[0] == 'ok' and len(samples) < 8:
                samples.append({'builder': kind, 'kwargs': repr(c.kw)[:200], 'payload': repr(c.res[1])[:200], 'model': (c.model or '')[:80]})
                break
    names = sorted(set(BUILDERS[d['case']['builder']] for d in corr))
    return {'failures': uniq, 'correspondence_broken': names, 'correspondence_details': corr[:10],
            'evaluations': len(cases) + nsym, 'distinct_nontrivial': len(set((c.builder, repr(c.kw)) for c in cases)) + nsym,
            'rule': RULE, 'samples': samples, 'distribution': dist,
            'searched': '%d builder calls parsed by the extracted independent readers, %d factory symbols decoded by the extracted reference decoder' % (len(cases), nsym),
            'trusted_extra': ['CPython supplies the results that the model takes as oracle inputs: str.upper() of the WIFI security value, the _looks_like_datetime '
                              'regex, str(float) of vCard coordinates, Decimal(float) (exact value of a float) and the encodability of the EPC text in the eight '
                              'character sets; the harness decodes the EPC bytes with Python codecs before handing the text to the Gallina line reader'],
            'explanation': 'mailto recipients (to / cc / bcc) are generated from an address-like alphabet: they are inserted verbatim by design (documented limitation); '
                           'EPC fields are generated without line breaks (theorem epc_layout states the same hypothesis)'}


def replay(rec):
    inp = rec['input']
    print(json.dumps(inp)[:600])
    kw = eval(inp['kwargs'], {'datetime': datetime, 'Decimal': D, 'nan': float('nan'), 'inf': float('inf')})  # noqa: S307 (our own recorded repr)
    if 'builder' in inp:
        failures, corr = run_cases([Case(inp['builder'], kw)])
        for f in failures:
            print('observed: %s\nexpected: %s' % (f['observed'], f['expected']))
        return 1 if failures else 0
    kind = [k for k, v in FACTORIES.items() if v == inp['factory']][0]
    q = getattr(helpers, inp['factory'])(**kw)
    dec = sweep.parse_decoded(common.oracle(['decode ' + rows_str(q.matrix)])[0])
    print('decoded: version %s level %s, reported %s-%s' % (dec and dec['version'], dec and dec['level'], q.version, q.error))
    payload = getattr(helpers, BUILDERS[kind])(**kw)
    want = payload if isinstance(payload, bytes) else b''.join(b for b, _, _ in sweep.expected_parts({'content': payload}))
    got = b''.join(s['bytes'] for s in dec['segments']) if dec else None
    bad = got != want or (kind == 'epc' and (dec['level'] != 'M' or dec['version'] > 13))
    print('payload %s' % ('differs' if got != want else 'equal'))
    return 1 if bad else 0
