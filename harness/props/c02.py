"""C02 -- geometry, function patterns, format/version information, reported metadata."""
import enc, gen, sweep, encprop, impl
import segno

TOP = ['theories/Props/C02.v', 'theories/Tie/TieTables.v', 'theories/Tie/TieFuns.v', 'theories/Tie/TieFormat.v', 'theories/Tie/TieFnPat.v', 'theories/Tie/TieChain.v']
WANT = ('c02', 'decode')
RULE = ('all 1312 (version, level, mask) triples with random data (exhaustive in both tiers) plus random cases; the extracted '
        'ISO geometry/BCH/Golay oracle is evaluated on every implementation matrix; QRCode metadata compared with the matrix')
CODES = {1: 'not a square of the ISO size', 2: 'function pattern module differs from ISO', 3: 'no ISO format word for (version, level)',
         4: 'first format copy is not BCH(15,5) xor mask of (level, mask)', 5: 'second format copy wrong',
         6: 'lower-left version information is not Golay(18,6) of v', 7: 'upper-right version information wrong'}


def judge(r):
    if r['code'] is None:
        return None
    a = r.get('c02')
    if a and a != '-':
        return '; '.join(CODES.get(int(x), x) for x in a.split(','))
    c = r['code']
    if any(b not in (0, 1) for row in c.matrix for b in row):
        return 'matrix contains values other than 0/1'
    # reported metadata vs what is physically in the matrix (read by the reference decoder)
    d = r.get('dec')
    if d is None:
        return 'reference decoder cannot read the symbol'
    q = segno.QRCode(c)
    size = len(c.matrix)
    exp_v = enc.vname(d['version'])
    lvl = d['level']
    want = {'version': exp_v, 'error': lvl, 'mask': d['mask'], 'is_micro': d['version'] < 1,
            'designator': ('%s-%s' % (exp_v, lvl)) if lvl else str(exp_v), 'symbol_size': (size + 2 * (4 if d['version'] > 0 else 2),) * 2,
            'default_border_size': 4 if d['version'] > 0 else 2}
    got = {'version': q.version, 'error': q.error, 'mask': q.mask, 'is_micro': q.is_micro, 'designator': q.designator,
           'symbol_size': q.symbol_size(), 'default_border_size': q.default_border_size}
    for k in want:
        if want[k] != got[k]:
            return 'QRCode.%s reports %r but the matrix carries %r' % (k, got[k], want[k])
    if len(d['segments']) == 1 and q.mode != d['segments'][0]['mode']:
        return 'QRCode.mode reports %r but the symbol carries %r' % (q.mode, d['segments'][0]['mode'])
    return None


def cases(ctx):
    rng = ctx.rng
    out = []
    for v in gen.VERSIONS:
        for level in gen.levels_of(v):
            for mask in range(4 if v < 1 else 8):
                c = {'content': gen.content_of(rng, 1, rng.randrange(1, 5)), 'version': enc.vname(v), 'mask': mask, 'boost_error': False}
                if level:
                    c['error'] = level
                out.append(c)
    out += [enc.random_case(rng) for _ in range(1500 if ctx.thorough else 150)]
    return out


def run(ctx):
    return encprop.run_cases(ctx, cases(ctx), WANT, judge, RULE, exhaustive=True)


def replay(rec):
    return encprop.replay_case(rec, WANT, judge)
