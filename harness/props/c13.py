"""C13 -- terminator and padding per ISO 7.4.9 / 7.4.10."""
import common, enc, gen, sweep, encprop

TOP = ['theories/Props/C13.v', 'theories/Props/C13_chain.v', 'theories/Tie/TieTables.v', 'theories/Tie/TiePad.v', 'theories/Tie/TieEncode.v',
       'theories/Tie/TieEncodeFull.v', 'theories/Tie/TieEncodeFinal.v']
WANT = ('c13',)
RULE = ('every residue of the terminated stream length mod 8 x distance to capacity 0..12 bits for all 44 versions (numeric/alnum/byte '
        'lengths chosen to hit them), plus random cases; the extracted oracle recovers the data codewords from the implementation '
        'matrix and compares them with iso_pad of the segment bits')


def judge(r):
    if r['code'] is None:
        return None
    a = r.get('c13')
    if a is None or a == 'NONE':
        return 'reference decoder cannot read the symbol'
    iso, kf, v, cap, ln = a.split()
    if iso == '1':
        return None
    return 'data codewords differ from ISO padding (version %s capacity %s segment bits %s)%s' % (
        v, cap, ln, ' [equals ISO padding with one extra 00000000 codeword]' if kf == '1' else '')


def kf_fn(r, msg):
    if not r.get('c13') or r['c13'] == 'NONE':
        return None
    iso, kf, v, cap, ln = r['c13'].split()
    if kf == '1':
        a = common.oracle(['kf_pad %s %s %s' % (v, cap, ln)])[0]
        if a == '1':
            return 'kf_pad_aligned'
    return None


def cases(ctx):
    rng = ctx.rng
    out = []
    vs = gen.VERSIONS if ctx.thorough else [-3, -2, -1, 0, 1, 2, 5, 9, 10, 20, 26, 27, 40]
    for v in vs:
        for level in gen.levels_of(v):
            cap = gen.capacity(v, level)
            seen = set()
            for mode in (1, 2, 4):
                n = gen.max_count(mode, v, level)
                if n is None:
                    continue
                for k in range(0, 9):
                    m = n - k
                    if m < 0:
                        continue
                    b = gen.bits(mode, m, v)
                    key = (cap - b if cap - b <= 12 else 99, b % 8)
                    if key in seen and k > 2:
                        continue
                    seen.add(key)
                    c = {'content': gen.content_of(rng, mode, m), 'version': enc.vname(v), 'mask': rng.randrange(4), 'boost_error': False}
                    if level:
                        c['error'] = level
                    out.append(c)
    out += [enc.random_case(rng) for _ in range(1500 if ctx.thorough else 200)]
    return out


def run(ctx):
    return encprop.run_cases(ctx, cases(ctx), WANT, judge, RULE, kf_fn=kf_fn)


def replay(rec):
    return encprop.replay_case(rec, WANT, judge)
