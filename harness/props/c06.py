"""C06 -- requested mask used; automatic mask minimises the ISO penalty."""
import common, enc, gen, sweep, encprop, impl

TOP = ['theories/Props/C06.v', 'theories/Tie/TieTables.v', 'theories/Tie/TieFuns.v', 'theories/Tie/TieMaskArg.v', 'theories/Tie/TieMask.v',
       'theories/Tie/TieMaskScores.v', 'theories/Tie/TieMaskFull.v', 'theories/Tie/TieChain.v']
WANT = ('decode', 'bestmask')
RULE = ('symbols of every version class with automatic mask: all candidates are recomputed from the implementation matrix by '
        'unmask/remask with ISO Table 10 and scored with an independent ISO 7.8.3 scorer (extracted), the lowest-numbered optimum '
        'must be the mask used; requested masks 0..7/0..3 must be read back from the format information and decode; '
        'mask_scores / evaluate_micro_mask compared with the extracted model and the ISO scorer on adversarial matrices '
        '(planted overlapping 1011101 patterns, runs of 4/5/6, dark ratio at 5% boundaries)')


def judge(r):
    if r['code'] is None:
        return None
    case = r['case']
    d = r.get('dec')
    if d is None:
        return 'reference decoder cannot read the symbol'
    if case.get('mask') is not None:
        if d['mask'] != int(case['mask']):
            return 'requested mask %s, format information carries %d' % (case['mask'], d['mask'])
        return sweep.check_c01(case, r['code'], d)   # masked with exactly that pattern <=> unmasking with it decodes
    a = r.get('bestmask')
    if a:
        best, scores = a.split()
        if int(best) != r['code'].mask:
            return 'mask %d used, ISO optimum is %s (scores %s)' % (r['code'].mask, best, scores)
    return None


def adversarial_matrices(rng, n, size):
    out = []
    for _ in range(n):
        p = rng.choice([0.1, 0.3, 0.45, 0.5, 0.55, 0.7, 0.9])
        m = [[1 if rng.random() < p else 0 for _ in range(size)] for _ in range(size)]
        for _ in range(rng.randrange(0, 6)):
            i = rng.randrange(size)
            j = rng.randrange(0, size - 11)
            pat = rng.choice([[0, 0, 0, 0, 1, 0, 1, 1, 1, 0, 1], [1, 0, 1, 1, 1, 0, 1, 0, 0, 0, 0], [1, 0, 1, 1, 1, 0, 1, 1, 1, 0, 1],
                              [0, 0, 0, 0, 1, 0, 1, 1, 1, 0, 1, 1, 1, 0, 1, 0, 0, 0, 0][:size - j], [1] * 5, [0] * 6, [1] * 4])
            if rng.random() < 0.5:
                m[i][j:j + len(pat)] = pat[:size - j]
            else:
                for k, b in enumerate(pat[:size - j]):
                    m[j + k][i] = b
        out.append(m)
    return out


def scorer_checks(ctx):
    rng = ctx.rng
    fails, corr = [], []
    n = 0
    mats = []
    for size in ([21, 25, 29, 45] if not ctx.thorough else [21, 25, 29, 33, 45, 57, 77]):
        mats += adversarial_matrices(rng, 40 if not ctx.thorough else 150, size)
    # dark ratio exactly on 5% boundaries +-1
    for size in (21, 25):
        tot = size * size
        for k in range(1, 20):
            for d in (-1, 0, 1):
                dark = (tot * 5 * k) // 100 + d
                if 0 <= dark <= tot:
                    cells = [1] * dark + [0] * (tot - dark)
                    rng.shuffle(cells)
                    mats.append([cells[i * size:(i + 1) * size] for i in range(size)])
    rows = ['/'.join(''.join(map(str, r)) for r in m) for m in mats]
    try:
        got = [impl.encoder.mask_scores(tuple(bytearray(r) for r in m), len(m), len(m)) for m in mats]
    except Exception as ex:  # noqa: BLE001
        return [], ['mask_scores unavailable: %s' % type(ex).__name__], 0
    model = common.oracle_parallel(['mask_scores ' + r for r in rows], chunk=20)
    iso = common.oracle_parallel(['iso_penalty ' + r for r in rows], chunk=20)
    for m, r, g, mo, i in zip(mats, rows, got, model, iso):
        n += 1
        if ','.join(map(str, g)) != mo and not corr:
            corr.append('mask_scores: model %s vs implementation %s' % (mo, g))
        if sum(g) != int(i):
            fails.append({'input': {'matrix': r}, 'observed': 'mask_scores=%s sum %d' % (g, sum(g)), 'expected': 'ISO penalty %s' % i})
    # micro
    mm = [[[rng.randrange(2) for _ in range(s)] for _ in range(s)] for s in (11, 13, 15, 17) for _ in range(30)]
    # every pair (dark modules in the right column, dark modules in the bottom row), incl. the extremes 0 and size-1
    for sz in (11, 13, 15, 17):
        for a in range(sz):
            for b in range(sz):
                m = [[rng.randrange(2) for _ in range(sz)] for _ in range(sz)]
                col = [1] * a + [0] * (sz - 1 - a)
                row = [1] * b + [0] * (sz - 1 - b)
                rng.shuffle(col)
                rng.shuffle(row)
                for k in range(1, sz):
                    m[k][sz - 1] = col[k - 1] if k - 1 < len(col) else 0
                    m[sz - 1][k] = row[k - 1] if k - 1 < len(row) else 0
                if a <= sz - 1 and b <= sz - 1:
                    mm.append(m)
    rows = ['/'.join(''.join(map(str, r)) for r in m) for m in mm]
    got = [impl.encoder.evaluate_micro_mask(tuple(bytearray(r) for r in m), len(m), len(m)) for m in mm]
    iso = common.oracle_parallel(['iso_micro_score ' + r for r in rows], chunk=40)
    for r, g, i in zip(rows, got, iso):
        n += 1
        if g != int(i):
            fails.append({'input': {'matrix': r, 'scorer': 'micro'}, 'observed': 'evaluate_micro_mask=%d' % g, 'expected': 'ISO 7.8.3.2 score %s' % i})
    return fails, corr, n


def cases(ctx):
    rng = ctx.rng
    out = []
    vs = [-3, -2, -1, 0, 1, 2, 3, 4, 5, 6, 7] if not ctx.thorough else list(range(-3, 21)) + [27, 40]
    for v in vs:
        for rep in range(6 if not ctx.thorough else 12):
            level = rng.choice(gen.levels_of(v))
            mode = rng.choice([m for m in (1, 2, 4) if gen.max_count(m, v, level) is not None])
            n = gen.max_count(mode, v, level)
            c = {'content': gen.content_of(rng, mode, rng.randrange(0 if mode == 4 else 1, n + 1)), 'version': enc.vname(v), 'boost_error': False}
            if level:
                c['error'] = level
            out.append(c)
    for v in ([-3, -1, 0, 1, 2, 7] if not ctx.thorough else gen.VERSIONS):
        for mask in range(4 if v < 1 else 8):
            c = {'content': gen.content_of(rng, 1, rng.randrange(1, 5)), 'version': enc.vname(v), 'mask': mask}
            out.append(c)
    out += [dict(enc.random_case(rng, max_len=30)) for _ in range(600 if ctx.thorough else 80)]
    return out


def run(ctx):
    res = encprop.run_cases(ctx, cases(ctx), WANT, judge, RULE)
    fails, corr, n = scorer_checks(ctx)
    res['failures'] += fails[:10]
    res['correspondence_broken'] += corr
    res['evaluations'] += n
    res['distinct_nontrivial'] += n
    return res


def replay(rec):
    if 'matrix' in rec['input']:
        m = [[int(c) for c in r] for r in rec['input']['matrix'].split('/')]
        if rec['input'].get('scorer') == 'micro':
            g = impl.encoder.evaluate_micro_mask(tuple(bytearray(r) for r in m), len(m), len(m))
            i = common.oracle(['iso_micro_score ' + rec['input']['matrix']])[0]
            print('evaluate_micro_mask', g, 'ISO 7.8.3.2 score', i)
            return 1 if g != int(i) else 0
        g = impl.encoder.mask_scores(tuple(bytearray(r) for r in m), len(m), len(m))
        i = common.oracle(['iso_penalty ' + rec['input']['matrix']])[0]
        print('mask_scores', g, 'sum', sum(g), 'ISO penalty', i)
        return 1 if sum(g) != int(i) else 0
    return encprop.replay_case(rec, WANT, judge)
