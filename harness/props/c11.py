"""C11 -- module iteration and per-type classification."""
import json
import common
import impl

TOP = ['theories/Props/C11.v', 'theories/Props/C11_iter.v', 'theories/Tie/TieTables.v',
       'theories/Tie/TieUtils.v', 'theories/Tie/TieUtilsIter.v', 'theories/Tie/TieUtilsVerbose.v', 'theories/Tie/TieColor.v', 'theories/Tie/TieWrColorFull.v',
       'theories/Tie/TiePng.v', 'theories/Tie/TieSvg.v']

RULE = ('all 44 symbol sizes, a real symbol per size (random content/level/mask from the seed), '
        'matrix_iter_verbose compared cell by cell with the extracted ISO classifier for several (scale, border); '
        'a case is one (version, scale, border) grid; non-trivial = symbol matrix differs from every other case')


def run(ctx):
    rng = ctx.rng
    failures, samples, corr = [], [], []
    evaluations = 0
    distinct = set()
    combos = [(1, 0), (1, None), (2, 1), (3, 4)] if not ctx.thorough else \
        [(1, 0), (1, None), (2, 1), (3, 4), (1, 7), (4, 2), (2.9, 3)]
    reqs, meta = [], []
    for version in range(-3, 41):
        code = impl.random_symbol(rng, version)
        if code is None:
            corr.append('could not create a symbol of version %d' % version)
            continue
        size = len(code.matrix)
        rows = '/'.join(''.join('1' if b else '0' for b in r) for r in code.matrix)
        # auxiliary alignment matrix used by the classifier
        aux = impl.alignment_aux_matrix(size)
        if aux is not None:
            reqs.append('align_aux %d' % size)
            meta.append(('aux', version, size, aux))
        for scale, border in combos:
            got = impl.call(lambda: [list(r) for r in impl.utils.matrix_iter_verbose(code.matrix, (size, size), scale, border)])
            b = border if border is not None else (4 if size > 17 else 2)
            reqs.append('classify %d %d %s' % (size, b, rows))
            meta.append(('cls', version, size, scale, border, b, got, code))
    answers = common.oracle_parallel(reqs, chunk=8)
    kf_queries = []
    for req, m, ans in zip(reqs, meta, answers):
        if m[0] == 'aux':
            _, version, size, aux = m
            exp = [[int(x) for x in r.split(',')] for r in ans.split('/')]
            evaluations += 1
            if aux != exp:
                corr.append('alignment auxiliary matrix of size %d differs from Annex E' % size)
            continue
        _, version, size, scale, border, b, got, code = m
        evaluations += 1
        distinct.add((version, scale, border))
        if got[0] != 'ok':
            failures.append({'input': {'version': version, 'scale': scale, 'border': border},
                             'observed': 'exception %s' % got[1], 'expected': 'rows'})
            continue
        exp = [[int(x) for x in r.split(',')] for r in ans.split('/')]
        s = int(scale)
        n = size + 2 * b
        grid = got[1]
        if len(grid) != n * s or any(len(r) != n * s for r in grid):
            failures.append({'input': {'version': version, 'scale': scale, 'border': border},
                             'observed': 'grid %dx%d' % (len(grid), len(grid[0]) if grid else 0), 'expected': '%d square' % (n * s)})
            continue
        for y in range(n * s):
            for x in range(n * s):
                e = exp[y // s][x // s]
                if grid[y][x] != e:
                    i, j = y // s - b, x // s - b
                    failures.append({'input': {'version': version, 'size': size, 'scale': scale, 'border': border, 'i': i, 'j': j,
                                               'matrix': ['' .join(map(str, r)) for r in code.matrix]},
                                     'observed': grid[y][x], 'expected': e})
                    kf_queries.append((len(failures) - 1, size, i, j))
        if len(samples) < 4:
            samples.append({'version': version, 'scale': scale, 'border': border, 'row8': grid[(8 + b) * s][:40]})
    # ---- per-type colouring in SVG: colour values that coincide across the dark / light divide (read back by the extracted SVG reader
    #      through the C10 job machinery)
    from props import c10 as c10mod
    svg_jobs = []
    for desc in (dict(content='HELLO', version=1, error='H'), dict(content='AB', version='M2'), dict(content='seven', version=7)):
        qq = impl.segno.make(boost_error=False, **desc)
        subj = c10mod.Subject(desc, qq.matrix)
        for kw in c10mod.COINCIDING:
            for scale, border in ((1, None), (2, 0)):
                svg_jobs.append(c10mod.Job(subj, 'svg', scale, border, dict(kw)))
    c10mod.run_jobs(svg_jobs)
    for j in svg_jobs:
        evaluations += 1
        failures += j.failures[:2]
    # ---- per-type colouring: PNG and PPM with k distinct colours (k = 2..12, with / without a transparent one)
    import io as _io, struct as _struct, zlib as _zlib
    OPT_OF_TYPE = {1536: 'finder_dark', 6: 'finder_light', 1024: 'data_dark', 4: 'data_light', 4096: 'version_dark', 16: 'version_light',
                   3584: 'format_dark', 14: 'format_light', 2560: 'alignment_dark', 10: 'alignment_light', 3072: 'timing_dark', 12: 'timing_light',
                   8: 'separator', 512: 'dark_module', 18: 'quiet_zone'}
    DARK_TYPES = {1536, 1024, 4096, 3584, 2560, 3072, 512}
    palette = [(16, 201, 5), (29, 190, 42), (42, 179, 79), (200, 10, 10), (10, 10, 200), (250, 250, 0), (0, 250, 250), (250, 0, 250),
               (120, 60, 0), (60, 120, 0), (0, 60, 120), (90, 90, 90), (33, 44, 55)]
    opts_all = ['finder_dark', 'data_dark', 'version_dark', 'format_dark', 'alignment_dark', 'timing_dark', 'dark_module',
                'finder_light', 'data_light', 'version_light', 'format_light', 'alignment_light', 'timing_light', 'separator', 'quiet_zone']
    for version in ((7, 1, -1) if not ctx.thorough else (7, 1, -1, 0, 2, 10)):
        code = impl.random_symbol(rng, version)
        if code is None:
            continue
        q = impl.segno.QRCode(code)
        size = len(code.matrix)
        rows = '/'.join(''.join('1' if b else '0' for b in r) for r in code.matrix)
        configs = [({o: palette[i] for i, o in enumerate(rng.sample(opts_all, k))}, light) for k in range(0, 12) for light in ('#fff', None)]
        # directed: colour maps with exactly TWO distinct colours in which a module type gets the colour of the opposite side (a
        # writer that falls back to the plain 0/1 iteration for two-colour images loses the per-type option), singly and in pairs
        WHITE, BLACK = (255, 255, 255), (0, 0, 0)
        opp = lambda o: WHITE if (o.endswith('_dark') or o == 'dark_module') else BLACK
        configs += [({o: opp(o)}, '#fff') for o in opts_all]
        configs += [({o: opp(o) for o in rng.sample(opts_all, 2)}, '#fff') for _ in range(4)]
        configs += [({o: opp(o)}, None) for o in ('finder_dark', 'data_dark', 'timing_dark', 'dark_module')]
        for kw, light in configs:
            if True:
                k = len(kw) if not set(kw.values()) <= {WHITE, BLACK} else 100 + len(kw)
                border = rng.choice([0, 1, 2])
                scale = rng.choice([1, 2])
                exp_types = [[int(x) for x in r.split(',')] for r in common.oracle(['classify %d %d %s' % (size, border, rows)])[0].split('/')]

                def want(y, x):
                    t = exp_types[y // scale][x // scale]
                    o = OPT_OF_TYPE[t]
                    if o in kw:
                        return kw[o] + (255,)
                    if t in DARK_TYPES:
                        return (0, 0, 0, 255)
                    return (255, 255, 255, 255) if light is not None else (0, 0, 0, 0)
                for kind in ('png', 'ppm'):
                    if kind == 'ppm' and light is None:
                        continue
                    out = _io.BytesIO()
                    r = impl.call(lambda: q.save(out, kind=kind, scale=scale, border=border, light=light, **kw))
                    evaluations += 1
                    distinct.add((version, kind, k, light))
                    if r[0] != 'ok':
                        failures.append({'input': {'version': version, 'kind': kind, 'options': {a: list(b) for a, b in kw.items()}, 'light': light},
                                         'observed': '%s: %s' % (r[1], r[2]), 'expected': 'an image'})
                        continue
                    data = out.getvalue()
                    if kind == 'png':
                        pos, comp = 8, b''
                        while pos < len(data):
                            ln = _struct.unpack('>I', data[pos:pos + 4])[0]
                            if data[pos + 4:pos + 8] == b'IDAT':
                                comp += data[pos + 8:pos + 8 + ln]
                            pos += 12 + ln
                        ans = common.oracle(['r_png %s %s %s' % (data.hex(), comp.hex(), _zlib.decompress(comp).hex())])[0]
                    else:
                        ans = common.oracle(['r_ppm ' + data.hex()])[0]
                    if not ans.startswith('OK'):
                        failures.append({'input': {'version': version, 'kind': kind, 'options': {a: list(b) for a, b in kw.items()}, 'light': light,
                                                   'scale': scale, 'border': border}, 'observed': 'independent reader rejects the file', 'expected': 'well-formed image'})
                        continue
                    px = [r2.split(',') for r2 in ans.split(' ')[-1].split('/')]
                    bad = None
                    for y, r2 in enumerate(px):
                        for x, c in enumerate(r2):
                            got = tuple(int(v) for v in c.split('.'))
                            exp = want(y, x)
                            if kind == 'ppm':
                                exp = exp[:3]
                            if got != exp and not (len(exp) == 4 and exp[3] == 0 and got[3] == 0):
                                i2, j2 = y // scale - border, x // scale - border
                                if size >= 21 and i2 == 8 and j2 == size - 9:
                                    continue          # known finding kf_fmt_col: reported as format information
                                bad = (y, x, got, exp)
                                break
                        if bad:
                            break
                    if bad:
                        failures.append({'input': {'version': version, 'kind': kind, 'options': {a: list(b) for a, b in kw.items()}, 'light': light,
                                                   'scale': scale, 'border': border, 'pixel': bad[:2],
                                                   'matrix': [''.join(map(str, r)) for r in code.matrix]},
                                         'observed': 'colour %s' % (bad[2],), 'expected': 'colour %s configured for the module type' % (bad[3],)})
    # known-finding predicate (extracted Gallina) decides which deviations are the listed one
    if kf_queries:
        ans = common.oracle_parallel(['kf_fmt_col %d %d %d' % (s, i, j) for _, s, i, j in kf_queries])
        for (idx, s, i, j), a in zip(kf_queries, ans):
            f = failures[idx]
            if a == '1' and f['observed'] in (14, 3584) and f['expected'] in (4, 1024):
                f['kf'] = 'kf_fmt_col'
    # dedupe failures per (version, i, j)
    seen, uniq = set(), []
    for f in failures:
        k = (f['input'].get('version'), f['input'].get('i'), f['input'].get('j'), f.get('kf'))
        if k not in seen:
            seen.add(k)
            uniq.append(f)
    return {'failures': uniq, 'correspondence_broken': corr, 'evaluations': evaluations,
            'distinct_nontrivial': len(distinct), 'rule': RULE, 'samples': samples, 'exhaustive': True,
            'distribution': {'versions': 44, 'scale_border': [list(map(str, c)) for c in combos]},
            'searched': 'all 44 sizes x %d (scale, border) grids, every cell' % len(combos)}


def _read_pixels(data, kind):
    import struct as _struct, zlib as _zlib
    if kind == 'png':
        pos, comp = 8, b''
        while pos < len(data):
            ln = _struct.unpack('>I', data[pos:pos + 4])[0]
            if data[pos + 4:pos + 8] == b'IDAT':
                comp += data[pos + 8:pos + 8 + ln]
            pos += 12 + ln
        ans = common.oracle(['r_png %s %s %s' % (data.hex(), comp.hex(), _zlib.decompress(comp).hex())])[0]
    else:
        ans = common.oracle(['r_ppm ' + data.hex()])[0]
    if not ans.startswith('OK'):
        return None
    return [[tuple(int(v) for v in c.split('.')) for c in r2.split(',')] for r2 in ans.split(' ')[-1].split('/')]


def replay(rec):
    inp = rec['input']
    if 'kind' in inp and 'matrix' in inp and 'pixel' in inp:
        import io as _io
        m = tuple(bytearray(int(c) for c in row) for row in inp['matrix'])
        out = _io.BytesIO()
        kw = {a: tuple(b) for a, b in inp['options'].items()}
        impl.segno.writers.save(m, (len(m), len(m)), out, kind=inp['kind'], scale=inp['scale'], border=inp['border'], light=inp['light'], **kw)
        px = _read_pixels(out.getvalue(), inp['kind'])
        y, x = inp['pixel']
        got = 'colour %s' % (px[y][x],) if px else 'independent reader rejects the file'
        print('%s pixel (%d,%d) with options %r light=%r: observed %s, expected %s' % (inp['kind'], y, x, inp['options'], inp['light'], got, rec['expected']))
        return 0 if px and rec['expected'].startswith(got + ' ') else 1
    m = tuple(bytearray(int(c) for c in row) for row in inp['matrix'])
    size = len(m)
    grid = [list(r) for r in impl.utils.matrix_iter_verbose(m, (size, size), inp['scale'], inp['border'])]
    b = inp['border'] if inp['border'] is not None else (4 if size > 17 else 2)
    s = int(inp['scale'])
    got = grid[(inp['i'] + b) * s][(inp['j'] + b) * s]
    print('matrix_iter_verbose at (%d,%d): observed %r, ISO expects %r' % (inp['i'], inp['j'], got, rec['expected']))
    return 1 if got != rec['expected'] else 0
