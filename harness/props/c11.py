"""C11 -- module iteration and per-type classification."""
import json
import common
import impl

TOP = ['theories/Props/C11.v', 'theories/Tie/TieTables.v']

RULE = ('all 44 symbol sizes, a real symbol per size (random content/level/mask from the seed), '
        'matrix_iter_verbose compared cell by cell with the extracted ISO classifier for several (scale, border); '
        'a case is one (version, scale, border) grid; non-trivial = symbol matrix differs from every other case')


def run(ctx):
    rng = ctx.rng
    failures, samples, corr = [], [], []
    evaluations = 0
    distinct = set()
    combos = [(1, 0), (1, None), (2, 1), (3, 4)] if not ctx.thorough else \
        [(1, 0), (1, None), (2, 1), (3, 4), (1, 7), (4, 2), (2.9, 3)]
    reqs, meta = [], []
    for version in range(-3, 41):
        code = impl.random_symbol(rng, version)
        if code is None:
            corr.append('could not create a symbol of version %d' % version)
            continue
        size = len(code.matrix)
        rows = '/'.join(''.join('1' if b else '0' for b in r) for r in code.matrix)
        # auxiliary alignment matrix used by the classifier
        aux = impl.alignment_aux_matrix(size)
        if aux is not None:
            reqs.append('align_aux %d' % size)
            meta.append(('aux', version, size, aux))
        for scale, border in combos:
            got = impl.call(lambda: [list(r) for r in impl.utils.matrix_iter_verbose(code.matrix, (size, size), scale, border)])
            b = border if border is not None else (4 if size > 17 else 2)
            reqs.append('classify %d %d %s' % (size, b, rows))
            meta.append(('cls', version, size, scale, border, b, got, code))
    answers = common.oracle_parallel(reqs, chunk=8)
    kf_queries = []
    for req, m, ans in zip(reqs, meta, answers):
        if m[0] == 'aux':
            _, version, size, aux = m
            exp = [[int(x) for x in r.split(',')] for r in ans.split('/')]
            evaluations += 1
            if aux != exp:
                corr.append('alignment auxiliary matrix of size %d differs from Annex E' % size)
            continue
        _, version, size, scale, border, b, got, code = m
        evaluations += 1
        distinct.add((version, scale, border))
        if got[0] != 'ok':
            failures.append({'input': {'version': version, 'scale': scale, 'border': border},
                             'observed': 'exception %s' % got[1], 'expected': 'rows'})
            continue
        exp = [[int(x) for x in r.split(',')] for r in ans.split('/')]
        s = int(scale)
        n = size + 2 * b
        grid = got[1]
        if len(grid) != n * s or any(len(r) != n * s for r in grid):
            failures.append({'input': {'version': version, 'scale': scale, 'border': border},
                             'observed': 'grid %dx%d' % (len(grid), len(grid[0]) if grid else 0), 'expected': '%d square' % (n * s)})
            continue
        for y in range(n * s):
            for x in range(n * s):
                e = exp[y // s][x // s]
                if grid[y][x] != e:
                    i, j = y // s - b, x // s - b
                    failures.append({'input': {'version': version, 'size': size, 'scale': scale, 'border': border, 'i': i, 'j': j,
                                               'matrix': ['' .join(map(str, r)) for r in code.matrix]},
                                     'observed': grid[y][x], 'expected': e})
                    kf_queries.append((len(failures) - 1, size, i, j))
        if len(samples) < 4:
            samples.append({'version': version, 'scale': scale, 'border': border, 'row8': grid[(8 + b) * s][:40]})
    # known-finding predicate (extracted Gallina) decides which deviations are the listed one
    if kf_queries:
        ans = common.oracle_parallel(['kf_fmt_col %d %d %d' % (s, i, j) for _, s, i, j in kf_queries])
        for (idx, s, i, j), a in zip(kf_queries, ans):
            f = failures[idx]
            if a == '1' and f['observed'] in (14, 3584) and f['expected'] in (4, 1024):
                f['kf'] = 'kf_fmt_col'
    # dedupe failures per (version, i, j)
    seen, uniq = set(), []
    for f in failures:
        k = (f['input'].get('version'), f['input'].get('i'), f['input'].get('j'), f.get('kf'))
        if k not in seen:
            seen.add(k)
            uniq.append(f)
    return {'failures': uniq, 'correspondence_broken': corr, 'evaluations': evaluations,
            'distinct_nontrivial': len(distinct), 'rule': RULE, 'samples': samples, 'exhaustive': True,
            'distribution': {'versions': 44, 'scale_border': [list(map(str, c)) for c in combos]},
            'searched': 'all 44 sizes x %d (scale, border) grids, every cell' % len(combos)}


def replay(rec):
    inp = rec['input']
    m = tuple(bytearray(int(c) for c in row) for row in inp['matrix'])
    size = len(m)
    grid = [list(r) for r in impl.utils.matrix_iter_verbose(m, (size, size), inp['scale'], inp['border'])]
    b = inp['border'] if inp['border'] is not None else (4 if size > 17 else 2)
    s = int(inp['scale'])
    got = grid[(inp['i'] + b) * s][(inp['j'] + b) * s]
    print('matrix_iter_verbose at (%d,%d): observed %r, ISO expects %r' % (inp['i'], inp['j'], got, rec['expected']))
    return 1 if got != rec['expected'] else 0
