"""Shared plumbing: build (translator + coqc + extraction), obligations, oracle binary, evidence."""
import fcntl
import glob
import json
import os
import random
import re
import subprocess
import sys
import time

VERIF = os.path.dirname(os.path.dirname(os.path.abspath(__file__)))
BUILD = os.path.join(VERIF, 'build')
REPO = os.environ.get('VERIF_REPO') or '/repo'
NPROC = os.cpu_count() or 4

TRUSTED_BASE = [
    'Coq 8.16.1 kernel including the vm_compute bytecode VM (finite theorems); no native_compute',
    'no axioms declared; Print Assumptions of every property theorem is recorded per run',
    'gen/translate.py (table dump of the imported /repo/segno modules + PyLite ast translation) and CPython import of /repo',
    'theories/Base/PyLite.v as the semantics of the translated Python fragment (unbounded int, floor div/mod)',
    'hand-written Gallina model of the loop/mutation code, tied to /repo by differential correspondence on generated cases',
    'Coq extraction with ExtrOcamlBasic only (no Extract Constant), OCaml 4.13.1, ocaml/driver.ml',
    'frozen ISO tables theories/Ref/IsoData.v constrained by cross-check theorems (BCH, Golay, Annex E, GF(256), module counts)',
    'gen/translate_utils.py (segno/utils.py -> SrcUtils*.v: Q for int-or-float numbers, generators desugared to lists, is-None narrowing)',
    'gen/translate_seg.py (make_segment / find_mode / is_kanji / data_to_bytes -> SrcMode.v, SrcSegMake.v; bytes content only, isinstance decided by the declared type)',
    'theories/Base/PySem.v as the semantics of the statement fragment of generated code (py_for / ctl, list and Buffer operations, index wrap-around, exception classes; UnboundLocalError stands as TypeErr)',
    'theories/Base/PySemGen.v (exact rationals for numbers that are ints or exactly representable floats, generator = list of yielded items, itertools.repeat / chain)',
    'theories/Base/PySemSeg.v (bytes operations, int(bytes) as PyLong_FromString base 10, compiled regex read as ^?[class]+\\Z, next(iter); StopIteration stands as TypeErr)',
    'theories/Base/PySemExt.v (while loops bounded by fuel; py_unmodelled marks out-of-fuel / ZeroDivisionError / OverflowError, so Ok-results are exact and Err-results partial; bytearray.find; PrimFloat = CPython binary64 round-to-nearest-even, used for N4)',
    'gen/translate_glue.py (Segments.add_segment / prepare_data / normalize_* / encode_sequence helpers / encode() -> SrcSegments.v, SrcNorm.v, SrcSeq.v, SrcEncodeTop.v; one translation per declared input shape, self replaced by its slots, isinstance decided by the declared type)',
    'theories/Base/PySemGlue.v (str as code points with int(str) = PyLong_FromUnicodeObject, upper() / lower() = Base/PyCase.v (Python\'s as far as ASCII characters are concerned: tables of the 2 + 17 non-ASCII code points with an ASCII character in their image, compared with the running interpreter by C14), del l[i], dict-literal get, content items py_pitem, math.ceil(a / b) exact below 2^52; py_unmodelled marks ZeroDivisionError and values outside the declared types)',
    'gen/translate_writers.py (write_txt / xbm / xpm / terminal(_compact) / pbm / pam / ppm -> SrcWrCommon.v, SrcWrText.v, SrcWrNetpbm.v; the with-writable block becomes "the function returns what was written" while writers.writable equals its fingerprint; one-shot iterators as lists with a static single-consumption check; colour helpers as parameters)',
    'theories/Base/PySemIO.v (output stream = concatenation of the written items, str / bytes as lists of code points / items, str(int), format 02x, join, encode ascii, reduce, zip_longest grouper / pairing, struct.pack >nB with struct.error standing as TypeErr)',
    'gen/translate_helpers.py (_escape_mecard / _escape_vcard / make_wifi_data / make_mecard_data / make_vcard_data / make_geo_data / make_make_email_data of segno/helpers.py -> SrcHelpers*.v; the three translate() dicts dumped from the imported module; multi-valued arguments typed as lists of str so that isinstance(x, str) is decided by the declared type; str.upper, the _looks_like_datetime regex, float formatting .Nf, str.encode and urllib.parse.quote are parameters of the translated functions)',
    'theories/Base/PySemStr.v (str as list of code points: translate(dict), join, f-strings as concatenation, format(*seq) parsed by string.Formatter at translation time, rstrip(chars), truthiness narrowing of a str-or-None via py_ostr_get, AttributeError for attributes str does not have)',
    'gen/translate_route.py (writers.save / QRCodeSequence.save / cli.build_config -> SrcRouteSave.v, SrcRouteSeq.v, SrcRouteCli.v; the serializer call, the gzip wrapper and qrcode.save are parameters recognised by ast equality; the out argument typed as str-or-stream, config values typed by their repr as in Model/Route.v)',
    'theories/Base/PySemRoute.v (str.rfind / lower / slices, str.format with a run-time format string on ints: {{ }} {k} {k:02d}, anything else is the marker pyr_unmodelled; dict with str keys as insertion-ordered association list; f-strings with literal int specs; truthiness / is None / == str-constant of a value given by its repr for None, bool, int, float, str, list, tuple, dict, set, bytes)',
    'gen/translate_colors.py (_alpha_value / _hex_to_rgb_or_rgba / _color_to_rgba / _color_to_rgb_or_rgba / _color_to_rgb / _color_is_black / _color_is_white / _color_to_webcolor / _make_colormap and the @colorful wrapper of write_ppm -> SrcColor.v, SrcColorful.v; numbers that are ints or floats at run time as py_cnum, isinstance narrowing, declared types of locals, except ValueError never catches the marker; repr(float) is a parameter of _color_to_webcolor)',
    'theories/Base/PySemColor.v (str index / slices / substring test for ASCII strs, lower() = Base/PyCase.v py_lower, int(s, 16) = PyLong_FromString base 16, exact int/float equality, \'%.Nf\' % x correctly rounded half-even, float(s) for plain decimals with the marker elsewhere, dict lookups of _NAME2RGB / _ALPHA_COMMONS; PrimFloat = CPython binary64)',
    'gen/translate_png.py (write_png with png_color / chunk / scanline and its @colorful wrapper -> SrcPng.v; zlib.crc32 / zlib.compress, the iteration order of set() and the colour conversion are parameters; nested functions moved behind the last binding of their free variables; flow-sensitive one-shot iterator check; generators as lists, laziness modelled at the start only)',
    'theories/Base/PySemPng.v (struct.pack over > B H I L with struct.error as TypeErr, the distinct items of a set (its iteration order is a parameter of the translated function), stable sorted / list.sort by key, dict update, next with StopIteration as AssertErr, any over items that may raise, int // float = CPython float_floor_div with exact fmod on PrimFloat)',
    'gen/translate_vector.py (write_eps / write_pdf / write_tex -> SrcVecCommon.v, SrcVecEps.v, SrcVecPdf.v, SrcVecTex.v; int-or-float numbers with their exact value (py_vnum), the number kinds of utils.matrix_to_lines by abstract interpretation of its current source, nested tuple targets, next(it), stream procedures for partial(fn, f.write), f.tell(), format specs [+]0<w>d, a sum for unrelated branch types; time.strftime / time.timezone / textwrap.wrap / zlib.compress / repr(float) are parameters)',
    'theories/Base/PySemVec.v (py_vnum arithmetic: exact while the binary64 operation does not round; str(float) through the parameter ext_q_repr applied to the reduced fraction; py_lines_tag; format(n, [+]0<w>d); f.tell() = items written by this call)',
    'gen/translate_seqbody.py (the body of encode_sequence -> SrcSeqBody.v, bytes content; branches decided by the declared types / the narrowing are not translated, closures called with the current value of their free variables, partial(_StructuredAppendInfo, ..) unfolded at its call, an int-or-None argument of a callee translated for ints through py_arg_int)',
    'theories/Base/PySemSeqBody.v (py_z_or, max(seq, key=len) = first longest item, py_arg_int with the marker for None)',    'gen/translate_svg.py (write_svg with svg_color / matrix_to_lines_verbose and its @colorful wrapper -> SrcSvg.v; dicts keyed by colours incl. defaultdict, a nested generator with a declared item type, try: del d[k] / except KeyError, tuple displays as records, late-bound locals as options; re.sub / repr(float) are parameters, xml.sax.saxutils.escape / quoteattr a fixed semantics under a fingerprint of the library source)',
    'theories/Base/PySemSvg.v (colour equality as dict key, insertion-ordered dicts keyed by colours, defaultdict reads that store the default, len(set(..)) as the number of distinct items, str.replace, saxutils.escape / quoteattr as successive replaces, ordering of exact-value numbers, the text stream returned together with its encoding)',
    'gen/translate_api.py (the API layer: keyword entries of the 13 translated serializers generated from their CURRENT signatures and the generated Coq signatures, as_png_data_uri / as_svg_data_uri, writers.save with the serializer call connected, make / make_qr / make_micro / make_sequence, QRCode.__init__ / properties / symbol_size / matrix_iter / save / svg_data_uri / svg_inline / png_data_uri / terminal -> SrcApiUri.v, SrcApiQr.v; values that are only passed on are py_dyn, **kw an association list; tail calls that write to the own out become the returned value; codecs, gzip, urllib quote, the _replace_quotes regex, sys.platform, encode_sequence are parameters)',
    'theories/Base/PySemApi.v (the Python call protocol for keyword arguments: merge / positional-and-keyword clash / unexpected keyword / defaults / **rest; readings of an arbitrary object at the declared types with the marker outside them; binary streams as the bytes written, text through the codec parameter; base64.b64encode defined per RFC 4648 and checked on CPython examples, with its inverse; `out or sys.stdout`; the record of QRCode.__slots__)',
]


class Ctx:
    def __init__(self, pid, tier, seed):
        self.pid, self.tier, self.seed = pid, tier, seed
        self.rng = random.Random(seed * 1000003 + int(pid[1:]))
        self.build = None
        self.obligations = None

    @property
    def thorough(self):
        return self.tier == 'thorough'


def run(cmd, timeout=None, cwd=VERIF, env=None, input=None):
    e = dict(os.environ)
    e.update({'PYTHONPATH': REPO, 'PYTHONHASHSEED': '0', 'PYTHONDONTWRITEBYTECODE': '1'})
    if env:
        e.update(env)
    return subprocess.run(cmd, cwd=cwd, env=e, timeout=timeout, input=input,
                          stdout=subprocess.PIPE, stderr=subprocess.STDOUT, text=True)


def coq_sources():
    files = sorted(glob.glob(os.path.join(VERIF, 'theories', '**', '*.v'), recursive=True))
    files += sorted(glob.glob(os.path.join(BUILD, 'gen', '*.v')))
    rel = [os.path.relpath(f, VERIF) for f in files]
    # work-in-progress files (development only; the list is not committed)
    wip = os.path.join(VERIF, '.wip')
    if os.path.exists(wip):
        skip = set(line.strip() for line in open(wip) if line.strip())
        rel = [f for f in rel if f not in skip]
    return rel


def build_all(clean=False):
    """Translator -> coq_makefile -> make -k -> extraction -> ocamlopt.  Serialised by a file lock."""
    t0 = time.time()
    os.makedirs(os.path.join(BUILD, 'gen'), exist_ok=True)
    os.makedirs(os.path.join(BUILD, 'logs'), exist_ok=True)
    os.makedirs(os.path.join(BUILD, 'ocaml'), exist_ok=True)
    with open(os.path.join(BUILD, '.lock'), 'w') as lock:
        fcntl.flock(lock, fcntl.LOCK_EX)
        r = run(['/venv/bin/python', os.path.join(VERIF, 'gen', 'translate.py'), REPO, os.path.join(BUILD, 'gen')],
                timeout=300)
        try:
            translator = json.loads(r.stdout[r.stdout.index('{'):])
        except Exception:
            translator = {'tables': 'failed: translator crashed', 'functions': {}, 'output': r.stdout[-2000:]}
        r = run(['/venv/bin/python', os.path.join(VERIF, 'gen', 'translate_utils.py'), REPO, os.path.join(BUILD, 'gen')],
                timeout=300)       # segno/utils.py (after translate.py: it refers to SrcFuns.v / SrcFnPat.v)
        try:
            translator['utils'] = json.loads(r.stdout[r.stdout.index('{'):])
        except Exception:
            translator['utils'] = {'functions': {'*': 'failed: translator crashed'}, 'output': r.stdout[-2000:]}
        r = run(['/venv/bin/python', os.path.join(VERIF, 'gen', 'translate_seg.py'), REPO, os.path.join(BUILD, 'gen')],
                timeout=300)       # make_segment / find_mode / is_kanji ... of segno/encoder.py (SrcMode.v, SrcSegMake.v)
        try:
            translator['seg'] = json.loads(r.stdout[r.stdout.index('{'):])
        except Exception:
            translator['seg'] = {'functions': {'*': 'failed: translator crashed'}, 'output': r.stdout[-2000:]}
        r = run(['/venv/bin/python', os.path.join(VERIF, 'gen', 'translate_glue.py'), REPO, os.path.join(BUILD, 'gen')],
                timeout=300)       # Segments.add_segment, prepare_data, normalize_*, encode_sequence helpers, encode() (after
        try:                       # translate.py / translate_seg.py: it refers to SrcVersion / SrcFit / SrcEncode / SrcSegMake)
            translator['glue'] = json.loads(r.stdout[r.stdout.index('{'):])
        except Exception:
            translator['glue'] = {'functions': {'*': 'failed: translator crashed'}, 'output': r.stdout[-2000:]}
        r = run(['/venv/bin/python', os.path.join(VERIF, 'gen', 'translate_writers.py'), REPO, os.path.join(BUILD, 'gen')],
                timeout=300)       # simple serializers of segno/writers.py (after translate_utils.py: it refers to SrcUtils*.v)
        try:
            translator['writers'] = json.loads(r.stdout[r.stdout.index('{'):])
        except Exception:
            translator['writers'] = {'functions': {'*': 'failed: translator crashed'}, 'output': r.stdout[-2000:]}
        r = run(['/venv/bin/python', os.path.join(VERIF, 'gen', 'translate_helpers.py'), REPO, os.path.join(BUILD, 'gen')],
                timeout=300)       # payload builders of segno/helpers.py (SrcHelpers*.v; independent of the other groups)
        try:
            translator['helpers'] = json.loads(r.stdout[r.stdout.index('{'):])
        except Exception:
            translator['helpers'] = {'functions': {'*': 'failed: translator crashed'}, 'output': r.stdout[-2000:]}
        r = run(['/venv/bin/python', os.path.join(VERIF, 'gen', 'translate_route.py'), REPO, os.path.join(BUILD, 'gen')],
                timeout=300)       # output routing: writers.save, QRCodeSequence.save, cli.build_config (SrcRoute*.v; uses SrcTables.v)
        try:
            translator['route'] = json.loads(r.stdout[r.stdout.index('{'):])
        except Exception:
            translator['route'] = {'functions': {'*': 'failed: translator crashed'}, 'output': r.stdout[-2000:]}
        r = run(['/venv/bin/python', os.path.join(VERIF, 'gen', 'translate_colors.py'), REPO, os.path.join(BUILD, 'gen')],
                timeout=300)       # colour helpers of segno/writers.py (SrcColor.v, SrcColorful.v; after translate_writers.py: SrcWrNetpbm.v)
        try:
            translator['colors'] = json.loads(r.stdout[r.stdout.index('{'):])
        except Exception:
            translator['colors'] = {'functions': {'*': 'failed: translator crashed'}, 'output': r.stdout[-2000:]}
        r = run(['/venv/bin/python', os.path.join(VERIF, 'gen', 'translate_png.py'), REPO, os.path.join(BUILD, 'gen')],
                timeout=300)       # write_png and its @colorful wrapper (SrcPng.v; after translate_colors.py: SrcColor.v, SrcWrCommon.v)
        try:
            translator['png'] = json.loads(r.stdout[r.stdout.index('{'):])
        except Exception:
            translator['png'] = {'functions': {'*': 'failed: translator crashed'}, 'output': r.stdout[-2000:]}
        r = run(['/venv/bin/python', os.path.join(VERIF, 'gen', 'translate_vector.py'), REPO, os.path.join(BUILD, 'gen')],
                timeout=300)       # write_eps / write_pdf / write_tex (SrcVec*.v; after translate_utils.py / translate_colors.py: SrcUtilsIter.v, SrcColor.v)
        try:
            translator['vector'] = json.loads(r.stdout[r.stdout.index('{'):])
        except Exception:
            translator['vector'] = {'functions': {'*': 'failed: translator crashed'}, 'output': r.stdout[-2000:]}
        r = run(['/venv/bin/python', os.path.join(VERIF, 'gen', 'translate_seqbody.py'), REPO, os.path.join(BUILD, 'gen')],
                timeout=300)       # the body of encode_sequence (SrcSeqBody.v; after translate_glue.py: it checks SrcSeq.v ... on disk)
        try:
            translator['seqbody'] = json.loads(r.stdout[r.stdout.index('{'):])
        except Exception:
            translator['seqbody'] = {'functions': {'*': 'failed: translator crashed'}, 'output': r.stdout[-2000:]}
        r = run(['/venv/bin/python', os.path.join(VERIF, 'gen', 'translate_svg.py'), REPO, os.path.join(BUILD, 'gen')],
                timeout=300)       # write_svg and its @colorful wrapper (SrcSvg.v; after translate_colors.py / translate_vector.py: SrcColor.v, SrcVecCommon.v)
        try:
            translator['svg'] = json.loads(r.stdout[r.stdout.index('{'):])
        except Exception:
            translator['svg'] = {'functions': {'*': 'failed: translator crashed'}, 'output': r.stdout[-2000:]}
        r = run(['/venv/bin/python', os.path.join(VERIF, 'gen', 'translate_api.py'), REPO, os.path.join(BUILD, 'gen')],
                timeout=300)       # the API layer: keyword entries of the serializers, data URIs, save with the call connected, make*, QRCode methods (SrcApiUri.v, SrcApiQr.v; after ALL other translate_*.py: it reads their Src*.v)
        try:
            translator['api'] = json.loads(r.stdout[r.stdout.index('{'):])
        except Exception:
            translator['api'] = {'functions': {'*': 'failed: translator crashed'}, 'output': r.stdout[-2000:]}
        srcs = coq_sources()
        listfile = os.path.join(BUILD, '.filelist')
        old = open(listfile).read() if os.path.exists(listfile) else ''
        if old != '\n'.join(srcs) or not os.path.exists(os.path.join(VERIF, 'Makefile.coq')):
            run(['coq_makefile', '-f', '_CoqProject', '-o', 'Makefile.coq'] + srcs, timeout=120)
            with open(listfile, 'w') as f:
                f.write('\n'.join(srcs))
        if clean:
            run(['make', '-f', 'Makefile.coq', 'clean'], timeout=300)
        r = run(['timeout', '5400', 'make', '-f', 'Makefile.coq', '-k', '-j%d' % NPROC], timeout=5500)
        log = r.stdout
        with open(os.path.join(BUILD, 'logs', 'make.log'), 'w') as f:
            f.write(log)
        failed = sorted(set(re.findall(r'\*\*\* \[Makefile\.coq:\d+: (\S+?)\.vo\] Error', log)))
        failed = [f + '.v' for f in failed]
        errors = {}
        for f in failed:
            m = list(re.finditer(r'File "\./%s", line[^\n]*\n(?:(?!make|COQC|File ").*\n){0,12}' % re.escape(f), log))
            errors[f] = m[-1].group(0).strip()[:1500] if m else ''
        oracle_ok = build_oracle()
    return {'translator': translator, 'failed': failed, 'errors': errors, 'oracle_ok': oracle_ok,
            'wall_s': round(time.time() - t0, 1), 'make_rc': r.returncode}


def build_oracle():
    """Compile the extracted model + driver into build/oracle (rebuilt when the extraction changed)."""
    ocdir = os.path.join(BUILD, 'ocaml')
    mls = [f for f in glob.glob(os.path.join(ocdir, '*.ml')) if os.path.basename(f) != 'driver.ml']
    exe = os.path.join(BUILD, 'oracle')
    drv = os.path.join(VERIF, 'ocaml', 'driver.ml')
    if not mls:
        return False
    newest = max([os.path.getmtime(f) for f in mls] + [os.path.getmtime(drv)])
    if os.path.exists(exe) and os.path.getmtime(exe) >= newest:
        return True
    # link under a temporary name and rename: a check of another property that is running the old binary keeps its
    # open file, and nobody ever executes a half-written one
    r = run(['sh', '-c', 'cp %s driver.ml && ocamlfind ocamlopt -w -a -unsafe -inline 200 $(ocamlfind ocamldep -sort *.mli *.ml) -o %s.new && mv -f %s.new %s'
             % (drv, exe, exe, exe)], cwd=ocdir, timeout=900)
    with open(os.path.join(BUILD, 'logs', 'ocaml.log'), 'w') as f:
        f.write(r.stdout)
    return r.returncode == 0 and os.path.exists(exe)


def dep_graph():
    deps = {}
    p = os.path.join(VERIF, '.Makefile.coq.d')
    if not os.path.exists(p):
        return deps
    text = open(p).read().replace('\\\n', ' ')
    for line in text.splitlines():
        if ':' not in line:
            continue
        lhs, rhs = line.split(':', 1)
        targets = [t for t in lhs.split() if t.endswith('.vo')]
        if not targets:
            continue
        src = targets[0][:-1]
        deps[src] = [d[:-1] for d in rhs.split() if d.endswith('.vo')]
    return deps


def closure(tops):
    g = dep_graph()
    seen, todo = set(), list(tops)
    while todo:
        f = todo.pop()
        if f in seen:
            continue
        seen.add(f)
        todo.extend(g.get(f, []))
    return sorted(f for f in seen if f.startswith('theories') or f.startswith('build/gen'))


STMT = re.compile(r'^\s*(?:Local\s+|Global\s+)?(Theorem|Lemma|Corollary|Example|Proposition|Fact)\s+(\w+)', re.M)


def obligations_for(tops, b):
    files = closure(tops)
    missing = [t for t in tops if not os.path.exists(os.path.join(VERIF, t))]
    total = discharged = 0
    broken, names = [], []
    failed = set(b.get('failed', []))
    g = dep_graph()

    def blocked(f, memo={}):
        if f in memo:
            return memo[f]
        memo[f] = False
        res = f in failed or any(blocked(d) for d in g.get(f, []))
        memo[f] = res
        return res
    for f in files:
        try:
            stmts = STMT.findall(open(os.path.join(VERIF, f)).read())
        except FileNotFoundError:
            stmts = []
        total += len(stmts)
        vo = os.path.join(VERIF, f + 'o')
        ok = (not blocked(f)) and os.path.exists(vo) and (b.get('skipped') or os.path.getmtime(vo) >= os.path.getmtime(os.path.join(VERIF, f)))
        if ok:
            discharged += len(stmts)
        elif f in failed:
            broken.append('theorem file %s no longer compiles' % f)
        elif not blocked(f):
            broken.append('theorem file %s was not built' % f)
        if f.startswith('theories/Props/'):
            names += [n for _, n in stmts]
    for t in missing:
        broken.append('missing ' + t)
    tr = b.get('translator') or {}
    if tr.get('tables') not in (None, 'ok') and not b.get('skipped'):
        broken.append('table dump: %s' % tr.get('tables'))
    assumptions = print_assumptions(tops) if not broken and not b.get('skipped') else {}
    for thm, txt in assumptions.items():
        if 'Closed under the global context' not in txt and not only_primitives(txt):
            broken.append('theorem %s depends on axioms: %s' % (thm, txt[:300]))
    return {'files': files, 'total': total, 'discharged': discharged, 'broken': broken,
            'errors': {f: b.get('errors', {}).get(f, '') for f in failed if f in files},
            'property_theorems': names, 'assumptions': assumptions}


def only_primitives(txt):
    # Print Assumptions lists primitive ints/floats under "Axioms:" -- they are kernel primitives, not axioms of ours
    body = txt.split('Axioms:', 1)[-1]
    names = re.findall(r'^(\S+)\s*:', body, re.M)
    return bool(names) and all(n.startswith(('PrimFloat.', 'Uint63.', 'PrimInt63.', 'FloatOps.', 'Sint63.', 'PrimArray.')) for n in names)


def print_assumptions(tops):
    """Re-run coqc on the (tiny) Props files to capture their Print Assumptions output."""
    out = {}
    for t in tops:
        if not t.startswith('theories/Props/'):
            continue
        r = run(['timeout', '300', 'coqc', '-Q', 'theories', 'Segno', '-Q', 'build/gen', 'SegnoSrc',
                 '-w', '-notation-overridden', '-o', os.path.join(BUILD, 'logs', os.path.basename(t) + 'o'), t], timeout=320)
        text = r.stdout
        if r.returncode == 124:
            # the re-run was cut off by the time limit on a loaded machine: a harness problem, not an unproved theorem
            raise RuntimeError('coqc %s (Print Assumptions re-run) exceeded its time limit' % t)
        src = open(os.path.join(VERIF, t), encoding='utf-8').read()
        thms = re.findall(r'Print Assumptions (\w+)\.', src)
        chunks = re.split(r'(?=Closed under the global context|Axioms:)', text)
        chunks = [c for c in chunks if c.startswith(('Closed', 'Axioms:'))]
        for i, n in enumerate(thms):
            out[n] = chunks[i].strip() if i < len(chunks) else 'NO OUTPUT (rc=%d) %s' % (r.returncode, text[-300:])
    return out


def run_coqchk(tops, budget_s=None):
    """Thorough tier: re-check the compiled property files (and everything they depend on) with the independent checker.
    A timeout is recorded as 'timeout' (the kernel already accepted the proofs; coqchk re-evaluates vm_compute sweeps slowly)."""
    budget_s = budget_s or int(os.environ.get('VERIF_COQCHK_BUDGET', '2400'))
    out = {}
    for t in tops:
        if not t.startswith('theories/Props/'):
            continue
        mod = 'Segno.Props.' + os.path.basename(t)[:-2]
        t0 = time.time()
        try:
            r = run(['coqchk', '-silent', '-o', '-Q', 'theories', 'Segno', '-Q', 'build/gen', 'SegnoSrc', mod], timeout=budget_s)
            txt = r.stdout
            axioms = ''
            if '* Axioms:' in txt:
                axioms = txt.split('* Axioms:', 1)[1].split('* Constants', 1)[0].strip()
            out[mod] = {'status': 'ok' if r.returncode == 0 else 'failed', 'axioms': axioms, 'wall_s': round(time.time() - t0, 1), 'tail': txt[-400:]}
        except subprocess.TimeoutExpired:
            out[mod] = {'status': 'timeout', 'wall_s': budget_s}
    return out


def forbidden_scan():
    """No Admitted/admit/Axiom/... anywhere in the development (run in every check)."""
    pat = re.compile(r'\b(Admitted|admit|Axiom|Axioms|Parameter|Parameters|Conjecture|Admit Obligations|bypass_check|Unset Guard Checking|'
                     r'Unset Positivity Checking|Unset Universe Checking|type-in-type|impredicative-set)\b')
    hits = []
    for f in coq_sources():
        txt = open(os.path.join(VERIF, f), encoding='utf-8').read()
        txt = re.sub(r'\(\*.*?\*\)', '', txt, flags=re.S)
        for m in pat.finditer(txt):
            hits.append('%s: %s' % (f, m.group(0)))
    for line in open(os.path.join(VERIF, '_CoqProject')):
        if 'type-in-type' in line or 'impredicative' in line:
            hits.append('_CoqProject: ' + line.strip())
    return hits


# ---------------------------------------------------------------- oracle binary (extracted Gallina)
def oracle(lines, timeout=3600):
    """Feed request lines to the extracted model/spec binary; returns the list of answer lines."""
    exe = os.path.join(BUILD, 'oracle')
    data = '\n'.join(lines) + '\n'
    # resource limits through the shell (no preexec_fn: forking with a Python callback from a thread pool can deadlock):
    # an answer never needs more than a few GB, and a runaway evaluation must not take the machine down; the extracted
    # list functions are not tail recursive, so long documents need a deep stack
    gb = int(os.environ.get('VERIF_ORACLE_GB', '6'))
    cmd = ['sh', '-c', 'ulimit -v %d; ulimit -s unlimited 2>/dev/null || ulimit -s $(ulimit -Hs) 2>/dev/null; exec "$0"' % (gb << 20), exe]
    for attempt in range(3):
        try:
            r = subprocess.run(cmd, input=data, stdout=subprocess.PIPE, stderr=subprocess.PIPE, text=True, timeout=timeout)
        except OSError as ex:      # e.g. ETXTBSY while a concurrent check re-links the binary
            r = subprocess.CompletedProcess([exe], 126, '', str(ex))
        if r.returncode == 0:
            break
        time.sleep(5)
    if r.returncode != 0:
        if len(lines) > 1:      # name the request that cannot be evaluated
            half = len(lines) // 2
            return oracle(lines[:half], timeout) + oracle(lines[half:], timeout)
        try:
            with open(os.path.join(BUILD, 'logs', 'oracle_fail.txt'), 'w') as f:
                f.write(lines[0] + '\n')
        except OSError:
            pass
        raise RuntimeError('oracle binary failed (exit %s) on request %s ... %s (full request in build/logs/oracle_fail.txt): %s'
                           % (r.returncode, lines[0][:120], lines[0][-80:], r.stderr[-300:]))
    out = r.stdout.splitlines()
    for q, a in zip(lines, out):
        if a.startswith('XERR'):
            # an exception of the evaluator itself (resource limit, malformed request, request outside what the driver
            # models): a defect of the harness, never a verdict about the implementation ("ERR <class>" is a model refusal)
            raise RuntimeError('oracle could not evaluate a request (%s): %s ...' % (a[:120], q[:200]))
    if len(out) != len(lines):
        raise RuntimeError('oracle answered %d lines for %d requests' % (len(out), len(lines)))
    return out


def oracle_parallel(lines, chunk=2000):
    if len(lines) <= chunk:
        return oracle(lines)
    from concurrent.futures import ThreadPoolExecutor
    parts = [lines[i:i + chunk] for i in range(0, len(lines), chunk)]
    with ThreadPoolExecutor(max_workers=NPROC) as ex:
        res = list(ex.map(oracle, parts))
    return [x for p in res for x in p]


def match_known(kf, pid, fail):
    for e in kf.get('findings', []):
        if e['property'] == pid and e['status'] == 'known' and fail.get('kf') == e['id']:
            return e
    return None


def write_evidence(ctx, mod, result, obl, known_lines, nviol, wall):
    scan = forbidden_scan()
    cov = {
        'obligations': max(obl['total'], 1),
        'discharged': obl['discharged'],
        'checker_cmd': 'cd /verif && make -f Makefile.coq -k (coqc 8.16.1, full .vo) on theories/ + build/gen regenerated from /repo; closure of %s' % ', '.join(mod.TOP),
        'trusted_base': TRUSTED_BASE + result.get('trusted_extra', []),
        'theorem_files': obl['files'],
        'property_theorems': obl['property_theorems'],
        'print_assumptions': obl['assumptions'],
        'broken_obligations': obl['broken'],
        'forbidden_construct_scan': scan or 'clean',
        'coqchk': obl.get('coqchk', 'not run (thorough tier only)'),
        'translator': (ctx.build or {}).get('translator'),
        'evaluations': int(result.get('evaluations', 0)),
        'distinct_nontrivial': int(result.get('distinct_nontrivial', 0)),
        'rule': result.get('rule', ''),
        'samples': result.get('samples', [])[:8] or ['(no correspondence cases in this run)'],
        'traces_validated_against_impl': int(result.get('evaluations', 0)),
        'distribution': result.get('distribution', {}),
        'exhaustive': bool(result.get('exhaustive', False)),
        'known_findings_reported': known_lines,
        'explanation': result.get('explanation', ''),
    }
    ev = {'property_id': ctx.pid, 'tier': ctx.tier, 'seed': ctx.seed, 'level': 'proof', 'coverage': cov,
          'assumptions': result.get('assumptions', []) + ['see coverage.trusted_base'],
          'wall_s': round(wall, 2), 'violations': nviol}
    os.makedirs(os.path.join(VERIF, 'evidence'), exist_ok=True)
    with open(os.path.join(VERIF, 'evidence', ctx.pid + '.json'), 'w') as f:
        json.dump(ev, f, indent=1, default=str)


def replay_by_rerun(mod, rec):
    """Replay for properties whose cases are whole scenarios (routes, argument products, histories): the recorded
    seed and tier regenerate the same deterministic case list; the recorded case is looked up among the failures of
    the re-run.  Exit status 1 = the recorded input still fails on the current implementation, 0 = it no longer does."""
    import json as _json
    ctx = Ctx(rec.get('property', 'C00'), rec.get('tier', 'quick'), int(rec.get('seed', 0) or 0))
    res = mod.run(ctx)
    key = _json.dumps(rec.get('input'), sort_keys=True, default=str)
    for f in res.get('failures', []):
        if _json.dumps(f.get('input'), sort_keys=True, default=str) == key:
            print('input:    %s' % key[:400])
            print('observed: %s' % str(f.get('observed'))[:400])
            print('expected: %s' % str(f.get('expected'))[:400])
            return 1
    print('input:    %s' % key[:400])
    print('the recorded input no longer fails (%d cases re-run, %d other failures)' % (res.get('evaluations', 0), len(res.get('failures', []))))
    return 0
