"""Encode cases: generation, serialisation for the extracted model, execution on the implementation."""
import codecs

import impl
from impl import consts, encoder

MODES = {'numeric': 1, 'alphanumeric': 2, 'byte': 4, 'kanji': 8, 'hanzi': 13}
ERRORS = {'L': 1, 'M': 0, 'Q': 3, 'H': 2}
MICRO = {'M1': -3, 'M2': -2, 'M3': -1, 'M4': 0}
VNAME = {v: k for k, v in MICRO.items()}


def vname(v):
    return VNAME.get(v, v)


def hexs(b):
    return bytes(b).hex()


def codec_result(text, encoding):
    try:
        return '=' + text.encode(encoding).hex()
    except LookupError:
        return 'L'
    except UnicodeError:
        return 'U'


def canon(name):
    try:
        return codecs.lookup(name).name
    except LookupError:
        return '-'


def safe_name(name):
    return name is None or (all(33 <= ord(c) < 127 and c != ';' for c in name) and name != '-')


def part_token(data, mode, encoding):
    """data: bytes | str | int; mode: canonical name or None; encoding: str or None (effective values)."""
    mode = MODES.get(mode, mode)      # canonical name or integer constant
    m = '-' if mode is None else str(mode)
    eff_enc = 'gb2312' if mode == 13 else encoding
    en = '-' if eff_enc is None else eff_enc
    ec = '-' if eff_enc is None else canon(eff_enc)
    # the encoding the *segment* is tagged with is the parameter passed to make_segment, i.e. before the hanzi override?
    # make_segment overrides `encoding` itself, so the tag is the effective one.
    if isinstance(data, bytes):
        return 'B;%s;%s;%s;%s' % (hexs(data), m, en, ec)
    text = str(data)
    given = codec_result(text, eff_enc) if eff_enc is not None else 'U'
    return 'T;%s;%s;%s;%s;%s;%s;%s' % (given, codec_result(text, 'iso-8859-1'), codec_result(text, 'shift_jis'),
                                       codec_result(text, 'utf-8'), m, en, ec)


def parts_of(content, mode, encoding):
    """Mirror of prepare_data's *argument plumbing* (which item gets which mode/encoding)."""
    if isinstance(content, (str, bytes, int)):
        return [(content, mode, encoding)]
    out = []
    for item in content:
        c, m, e = item, mode, encoding
        if isinstance(item, tuple):
            c = item[0]
            if len(item) > 1:
                m = item[1] or mode
            if len(item) > 2:
                e = item[2] or encoding
        out.append((c, m, e))
    return out


def request(case):
    """Request line for the extracted model. `case` uses canonical option spellings."""
    o = {k: v for k, v in case.items() if not k.startswith('_')}
    parts = parts_of(o['content'], o.get('mode'), o.get('encoding'))
    toks = ['encode',
            '-' if o.get('error') is None else str(ERRORS[o['error']]),
            '-' if o.get('version') is None else str(MICRO.get(o['version'], o['version'])),
            '-' if o.get('mode') is None else str(MODES[o['mode']]),
            '-' if o.get('mask') is None else str(o['mask']),
            '1' if o.get('eci') else '0',
            '-' if o.get('micro') is None else ('1' if o['micro'] else '0'),
            '1' if o.get('boost_error', True) else '0']
    toks += [part_token(c, m, e) for c, m, e in parts]
    return ' '.join(toks)


def representable(case):
    for c, m, e in parts_of(case['content'], case.get('mode'), case.get('encoding')):
        if not safe_name(e):
            return False
    return True


def rows_str(matrix):
    return '/'.join(''.join('1' if b else '0' for b in r) for r in matrix)


def run_impl(case):
    o = case
    kw = dict(error=o.get('error'), version=o.get('version'), mode=o.get('mode'), mask=o.get('mask'),
              encoding=o.get('encoding'), eci=o.get('eci', False), micro=o.get('micro'),
              boost_error=o.get('boost_error', True))
    r = impl.call(lambda: encoder.encode(o['content'], **kw))
    if r[0] == 'ok':
        c = r[1]
        segs = ';'.join('%d,%d,%s' % (s.mode, s.char_count, ''.join('1' if b else '0' for b in s.bits) or '-') for s in c.segments)
        return 'OK %d %s %d %s %s' % (c.version, '-' if c.error is None else c.error, c.mask, rows_str(c.matrix), segs), c
    return 'ERR ' + r[1], None


def describe(case):
    d = {k: v for k, v in case.items() if not k.startswith('_')}
    c = d['content']

    def one(x):
        if isinstance(x, bytes):
            return {'bytes': x.hex()}
        if isinstance(x, tuple):
            return {'tuple': [one(x[0])] + list(x[1:])}
        return {'text': x} if isinstance(x, str) else {'int': x}
    d['content'] = [one(x) for x in c] if isinstance(c, (list, tuple)) else one(c)
    return d


def undescribe(d):
    d = dict(d)

    def one(x):
        if 'bytes' in x:
            return bytes.fromhex(x['bytes'])
        if 'tuple' in x:
            return tuple([one(x['tuple'][0])] + x['tuple'][1:])
        return x.get('text', x.get('int'))
    c = d['content']
    d['content'] = [one(x) for x in c] if isinstance(c, list) else one(c)
    return d


# ---------------------------------------------------------------- generators
KANJI_TEXT = '点漢字外来語ひらがな茗荷'
HANZI_TEXT = '汉字条码中文'


def gen_content(rng, kind, n):
    if kind == 'numeric':
        return bytes(rng.choice(b'0123456789') for _ in range(n))
    if kind == 'alnum':
        return bytes(rng.choice(bytes(consts.ALPHANUMERIC_CHARS)) for _ in range(n))
    if kind == 'bytes':
        return bytes(rng.randrange(256) for _ in range(n))
    if kind == 'ascii':
        return ''.join(chr(rng.randrange(32, 127)) for _ in range(n))
    if kind == 'latin1':
        return ''.join(chr(rng.choice([rng.randrange(32, 127), rng.randrange(160, 256)])) for _ in range(n))
    if kind == 'kanji':
        return ''.join(rng.choice(KANJI_TEXT) for _ in range(max(1, n // 2)))
    if kind == 'hanzi':
        return ''.join(rng.choice(HANZI_TEXT) for _ in range(max(1, n // 2)))
    if kind == 'bmp':
        return ''.join(chr(rng.choice([rng.randrange(0x100, 0x3000), rng.randrange(0x4e00, 0x9fff)])) for _ in range(max(1, n // 3)))
    if kind == 'sjis_bytes':   # lead x trail classes incl. invalid trail bytes
        out = bytearray()
        for _ in range(max(1, n // 2)):
            out.append(rng.choice([0x81, 0x82, 0x9f, 0xe0, 0xeb, 0x88]))
            out.append(rng.choice([0x40, 0x7e, 0x80, 0xfc, 0x9f, 0xbf, 0x41] * 3 + [0x00, 0x3f, 0x7f, 0xfd, 0xff]))
        return bytes(out)
    if kind == 'int':
        return rng.randrange(10 ** max(1, n))
    raise ValueError(kind)


KINDS = ['numeric', 'alnum', 'bytes', 'ascii', 'latin1', 'kanji', 'hanzi', 'bmp', 'sjis_bytes', 'int']


def random_case(rng, max_len=60):
    kind = rng.choice(KINDS)
    n = rng.choice([0, 1, 2, 3, 4, 5, 7, 8, 11, 17, 25, 40, max_len])
    case = {'content': gen_content(rng, kind, n)}
    if rng.random() < 0.25:
        k = rng.randrange(2, 5)
        parts = []
        for _ in range(k):
            c = gen_content(rng, rng.choice(KINDS), rng.choice([1, 2, 3, 4, 6, 9]))
            r = rng.random()
            if r < 0.3:
                parts.append((c, rng.choice([None, 1, 2, 4, 8, 13])))
            elif r < 0.4:
                parts.append((c, None, rng.choice([None, 'utf-8', 'latin1', 'shift_jis'])))
            else:
                parts.append(c)
        case['content'] = parts
    if rng.random() < 0.5:
        case['error'] = rng.choice(['L', 'M', 'Q', 'H'])
    r = rng.random()
    if r < 0.25:
        case['version'] = rng.choice(['M1', 'M2', 'M3', 'M4'] + list(range(1, 41)))
    elif r < 0.4:
        case['version'] = rng.choice(['M3', 'M4', 1, 2, 3, 5, 9, 10, 26, 27])
    if rng.random() < 0.2:
        case['mode'] = rng.choice(['numeric', 'alphanumeric', 'byte', 'kanji', 'hanzi'])
    if rng.random() < 0.6:
        case['mask'] = rng.randrange(8 if rng.random() < 0.8 else 4)
    if rng.random() < 0.2:
        case['encoding'] = rng.choice(['utf-8', 'iso-8859-1', 'latin1', 'shift_jis', 'cp1252', 'utf-16-be', 'ascii', 'iso-8859-15'])
    if rng.random() < 0.2:
        case['eci'] = True
    if rng.random() < 0.4:
        case['micro'] = rng.choice([True, False])
    if rng.random() < 0.4:
        case['boost_error'] = False
    return case
