(* An interpreter for the subset of SVG that a QR-code serializer needs, written from the XML 1.0 / SVG 1.1
   specifications (not from segno's code).  Definitions only.

   Layer 1 (XML): a one-pass lexer (a state machine folded over the characters) producing start tags, empty-element
   tags, end tags and character data.  Supported: an optional processing instruction / XML declaration <?...?>,
   elements with attributes quoted by either quote character, character data.  Not supported (=> None): comments,
   DOCTYPE, CDATA sections.  Well-formedness checks: tags balance, a single root element, attribute names of a tag are
   pairwise distinct, no raw "<" inside attribute values, every "&" in character data or attribute values starts one
   of the references &amp; &lt; &gt; &quot; &apos; &#<decimal>; .

   Layer 2 (SVG): root element `svg` with width / height / viewBox; children `title`, `desc`, `g` (optionally with
   transform="scale(s)"), `path` (attributes stroke, stroke-opacity, fill, class, transform="scale(s)", d).
   Path data: commands M m L l H h V v Z z.  Numbers are kept in HALF units (value * 2), so only integers and
   decimals whose fraction is .5 (or .0) are accepted; anything else => None.

   Layer 3 (geometry): the unit cells covered by a horizontal stroke of width 1: a segment from (x1, y) to (x2, y)
   covers the cells (c, y - 1/2) for min x1 x2 <= c < max x1 x2. *)
From Coq Require Import String Ascii.
From Coq Require Import ZArith List Bool Lia.
Import ListNotations.
Open Scope Z_scope.

Definition text := list Z.
Definition txt (s : String.string) : text :=
  map (fun a => Z.of_nat (Ascii.nat_of_ascii a)) (String.list_ascii_of_string s).
Arguments txt s%string.

Fixpoint text_eqb (a b : text) : bool :=
  match a, b with [], [] => true | x :: a', y :: b' => (x =? y) && text_eqb a' b' | _, _ => false end.
Fixpoint lookup (k : text) (l : list (text * text)) : option text :=
  match l with [] => None | (k', v) :: r => if text_eqb k k' then Some v else lookup k r end.

(* ------------------------------------------------------------------ XML lexer *)
Definition is_ws (c : Z) : bool := (c =? 32) || (c =? 9) || (c =? 10) || (c =? 13).
Definition is_digit (c : Z) : bool := (48 <=? c) && (c <=? 57).
Definition is_letter (c : Z) : bool := ((65 <=? c) && (c <=? 90)) || ((97 <=? c) && (c <=? 122)).
Definition is_name_start (c : Z) : bool := is_letter c || (c =? 95) || (c =? 58).
Definition is_name_char (c : Z) : bool := is_name_start c || is_digit c || (c =? 45) || (c =? 46).

Inductive xev :=
| EOpen (name : text) (attrs : list (text * text))
| EEmpty (name : text) (attrs : list (text * text))
| EClose (name : text)
| EText (s : text).

Inductive lmode :=
| LText (acc : text)                                            (* character data, reversed *)
| LLt                                                           (* after "<" *)
| LPI (q : bool)                                                (* inside <? ... ?>; q: previous char was "?" *)
| LClose (acc : text)                                           (* after "</": name, reversed *)
| LCloseWs (name : text)
| LName (acc : text)                                            (* after "<": element name, reversed *)
| LAttrs (name : text) (attrs : list (text * text))             (* inside a tag after white space; attrs reversed *)
| LAttrName (name : text) (attrs : list (text * text)) (acc : text)
| LAttrQ (name : text) (attrs : list (text * text)) (aname : text)
| LAttrVal (name : text) (attrs : list (text * text)) (aname : text) (q : Z) (acc : text)
| LAfterVal (name : text) (attrs : list (text * text))
| LSlash (name : text) (attrs : list (text * text))
| LFail.

Definition flush_text (acc : text) (evs : list xev) : list xev :=
  match acc with [] => evs | _ => EText (rev acc) :: evs end.

(* the events are accumulated in reverse order *)
Definition lstep (st : lmode * list xev) (c : Z) : lmode * list xev :=
  let '(m, evs) := st in
  match m with
  | LText acc => if c =? 60 then (LLt, flush_text acc evs) else (LText (c :: acc), evs)
  | LLt => if c =? 63 then (LPI false, evs)
           else if c =? 47 then (LClose [], evs)
           else if is_name_start c then (LName [c], evs) else (LFail, evs)
  | LPI q => if c =? 63 then (LPI true, evs)
             else if (c =? 62) && q then (LText [], evs) else (LPI false, evs)
  | LClose acc => if is_name_char c then (LClose (c :: acc), evs)
                  else if c =? 62 then (LText [], EClose (rev acc) :: evs)
                  else if is_ws c then (LCloseWs (rev acc), evs) else (LFail, evs)
  | LCloseWs n => if is_ws c then (LCloseWs n, evs)
                  else if c =? 62 then (LText [], EClose n :: evs) else (LFail, evs)
  | LName acc => if is_name_char c then (LName (c :: acc), evs)
                 else if is_ws c then (LAttrs (rev acc) [], evs)
                 else if c =? 47 then (LSlash (rev acc) [], evs)
                 else if c =? 62 then (LText [], EOpen (rev acc) [] :: evs) else (LFail, evs)
  | LAttrs n a => if is_ws c then (LAttrs n a, evs)
                  else if c =? 47 then (LSlash n a, evs)
                  else if c =? 62 then (LText [], EOpen n (rev a) :: evs)
                  else if is_name_start c then (LAttrName n a [c], evs) else (LFail, evs)
  | LAttrName n a acc => if is_name_char c then (LAttrName n a (c :: acc), evs)
                         else if c =? 61 then (LAttrQ n a (rev acc), evs) else (LFail, evs)
  | LAttrQ n a an => if (c =? 34) || (c =? 39) then (LAttrVal n a an c [], evs) else (LFail, evs)
  | LAttrVal n a an q acc => if c =? q then (LAfterVal n ((an, rev acc) :: a), evs)
                             else if c =? 60 then (LFail, evs) else (LAttrVal n a an q (c :: acc), evs)
  | LAfterVal n a => if is_ws c then (LAttrs n a, evs)
                     else if c =? 47 then (LSlash n a, evs)
                     else if c =? 62 then (LText [], EOpen n (rev a) :: evs) else (LFail, evs)
  | LSlash n a => if c =? 62 then (LText [], EEmpty n (rev a) :: evs) else (LFail, evs)
  | LFail => (LFail, evs)
  end.

Definition lex (doc : text) : option (list xev) :=
  match fold_left lstep doc (LText [], []) with
  | (LText acc, evs) => Some (rev (flush_text acc evs))
  | _ => None
  end.

(* ------------------------------------------------------------------ references *)
Fixpoint dec_value (ds : text) (acc : Z) : option Z :=
  match ds with
  | [] => Some acc
  | d :: r => if is_digit d then dec_value r (10 * acc + (d - 48)) else None
  end.
Definition entity_value (name : text) : option Z :=
  if text_eqb name (txt "amp") then Some 38
  else if text_eqb name (txt "lt") then Some 60
  else if text_eqb name (txt "gt") then Some 62
  else if text_eqb name (txt "quot") then Some 34
  else if text_eqb name (txt "apos") then Some 39
  else match name with
       | 35 :: ((_ :: _) as ds) => dec_value ds 0
       | _ => None
       end.
(* decode character data / an attribute value; None if it contains "<" or a malformed reference *)
Fixpoint unescape_aux (s : text) (pending : option text) : option text :=
  match s with
  | [] => match pending with None => Some [] | Some _ => None end
  | c :: r =>
      match pending with
      | None => if c =? 38 then unescape_aux r (Some [])
                else if c =? 60 then None
                else option_map (cons c) (unescape_aux r None)
      | Some acc => if c =? 59
                    then match entity_value (rev acc) with
                         | Some v => option_map (cons v) (unescape_aux r None)
                         | None => None
                         end
                    else unescape_aux r (Some (c :: acc))
      end
  end.
Definition unescape (s : text) : option text := unescape_aux s None.

Fixpoint map_opt {A B} (f : A -> option B) (l : list A) : option (list B) :=
  match l with
  | [] => Some []
  | a :: r => match f a, map_opt f r with Some b, Some t => Some (b :: t) | _, _ => None end
  end.
Fixpoint distinct_names (l : list (text * text)) : bool :=
  match l with [] => true | (k, _) :: r => negb (existsb (fun kv => text_eqb k (fst kv)) r) && distinct_names r end.
(* attribute list with decoded values; None if not well-formed *)
Definition decode_attrs (attrs : list (text * text)) : option (list (text * text)) :=
  if distinct_names attrs
  then map_opt (fun kv => match unescape (snd kv) with Some v => Some (fst kv, v) | None => None end) attrs
  else None.

(* ------------------------------------------------------------------ numbers (half units) *)
Inductive numst :=
| NNone
| NSign
| NInt (neg : bool) (v : Z)
| NDot (neg : bool) (v : Z)
| NFrac (neg : bool) (v : Z) (half : bool)
| NBad.
Definition num_digit (n : numst) (d : Z) : numst :=
  match n with
  | NNone => NInt false d
  | NSign => NInt true d
  | NInt neg v => NInt neg (10 * v + d)
  | NDot neg v => if d =? 5 then NFrac neg v true else if d =? 0 then NFrac neg v false else NBad
  | NFrac neg v h => if d =? 0 then NFrac neg v h else NBad
  | NBad => NBad
  end.
Definition num_dot (n : numst) : numst := match n with NInt neg v => NDot neg v | _ => NBad end.
(* the finished number: None = malformed, Some None = no number pending, Some (Some h) = the value h/2 *)
Definition num_value (n : numst) : option (option Z) :=
  match n with
  | NNone => Some None
  | NInt neg v => Some (Some (if neg then - (2 * v) else 2 * v))
  | NFrac neg v h => let a := 2 * v + (if h then 1 else 0) in Some (Some (if neg then - a else a))
  | NSign | NDot _ _ | NBad => None
  end.

(* a white space / comma separated list of numbers *)
Definition nl_step (st : option (numst * list Z)) (c : Z) : option (numst * list Z) :=
  match st with
  | None => None
  | Some (n, acc) =>
      if is_digit c then Some (num_digit n (c - 48), acc)
      else if c =? 46 then Some (num_dot n, acc)
      else if (c =? 45) || is_ws c || (c =? 44) then
        match num_value n with
        | None => None
        | Some None => Some (if c =? 45 then NSign else NNone, acc)
        | Some (Some h) => Some (if c =? 45 then NSign else NNone, h :: acc)
        end
      else None
  end.
Definition parse_numbers (s : text) : option (list Z) :=
  match fold_left nl_step s (Some (NNone, [])) with
  | Some (n, acc) => match num_value n with
                     | None => None
                     | Some None => Some (rev acc)
                     | Some (Some h) => Some (rev (h :: acc))
                     end
  | None => None
  end.

Fixpoint span_num (s : text) : text * text :=
  match s with
  | [] => ([], [])
  | c :: r => if is_digit c || (c =? 46) || (c =? 45) then let '(a, b) := span_num r in (c :: a, b) else ([], s)
  end.
(* a length: number followed by an optional unit identifier (letters or "%") *)
Definition parse_length (s : text) : option (Z * text) :=
  let '(num, unit) := span_num s in
  match parse_numbers num with
  | Some [h] => if forallb (fun c => is_letter c || (c =? 37)) unit then Some (h, unit) else None
  | _ => None
  end.

Fixpoint strip_prefix (p s : text) : option text :=
  match p, s with
  | [], _ => Some s
  | a :: p', b :: s' => if a =? b then strip_prefix p' s' else None
  | _ :: _, [] => None
  end.
(* transform="scale(s)" or "scale(s s)" *)
Definition parse_scale (s : text) : option Z :=
  match strip_prefix (txt "scale(") s with
  | Some r =>
      match rev r with
      | 41 :: body => match parse_numbers (rev body) with
                      | Some [h] => Some h
                      | Some [h1; h2] => if h1 =? h2 then Some h1 else None
                      | _ => None
                      end
      | _ => None
      end
  | None => None
  end.

(* ------------------------------------------------------------------ path data *)
Definition lseg := (Z * Z * Z * Z)%type.          (* x1, y1, x2, y2 in half units *)
Record dstate := { ds_cmd : Z; ds_args : list Z; ds_num : numst; ds_pos : Z * Z; ds_start : Z * Z;
                   ds_segs : list lseg }.          (* args and segs reversed; cmd 0 = none yet *)
Definition ds_init : dstate :=
  {| ds_cmd := 0; ds_args := []; ds_num := NNone; ds_pos := (0, 0); ds_start := (0, 0); ds_segs := [] |}.

Definition cmd_arity (c : Z) : option nat :=
  if (c =? 77) || (c =? 109) || (c =? 76) || (c =? 108) then Some 2%nat
  else if (c =? 72) || (c =? 104) || (c =? 86) || (c =? 118) then Some 1%nat
  else if (c =? 90) || (c =? 122) then Some 0%nat else None.

(* run the current command on its complete argument list (in order) *)
Definition ds_exec (s : dstate) (args : list Z) : option dstate :=
  let '(px, py) := ds_pos s in
  let c := ds_cmd s in
  let line (x y : Z) (next : Z) :=
    Some {| ds_cmd := next; ds_args := []; ds_num := NNone; ds_pos := (x, y); ds_start := ds_start s;
            ds_segs := (px, py, x, y) :: ds_segs s |} in
  let move (x y : Z) (next : Z) :=
    Some {| ds_cmd := next; ds_args := []; ds_num := NNone; ds_pos := (x, y); ds_start := (x, y);
            ds_segs := ds_segs s |} in
  match args with
  | [a; b] => if c =? 77 then move a b 76                      (* M x y, further pairs are L *)
              else if c =? 109 then move (px + a) (py + b) 108 (* m dx dy, further pairs are l *)
              else if c =? 76 then line a b 76
              else if c =? 108 then line (px + a) (py + b) 108
              else None
  | [a] => if c =? 72 then line a py 72
           else if c =? 104 then line (px + a) py 104
           else if c =? 86 then line px a 86
           else if c =? 118 then line px (py + a) 118
           else None
  | _ => None
  end.

(* finish the pending number (if any); run the command when its arguments are complete *)
Definition ds_flush (s : dstate) : option dstate :=
  match num_value (ds_num s) with
  | None => None
  | Some None => Some s
  | Some (Some h) =>
      match cmd_arity (ds_cmd s) with
      | Some (S k) =>
          let args := h :: ds_args s in
          if Nat.eqb (length args) (S k) then ds_exec s (rev args)
          else Some {| ds_cmd := ds_cmd s; ds_args := args; ds_num := NNone; ds_pos := ds_pos s;
                       ds_start := ds_start s; ds_segs := ds_segs s |}
      | _ => None
      end
  end.
Definition ds_set_num (s : dstate) (n : numst) : dstate :=
  {| ds_cmd := ds_cmd s; ds_args := ds_args s; ds_num := n; ds_pos := ds_pos s; ds_start := ds_start s;
     ds_segs := ds_segs s |}.

Definition dstep (st : option dstate) (c : Z) : option dstate :=
  match st with
  | None => None
  | Some s =>
      if is_digit c then Some (ds_set_num s (num_digit (ds_num s) (c - 48)))
      else if c =? 46 then Some (ds_set_num s (num_dot (ds_num s)))
      else if c =? 45 then match ds_flush s with Some s' => Some (ds_set_num s' NSign) | None => None end
      else if is_ws c || (c =? 44) then ds_flush s
      else match cmd_arity c with
           | None => None
           | Some ar =>
               match ds_flush s with
               | None => None
               | Some s' =>
                   match ds_args s' with
                   | _ :: _ => None                                        (* previous command incomplete *)
                   | [] =>
                       if (ds_cmd s' =? 0) && negb ((c =? 77) || (c =? 109)) then None   (* must start with a moveto *)
                       else match ar with
                            | O => let '(px, py) := ds_pos s' in let '(sx, sy) := ds_start s' in
                                   Some {| ds_cmd := 122; ds_args := []; ds_num := NNone; ds_pos := (sx, sy);
                                           ds_start := (sx, sy); ds_segs := (px, py, sx, sy) :: ds_segs s' |}
                            | S _ => Some {| ds_cmd := c; ds_args := []; ds_num := NNone; ds_pos := ds_pos s';
                                             ds_start := ds_start s'; ds_segs := ds_segs s' |}
                            end
                   end
               end
           end
  end.

Definition parse_path_data (d : text) : option (list lseg) :=
  match fold_left dstep d (Some ds_init) with
  | Some s => match ds_flush s with
              | Some s' => match ds_args s' with [] => Some (rev (ds_segs s')) | _ => None end
              | None => None
              end
  | None => None
  end.

(* ------------------------------------------------------------------ SVG document *)
Record svg_path := {
  p_stroke : option text; p_stroke_opacity : option text; p_fill : option text; p_class : option text;
  p_scales : list Z;           (* scale factors (half units) of the enclosing groups, outermost first, then the path's own *)
  p_segs : list lseg }.

Record svg_doc := {
  d_width : option (Z * text); d_height : option (Z * text); d_viewbox : option (list Z);
  d_version : option text; d_xmlns : option text; d_id : option text; d_class : option text;
  d_title : option text; d_desc : option text;
  d_paths : list svg_path }.          (* in document (= painting) order *)

Inductive frame := FSvg | FG (scale : option Z) | FTitle | FDesc.

Record rstate := { r_stack : list frame; r_seen_root : bool; r_doc : svg_doc }.

Definition empty_doc : svg_doc :=
  {| d_width := None; d_height := None; d_viewbox := None; d_version := None; d_xmlns := None; d_id := None;
     d_class := None; d_title := None; d_desc := None; d_paths := [] |}.

Definition opt_bind {A B} (o : option A) (f : A -> option B) : option B := match o with Some a => f a | None => None end.
(* an optional attribute that must parse when present *)
Definition opt_attr {A} (k : text) (attrs : list (text * text)) (f : text -> option A) : option (option A) :=
  match lookup k attrs with
  | None => Some None
  | Some v => match f v with Some a => Some (Some a) | None => None end
  end.

Definition set_title (d : svg_doc) (t : option text) : svg_doc :=
  {| d_width := d_width d; d_height := d_height d; d_viewbox := d_viewbox d; d_version := d_version d;
     d_xmlns := d_xmlns d; d_id := d_id d; d_class := d_class d; d_title := t; d_desc := d_desc d; d_paths := d_paths d |}.
Definition set_desc (d : svg_doc) (t : option text) : svg_doc :=
  {| d_width := d_width d; d_height := d_height d; d_viewbox := d_viewbox d; d_version := d_version d;
     d_xmlns := d_xmlns d; d_id := d_id d; d_class := d_class d; d_title := d_title d; d_desc := t; d_paths := d_paths d |}.
Definition add_path (d : svg_doc) (p : svg_path) : svg_doc :=
  {| d_width := d_width d; d_height := d_height d; d_viewbox := d_viewbox d; d_version := d_version d;
     d_xmlns := d_xmlns d; d_id := d_id d; d_class := d_class d; d_title := d_title d; d_desc := d_desc d;
     d_paths := d_paths d ++ [p] |}.

Fixpoint group_scales (stack : list frame) : list Z :=      (* innermost first *)
  match stack with
  | FG (Some s) :: r => s :: group_scales r
  | _ :: r => group_scales r
  | [] => []
  end.
Definition in_container (stack : list frame) : bool :=
  match stack with FSvg :: _ | FG _ :: _ => true | _ => false end.

Definition read_root (attrs : list (text * text)) : option svg_doc :=
  opt_bind (decode_attrs attrs) (fun a =>
  opt_bind (opt_attr (txt "width") a parse_length) (fun w =>
  opt_bind (opt_attr (txt "height") a parse_length) (fun h =>
  opt_bind (opt_attr (txt "viewBox") a parse_numbers) (fun vb =>
  Some {| d_width := w; d_height := h; d_viewbox := vb; d_version := lookup (txt "version") a;
          d_xmlns := lookup (txt "xmlns") a; d_id := lookup (txt "id") a; d_class := lookup (txt "class") a;
          d_title := None; d_desc := None; d_paths := [] |})))).

Definition read_path (stack : list frame) (attrs : list (text * text)) : option svg_path :=
  opt_bind (decode_attrs attrs) (fun a =>
  opt_bind (opt_attr (txt "transform") a parse_scale) (fun own =>
  opt_bind (lookup (txt "d") a) (fun d =>
  opt_bind (parse_path_data d) (fun segs =>
  (* a stroke is 1 user unit wide with butt caps unless the document says otherwise: reject documents that do *)
  match lookup (txt "stroke-width") a, lookup (txt "stroke-linecap") a, lookup (txt "style") a with
  | None, None, None =>
      Some {| p_stroke := lookup (txt "stroke") a; p_stroke_opacity := lookup (txt "stroke-opacity") a;
              p_fill := lookup (txt "fill") a; p_class := lookup (txt "class") a;
              p_scales := rev (group_scales stack) ++ (match own with Some s => [s] | None => [] end);
              p_segs := segs |}
  | _, _, _ => None
  end)))).

Definition rstep (st : option rstate) (ev : xev) : option rstate :=
  match st with
  | None => None
  | Some s =>
      let stack := r_stack s in
      let d := r_doc s in
      match ev with
      | EText t =>
          match stack with
          | FTitle :: _ => opt_bind (unescape t) (fun u =>
                           Some {| r_stack := stack; r_seen_root := r_seen_root s; r_doc := set_title d (Some u) |})
          | FDesc :: _ => opt_bind (unescape t) (fun u =>
                          Some {| r_stack := stack; r_seen_root := r_seen_root s; r_doc := set_desc d (Some u) |})
          | _ => if forallb is_ws t then Some s else None
          end
      | EOpen n attrs =>
          if text_eqb n (txt "svg") then
            match stack, r_seen_root s with
            | [], false => opt_bind (read_root attrs) (fun d' =>
                           Some {| r_stack := [FSvg]; r_seen_root := true; r_doc := d' |})
            | _, _ => None
            end
          else if text_eqb n (txt "title") then
            match stack, d_title d with
            | FSvg :: _, None => opt_bind (decode_attrs attrs) (fun _ =>
                 Some {| r_stack := FTitle :: stack; r_seen_root := true; r_doc := set_title d (Some []) |})
            | _, _ => None
            end
          else if text_eqb n (txt "desc") then
            match stack, d_desc d with
            | FSvg :: _, None => opt_bind (decode_attrs attrs) (fun _ =>
                 Some {| r_stack := FDesc :: stack; r_seen_root := true; r_doc := set_desc d (Some []) |})
            | _, _ => None
            end
          else if text_eqb n (txt "g") then
            if in_container stack then
              opt_bind (decode_attrs attrs) (fun a =>
              opt_bind (opt_attr (txt "transform") a parse_scale) (fun sc =>
              Some {| r_stack := FG sc :: stack; r_seen_root := true; r_doc := d |}))
            else None
          else None
      | EEmpty n attrs =>
          if text_eqb n (txt "path") then
            if in_container stack then
              opt_bind (read_path stack attrs) (fun p =>
              Some {| r_stack := stack; r_seen_root := true; r_doc := add_path d p |})
            else None
          else None
      | EClose n =>
          match stack with
          | FSvg :: r => if text_eqb n (txt "svg") then Some {| r_stack := r; r_seen_root := true; r_doc := d |} else None
          | FG _ :: r => if text_eqb n (txt "g") then Some {| r_stack := r; r_seen_root := true; r_doc := d |} else None
          | FTitle :: r => if text_eqb n (txt "title") then Some {| r_stack := r; r_seen_root := true; r_doc := d |} else None
          | FDesc :: r => if text_eqb n (txt "desc") then Some {| r_stack := r; r_seen_root := true; r_doc := d |} else None
          | [] => None
          end
      end
  end.

Definition read_events (evs : list xev) : option svg_doc :=
  match fold_left rstep evs (Some {| r_stack := []; r_seen_root := false; r_doc := empty_doc |}) with
  | Some s => match r_stack s, r_seen_root s with [], true => Some (r_doc s) | _, _ => None end
  | None => None
  end.

Definition read_svg (doc : text) : option svg_doc := opt_bind (lex doc) read_events.

(* ------------------------------------------------------------------ geometry *)
(* the page in user units (half units): the viewBox if there is one, else width x height given without unit *)
Definition page_user (d : svg_doc) : option (Z * Z) :=
  match d_viewbox d with
  | Some [0; 0; w; h] => Some (w, h)
  | Some _ => None
  | None => match d_width d, d_height d with
            | Some (w, []), Some (h, []) => Some (w, h)
            | _, _ => None
            end
  end.
(* the single uniform scale factor applying to a path (half units; 2 = identity); nested scales are not handled *)
Definition path_scale (p : svg_path) : option Z :=
  match p_scales p with [] => Some 2 | [s] => Some s | _ => None end.

Definition hseg_of (s : lseg) : option (Z * Z * Z) :=
  let '(x1, y1, x2, y2) := s in if y1 =? y2 then Some (x1, x2, y1) else None.
Fixpoint zseq (n : nat) (a : Z) : list Z := match n with O => [] | S k => a :: zseq k (a + 1) end.
(* cells (column, row) covered by a stroke of width 1 along the horizontal segment; the segment must lie on the
   half-integer grid line of a cell row and start / end on integers *)
Definition cells_of_hseg (s : Z * Z * Z) : option (list (Z * Z)) :=
  let '(x1, x2, y) := s in
  if Z.even x1 && Z.even x2 && Z.odd y then
    let a := Z.min x1 x2 / 2 in let b := Z.max x1 x2 / 2 in
    Some (map (fun c => (c, (y - 1) / 2)) (zseq (Z.to_nat (b - a)) a))
  else None.
(* all cells painted by the stroke of a path, with multiplicity, in path order *)
Definition stroke_cells (p : svg_path) : option (list (Z * Z)) :=
  opt_bind (map_opt hseg_of (p_segs p)) (fun hs =>
  opt_bind (map_opt cells_of_hseg hs) (fun cs => Some (concat cs))).

(* the filled region when the path is one closed axis-parallel rectangle: (x0, y0, x1, y1) *)
Definition fill_rect (p : svg_path) : option (Z * Z * Z * Z) :=
  match p_segs p with
  | [(a1, b1, c1, b1'); (c2, b2, c2', d2); (c3, d3, a3, d3'); (a4, d4, a4', b4)] =>
      if (b1 =? b1') && (c1 =? c2) && (b1 =? b2) && (c2 =? c2') && (c2 =? c3) && (d2 =? d3) && (d3 =? d3')
         && (a3 =? a4) && (d3 =? d4) && (a4 =? a4') && (b4 =? b1) && (a4 =? a1)
      then Some (a1, b1, c1, d2) else None
  | _ => None
  end.

Definition stroked (p : svg_path) : bool := match p_stroke p with Some _ => true | None => false end.
Definition filled (p : svg_path) : bool := match p_fill p with Some _ => true | None => false end.
