(* Executable specification-side oracles, written from ISO/IEC 18004 and the property texts (not from
   segno's code).  They are evaluated (extracted) on the IMPLEMENTATION's outputs to decide whether a
   concrete symbol violates a property, and they are the right-hand sides of the property theorems. *)
From Coq Require Import ZArith List Bool Lia.
From Segno Require Import Base.PyLite Ref.IsoData Ref.Geometry Ref.MaskCond Ref.Bch Ref.Gf256 Ref.Decoder.
Import ListNotations.
Open Scope Z_scope.

(* ---------------- C02: function patterns, format and version information ---------------- *)
(* positions whose value differs from what ISO prescribes for function patterns *)
Definition function_pattern_errors (rows : list (list bool)) : list (Z * Z) :=
  let size := lenZ rows in
  let cs := align_centres (version_of_size size) in
  let rng := zrange 0 size in
  flat_map (fun i => flat_map (fun j =>
    match iso_function_value size cs i j with
    | Some b => if Bool.eqb b (cell rows i j) then [] else [(i, j)]
    | None => [] end) rng) rng.

Definition level_bits (l : option Z) : Z :=   (* segno level constant -> ISO two-bit indicator (identical numbering) *)
  match l with Some x => x | None => 0 end.
Definition micro_symbol_number (v : Z) (l : option Z) : option Z :=
  match v, l with
  | -3, None => Some 0 | -2, Some 1 => Some 1 | -2, Some 0 => Some 2 | -1, Some 1 => Some 3
  | -1, Some 0 => Some 4 | 0, Some 1 => Some 5 | 0, Some 0 => Some 6 | 0, Some 3 => Some 7
  | _, _ => None end.
(* the 15-bit word ISO 7.9 prescribes for (version, level, mask) *)
Definition iso_format_word (v : Z) (l : option Z) (mask : Z) : option Z :=
  if 0 <? v then match l with Some x => Some (format_word_qr (x * 8 + mask)) | None => None end
  else match micro_symbol_number v l with Some n => Some (format_word_micro (n * 4 + mask)) | None => None end.

Definition square_ok (rows : list (list bool)) : bool :=
  forallb (fun r => lenZ r =? lenZ rows) rows.

(* all C02 facts about a symbol that claims (v, l, mask): returns the list of failed check names *)
Definition c02_check (rows : list (list bool)) (v : Z) (l : option Z) (mask : Z) : list Z :=
  let size := lenZ rows in
  (if square_ok rows && (size =? size_of_version v) then [] else [1]) ++
  (match function_pattern_errors rows with [] => [] | _ => [2] end) ++
  (match iso_format_word v l mask with
   | None => [3]
   | Some w =>
       if 0 <? v then
         (if read_word rows 15 format_pos_qr_1 =? w then [] else [4]) ++
         (if read_word rows 15 (format_pos_qr_2 size) =? w then [] else [5])
       else (if read_word rows 15 format_pos_micro =? w then [] else [4])
   end) ++
  (if 7 <=? v then
     (if read_word rows 18 (version_pos_ll size) =? golay18_6 v then [] else [6]) ++
     (if read_word rows 18 (version_pos_ur size) =? golay18_6 v then [] else [7])
   else []).

(* ---------------- C03: Reed-Solomon validity of every block ---------------- *)
Fixpoint gpow (a : Z) (n : nat) : Z := match n with O => 1 | S k => gmul a (gpow a k) end.
(* Horner evaluation, highest degree first *)
Definition gpoly_eval (p : list Z) (x : Z) : Z := fold_left (fun acc c => Z.lxor (gmul acc x) c) p 0.
Definition syndromes_zero (ec : Z) (word : list Z) : bool :=
  forallb (fun i => gpoly_eval word (gexp i) =? 0) (zrange 0 ec).

(* for every block of Table 9: data ++ ec is a codeword; sizes as prescribed; remainder bits zero.
   returns failed check codes *)
Definition c03_check (rows : list (list bool)) : list Z :=
  match read_format rows with
  | None => [1]
  | Some f =>
      let v := f_version f in
      let shapes := block_shapes v (f_level f) in
      let stream := read_stream rows (f_mask f) in
      let rb := read_blocks v (f_level f) stream in
      let short := (v =? -3) || (v =? -1) in
      let total_bits := fold_left (fun a '(t, d) => a + 8 * t) shapes 0 - (if short then 4 else 0) in
      (if (lenZ stream - total_bits =? lenZ (rb_rest rb)) && (0 <=? lenZ stream - total_bits) && (lenZ stream - total_bits <? 8)
       then [] else [2]) ++
      (if existsb (fun b => b) (rb_rest rb) then [3] else []) ++
      (if (lenZ (rb_data rb) =? lenZ shapes) && (lenZ (rb_ec rb) =? lenZ shapes) then [] else [4]) ++
      (if forallb (fun '(sh, (d, e)) => let '(t, dn) := sh in (lenZ d =? dn) && (lenZ e =? t - dn) && (t <=? 255))
                  (combine shapes (combine (rb_data rb) (rb_ec rb))) then [] else [5]) ++
      (if forallb (fun '(d, e) => syndromes_zero (lenZ e) (d ++ e)) (combine (rb_data rb) (rb_ec rb)) then [] else [6])
  end.

(* ---------------- C13: terminator and padding, ISO 7.4.9 / 7.4.10 ---------------- *)
Definition iso_terminator_length (v : Z) : Z := if 0 <? v then 4 else 2 * (v + 4) + 1.   (* M1..M4: 3,5,7,9 *)
Definition iso_capacity (v : Z) (l : option level) : Z :=
  let shapes := block_shapes v l in
  fold_left (fun a '(t, d) => a + 8 * d) shapes 0 - (if (v =? -3) || (v =? -1) then 4 else 0).
Definition pad_byte (k : Z) : list bool :=
  if Z.even k then [true; true; true; false; true; true; false; false]
  else [false; false; false; true; false; false; false; true].
(* the padded data bit stream ISO prescribes for a stream of segments [stream] (length <= capacity) *)
Definition iso_pad (v cap : Z) (stream : list bool) : list bool :=
  let len := lenZ stream in
  let t := Z.min (cap - len) (iso_terminator_length v) in
  let s1 := stream ++ repeat false (Z.to_nat t) in
  let l1 := len + t in
  let short := (v =? -3) || (v =? -1) in
  let full := if short then cap - 4 else cap in            (* bits made of 8-bit codewords *)
  if full <? l1 then s1 ++ repeat false (Z.to_nat (cap - l1)) else
  let fill := (- l1) mod 8 in
  let s2 := s1 ++ repeat false (Z.to_nat fill) in
  let npad := (full - (l1 + fill)) / 8 in
  s2 ++ flat_map pad_byte (zrange 0 npad) ++ (if short then [false; false; false; false] else []).
(* known finding D1: an already aligned terminated stream gets one extra 00000000 codeword before the pads *)
Definition kf_pad_aligned (v cap len : Z) : bool :=
  let t := Z.min (cap - len) (iso_terminator_length v) in
  negb ((v =? -3) || (v =? -1)) && ((len + t) mod 8 =? 0) && (len + t <? cap).
Definition iso_pad_kf (v cap : Z) (stream : list bool) : list bool :=
  let len := lenZ stream in
  let t := Z.min (cap - len) (iso_terminator_length v) in
  if kf_pad_aligned v cap len
  then stream ++ repeat false (Z.to_nat t) ++ repeat false 8 ++ flat_map pad_byte (zrange 0 ((cap - (len + t + 8)) / 8))
  else iso_pad v cap stream.

(* given a decoded symbol: the data codeword bits must equal iso_pad of the segment part of the stream *)
Definition c13_check (rows : list (list bool)) : option (bool * bool * Z * Z * Z) :=
  match decode_symbol rows with
  | None => None
  | Some d =>
      let v := dec_version d in
      let cap := iso_capacity v (dec_level d) in
      let bs := bits_of_codewords v (dec_data_codewords d) in
      let seg_len := lenZ bs - lenZ (dec_tail d) in
      let stream := firstn (Z.to_nat seg_len) bs in
      let eqb_bits a b := (lenZ a =? lenZ b) && forallb (fun '(x, y) => Bool.eqb x y) (combine a b) in
      Some (eqb_bits bs (iso_pad v cap stream), eqb_bits bs (iso_pad_kf v cap stream), v, cap, seg_len)
  end.

(* ---------------- C06: ISO 7.8.3 penalty scoring, independent formulation ---------------- *)
(* N1: every maximal run of length 5+i in a line scores 3+i *)
Fixpoint runs (l : list bool) : list Z :=
  match l with
  | [] => []
  | b :: r => match runs r, r with
              | n :: t, b' :: _ => if Bool.eqb b b' then (n + 1) :: t else 1 :: n :: t
              | _, _ => [1]
              end
  end.
Definition iso_n1_line (l : list bool) : Z := fold_left (fun a n => a + (if 5 <=? n then 3 + (n - 5) else 0)) (runs l) 0.
Definition column (rows : list (list bool)) (j : Z) : list bool := map (fun r => nth (Z.to_nat j) r false) rows.
Definition columns (rows : list (list bool)) : list (list bool) := map (column rows) (zrange 0 (lenZ rows)).
(* N2: 3 points for every 2x2 block of one colour *)
Definition iso_n2 (rows : list (list bool)) : Z :=
  let n := lenZ rows in
  fold_left (fun a i => fold_left (fun a j =>
     let c := cell rows i j in
     if Bool.eqb c (cell rows i (j + 1)) && Bool.eqb c (cell rows (i + 1) j) && Bool.eqb c (cell rows (i + 1) (j + 1))
     then a + 3 else a) (zrange 0 (n - 1)) a) (zrange 0 (n - 1)) 0.
(* N3: every occurrence of 1011101 with four light modules (or fewer, up to the symbol edge) on a side *)
Definition at_ (l : list bool) (k : Z) : bool := nth (Z.to_nat k) l false.
Definition all_light (l : list bool) (a b : Z) : bool :=   (* positions a <= k < b inside the line *)
  forallb (fun k => negb (at_ l k)) (zrange (Z.max a 0) (Z.min b (lenZ l))).
Definition iso_n3_line (l : list bool) : Z :=
  let n := lenZ l in
  fold_left (fun a p =>
    if at_ l p && negb (at_ l (p + 1)) && at_ l (p + 2) && at_ l (p + 3) && at_ l (p + 4) && negb (at_ l (p + 5)) && at_ l (p + 6)
       && (all_light l (p - 4) p || all_light l (p + 7) (p + 11))
    then a + 40 else a) (zrange 0 (n - 6)) 0.
(* N4: 10 points per 5% deviation of the dark ratio from 50% (rounded down) *)
Definition iso_n4 (rows : list (list bool)) : Z :=
  let n := lenZ rows in
  let dark := fold_left (fun a r => fold_left (fun a (b : bool) => if b then a + 1 else a) r a) rows 0 in
  10 * (Z.abs (20 * dark - 10 * n * n) / (n * n)).
Definition iso_penalty (rows : list (list bool)) : Z :=
  fold_left (fun a l => a + iso_n1_line l + iso_n3_line l) (rows ++ columns rows) 0 + iso_n2 rows + iso_n4 rows.
(* 7.8.3.2 Micro QR: SUM1 dark modules of the right edge, SUM2 of the lower edge (excluding the timing row/col) *)
Definition iso_micro_score (rows : list (list bool)) : Z :=
  let n := lenZ rows in
  let s1 := fold_left (fun a i => a + (if cell rows i (n - 1) then 1 else 0)) (zrange 1 n) 0 in
  let s2 := fold_left (fun a j => a + (if cell rows (n - 1) j then 1 else 0)) (zrange 1 n) 0 in
  if s1 <=? s2 then s1 * 16 + s2 else s2 * 16 + s1.

(* the symbol as it is evaluated: data modules re-masked with pattern k, format/version areas and the dark
   module position light, function patterns untouched *)
Definition remask (rows : list (list bool)) (used k : Z) : list (list bool) :=
  let size := lenZ rows in
  let micro := is_micro_size size in
  let cs := align_centres (version_of_size size) in
  map (fun i => map (fun j =>
    match iso_type size cs i j with
    | Data => xorb (xorb (cell rows i j) (iso_mask_for micro used i j)) (iso_mask_for micro k i j)
    | Format | Version | DarkModule => false
    | _ => cell rows i j end) (zrange 0 size)) (zrange 0 size).
Definition candidate_scores (rows : list (list bool)) (used : Z) : list Z :=
  let micro := is_micro_size (lenZ rows) in
  map (fun k => let m := remask rows used k in if micro then iso_micro_score m else iso_penalty m)
      (zrange 0 (if micro then 4 else 8)).
(* index of the first minimum (QR) / first maximum (Micro) *)
Definition best_index (micro : bool) (scores : list Z) : Z :=
  snd (fold_left (fun (st : option Z * Z) (ks : Z * Z) =>
         let (best, bi) := st in let (k, s) := ks in
         match best with
         | None => (Some s, k)
         | Some b => if (if micro then b <? s else s <? b) then (Some s, k) else (best, bi) end)
       (combine (zrange 0 (lenZ scores)) scores) (@None Z, 0)).
Definition iso_best_mask (rows : list (list bool)) (used : Z) : Z :=
  best_index (is_micro_size (lenZ rows)) (candidate_scores rows used).

(* ---------------- C07 / C04 / C05: mode, version and level selection ---------------- *)
Definition sjis_kanji_pair (hi lo : Z) : bool :=
  let code := hi * 256 + lo in
  (((33088 <=? code) && (code <=? 40956)) || ((57408 <=? code) && (code <=? 60351)))
  && (((64 <=? lo) && (lo <=? 126)) || ((128 <=? lo) && (lo <=? 252))).
Fixpoint pairs_ok (l : list Z) : bool :=
  match l with [] => true | hi :: lo :: r => sjis_kanji_pair hi lo && pairs_ok r | _ => false end.
Definition iso_alnum_chars : list Z :=   (* ISO Table 5: 0-9 A-Z SP $ % * + - . / : *)
  zrange 48 58 ++ zrange 65 91 ++ [32; 36; 37; 42; 43; 45; 46; 47; 58].
Definition spec_mode (data : list Z) : Z :=
  match data with
  | [] => 4
  | _ => if forallb (fun b => (48 <=? b) && (b <=? 57)) data then 1
         else if forallb (fun b => memZ b iso_alnum_chars) data then 2
         else if pairs_ok data then 8 else 4
  end.

(* bits of one segment: mode indicator + count indicator + payload (+ ECI header / Hanzi subset) *)
Definition payload_bits (mode count : Z) : Z :=
  if mode =? 1 then 10 * (count / 3) + (if count mod 3 =? 0 then 0 else if count mod 3 =? 1 then 4 else 7)
  else if mode =? 2 then 11 * (count / 2) + 6 * (count mod 2)
  else if mode =? 4 then 8 * count else 13 * count.
Definition mode_available (mode v : Z) : bool :=   (* ISO Table 2 *)
  if 0 <? v then true else
  if mode =? 1 then true else if mode =? 2 then -2 <=? v else if (mode =? 4) || (mode =? 8) then -1 <=? v else false.
Definition spec_cci (mode v : Z) : Z :=
  match assocZ mode CHAR_COUNT_INDICATOR_LENGTH with
  | Some row => match assocZ (if 0 <? v then qr_range v else v) row with Some w => w | None => 0 end
  | None => 0 end.
(* segs: (mode, char count, has ECI header) *)
Definition spec_bits (v : Z) (segs : list (Z * Z * bool)) (sa : bool) : Z :=
  fold_left (fun (a : Z) (x : Z * Z * bool) => let '(mode, count, eci) := x in
     a + (if 0 <? v then 4 else v + 3) + spec_cci mode v + payload_bits mode count
       + (if eci then 12 else 0) + (if (mode =? 13) && (0 <? v) then 4 else 0)) segs (if sa then 20 else 0).
Definition spec_capacity (v : Z) (l : option Z) : option Z :=
  match assocZ v SYMBOL_CAPACITY with Some row => assocOZ l row | None => None end.
Definition spec_fits (v : Z) (l : option Z) (segs : list (Z * Z * bool)) (sa : bool) : bool :=
  forallb (fun x : Z * Z * bool => let '(mode, _, _) := x in mode_available mode v) segs &&
  match spec_capacity v (if v =? -3 then None else match l with None => Some 1 | x => x end) with
  | Some cap => spec_bits v segs sa <=? cap
  | None => false end.
(* admissible versions in order; micro: None/Some true/Some false *)
Definition spec_admissible (micro : option bool) (eci_requested : bool) (l : option Z) : list Z :=
  (match micro with Some false => [] | _ => if eci_requested then [] else
     (match l with None => [-3] | Some _ => [] end) ++ [-2; -1; 0] end) ++
  (match micro with Some true => [] | _ => zrange 1 41 end).
Definition spec_version (micro : option bool) (eci_requested : bool) (l : option Z) (segs : list (Z * Z * bool)) (sa : bool) : option Z :=
  find (fun v => spec_fits v l segs sa) (spec_admissible micro eci_requested l).

(* C05: highest level defined for the version whose capacity still holds the content, not below the request *)
Definition level_rank (l : Z) : Z := match l with 1 => 0 | 0 => 1 | 3 => 2 | _ => 3 end.
Definition levels_of_version (v : Z) : list Z :=
  if v =? -3 then [] else if v <? 0 then [1; 0] else if v =? 0 then [1; 0; 3] else [1; 0; 3; 2].
Definition spec_boost (v : Z) (requested : Z) (segs : list (Z * Z * bool)) (sa : bool) : Z :=
  fold_left (fun best l => if (level_rank best <? level_rank l) && spec_fits v (Some l) segs sa then l else best)
            (levels_of_version v) requested.
