(* Independent readers for the Netpbm formats, written from the format definitions
     pbm(5)  http://netpbm.sourceforge.net/doc/pbm.html   (P1 plain, P4 raw)
     ppm(5)  http://netpbm.sourceforge.net/doc/ppm.html   (P6 raw)
     pam(5)  http://netpbm.sourceforge.net/doc/pam.html   (P7)
   and not from segno's code.  Definitions only.  A file is a list of bytes (Z).

   The readers are STRICT single-image readers: the raster must contain exactly the number of bytes (P4/P6/P7)
   resp. of non-whitespace characters (P1) that the declared dimensions require, every sample must lie in
   0..maxval, and for the standard PAM tuple types the declared DEPTH (and MAXVAL for BLACKANDWHITE) must be the
   one the specification prescribes.  So `read (file) = Some (w, h, pixels)` implies that the declared dimensions
   are the dimensions of the data.

   A pixel is the list of its channel values.  PBM: [0] = white, [1] = black (as pbm(5) defines the bits). *)
From Coq Require Import ZArith List Bool.
Import ListNotations.
Open Scope Z_scope.

Definition pixel := list Z.
Definition image := (Z * Z * list (list pixel))%type.

(* ---------- lexical level ---------- *)
(* white space: blank, TAB, LF, VT, FF, CR *)
Definition is_ws (c : Z) : bool := (c =? 32) || (c =? 9) || (c =? 10) || (c =? 11) || (c =? 12) || (c =? 13).
Definition is_eol (c : Z) : bool := (c =? 10) || (c =? 13).
Definition is_digit (c : Z) : bool := (48 <=? c) && (c <=? 57).

(* skip white space and comments ('#' up to and including the next CR / LF) *)
Fixpoint skip_ws (in_comment : bool) (s : list Z) : list Z :=
  match s with
  | [] => []
  | c :: r =>
      if in_comment then (if is_eol c then skip_ws false r else skip_ws true r)
      else if is_ws c then skip_ws false r
      else if c =? 35 then skip_ws true r
      else s
  end.

Fixpoint take_digits (s : list Z) : list Z * list Z :=
  match s with
  | [] => ([], [])
  | c :: r => if is_digit c then let (d, t) := take_digits r in (c :: d, t) else ([], s)
  end.

Definition parse_dec (ds : list Z) : Z := fold_left (fun a d => 10 * a + (d - 48)) ds 0.

(* a header field: at least one white-space character or a comment, then an unsigned decimal number *)
Definition read_field (s : list Z) : option (Z * list Z) :=
  match s with
  | [] => None
  | c :: _ =>
      if is_ws c || (c =? 35) then
        match take_digits (skip_ws false s) with
        | ([], _) => None
        | (ds, t) => Some (parse_dec ds, t)
        end
      else None
  end.

Fixpoint drop_comment (s : list Z) : option (list Z) :=
  match s with
  | [] => None
  | c :: r => if is_eol c then Some r else drop_comment r
  end.

(* the single white-space character that separates the header from a raw raster (a comment directly before it
   is allowed; the line end of the comment is then the separator) *)
Definition raster_start (s : list Z) : option (list Z) :=
  match s with
  | [] => None
  | c :: r => if is_ws c then Some r else if c =? 35 then drop_comment r else None
  end.

(* cut a list into k pieces of w elements *)
Fixpoint chunks {A} (k w : nat) (l : list A) : list (list A) :=
  match k with
  | O => []
  | S k' => firstn w l :: chunks k' w (skipn w l)
  end.

(* ---------- PBM ---------- *)
(* the eight pixels of a raster byte, most significant bit first *)
Definition byte_bits (v : Z) : list Z :=
  [v / 128 mod 2; v / 64 mod 2; v / 32 mod 2; v / 16 mod 2; v / 8 mod 2; v / 4 mod 2; v / 2 mod 2; v mod 2].

Definition read_p4_raster (w h : Z) (data : list Z) : option (list (list pixel)) :=
  let bpr := (w + 7) / 8 in                       (* bytes per row; the last byte is padded on the right *)
  if Z.of_nat (length data) =? bpr * h then
    Some (map (fun rowbytes => map (fun b => [b]) (firstn (Z.to_nat w) (flat_map byte_bits rowbytes)))
              (chunks (Z.to_nat h) (Z.to_nat bpr) data))
  else None.

Definition read_p1_raster (w h : Z) (data : list Z) : option (list (list pixel)) :=
  let body := filter (fun c => negb (is_ws c)) data in          (* white space in the raster is ignored *)
  if forallb (fun c => (c =? 48) || (c =? 49)) body && (Z.of_nat (length body) =? w * h) then
    Some (map (map (fun c => [c - 48])) (chunks (Z.to_nat h) (Z.to_nat w) body))
  else None.

Definition read_pbm (s : list Z) : option image :=
  match s with
  | 80 :: m :: r =>                                              (* 'P' *)
      if (m =? 49) || (m =? 52) then
        match read_field r with
        | Some (w, r1) =>
            match read_field r1 with
            | Some (h, r2) =>
                if m =? 52 then
                  match raster_start r2 with
                  | Some data => match read_p4_raster w h data with Some px => Some (w, h, px) | None => None end
                  | None => None
                  end
                else match read_p1_raster w h r2 with Some px => Some (w, h, px) | None => None end
            | None => None
            end
        | None => None
        end
      else None
  | _ => None
  end.

(* ---------- samples (PPM / PAM) ---------- *)
(* maxval < 256: one byte per sample, otherwise two bytes, most significant first *)
Fixpoint pairs16 (l : list Z) : option (list Z) :=
  match l with
  | [] => Some []
  | [_] => None
  | hi :: lo :: r => match pairs16 r with Some t => Some (hi * 256 + lo :: t) | None => None end
  end.

Definition read_samples (maxval : Z) (data : list Z) : option (list Z) :=
  if maxval <? 256 then Some data else pairs16 data.

(* raster of h rows, w tuples per row, d samples per tuple *)
Definition read_tuples (w h d maxval : Z) (data : list Z) : option (list (list pixel)) :=
  match read_samples maxval data with
  | Some samples =>
      if (Z.of_nat (length samples) =? w * h * d)
         && forallb (fun v => (0 <=? v) && (v <=? maxval)) samples
      then Some (chunks (Z.to_nat h) (Z.to_nat w) (chunks (Z.to_nat (w * h)) (Z.to_nat d) samples))
      else None
  | None => None
  end.

(* ---------- PPM (P6) ---------- *)
(* returns (width, height, maxval, rows of [r; g; b]) *)
Definition read_ppm_full (s : list Z) : option (Z * Z * Z * list (list pixel)) :=
  match s with
  | 80 :: 54 :: r =>
      match read_field r with
      | Some (w, r1) =>
          match read_field r1 with
          | Some (h, r2) =>
              match read_field r2 with
              | Some (maxval, r3) =>
                  if (0 <? maxval) && (maxval <? 65536) then
                    match raster_start r3 with
                    | Some data =>
                        match read_tuples w h 3 maxval data with
                        | Some px => Some (w, h, maxval, px)
                        | None => None
                        end
                    | None => None
                    end
                  else None
              | None => None
              end
          | None => None
          end
      | None => None
      end
  | _ => None
  end.

Definition read_ppm (s : list Z) : option image :=
  match read_ppm_full s with Some (w, h, _, px) => Some (w, h, px) | None => None end.

(* ---------- PAM (P7) ---------- *)
Record pam_hdr := { ph_width : option Z; ph_height : option Z; ph_depth : option Z; ph_maxval : option Z;
                    ph_tupltype : list Z }.
Definition empty_hdr : pam_hdr :=
  {| ph_width := None; ph_height := None; ph_depth := None; ph_maxval := None; ph_tupltype := [] |}.

Record pam_image := { pi_width : Z; pi_height : Z; pi_depth : Z; pi_maxval : Z; pi_tupltype : list Z;
                      pi_pixels : list (list pixel) }.

(* one header line, without its newline *)
Fixpoint split_line (s : list Z) : option (list Z * list Z) :=
  match s with
  | [] => None
  | c :: r => if c =? 10 then Some ([], r)
              else match split_line r with Some (l, t) => Some (c :: l, t) | None => None end
  end.

Definition is_blank (c : Z) : bool := (c =? 32) || (c =? 9) || (c =? 11) || (c =? 12) || (c =? 13).
Fixpoint drop_blanks (s : list Z) : list Z :=
  match s with c :: r => if is_blank c then drop_blanks r else s | [] => [] end.
Fixpoint span_token (s : list Z) : list Z * list Z :=
  match s with
  | [] => ([], [])
  | c :: r => if is_blank c then ([], s) else let (t, u) := span_token r in (c :: t, u)
  end.
Definition trim (s : list Z) : list Z := rev (drop_blanks (rev (drop_blanks s))).

Fixpoint bytes_eqb (a b : list Z) : bool :=
  match a, b with
  | [], [] => true
  | x :: a', y :: b' => (x =? y) && bytes_eqb a' b'
  | _, _ => false
  end.

Definition number_value (v : list Z) : option Z :=
  match v with
  | [] => None
  | _ => if forallb is_digit v then Some (parse_dec v) else None
  end.

Definition T_ENDHDR : list Z := [69; 78; 68; 72; 68; 82].
Definition T_WIDTH : list Z := [87; 73; 68; 84; 72].
Definition T_HEIGHT : list Z := [72; 69; 73; 71; 72; 84].
Definition T_DEPTH : list Z := [68; 69; 80; 84; 72].
Definition T_MAXVAL : list Z := [77; 65; 88; 86; 65; 76].
Definition T_TUPLTYPE : list Z := [84; 85; 80; 76; 84; 89; 80; 69].

Inductive line_result := LCont (h : pam_hdr) | LDone | LBad.

Definition set_once (old : option Z) (v : list Z) (k : Z -> pam_hdr) : line_result :=
  match old, number_value v with
  | None, Some n => LCont (k n)
  | _, _ => LBad
  end.

Definition pam_line (line : list Z) (h : pam_hdr) : line_result :=
  match drop_blanks line with
  | [] => LCont h                                            (* blank line *)
  | (c :: _) as l =>
      if c =? 35 then LCont h else                           (* comment line *)
      let (tok, rest) := span_token l in
      let v := trim rest in
      if bytes_eqb tok T_ENDHDR then (match v with [] => LDone | _ => LBad end)
      else if bytes_eqb tok T_WIDTH then
        set_once (ph_width h) v (fun n => {| ph_width := Some n; ph_height := ph_height h; ph_depth := ph_depth h;
                                             ph_maxval := ph_maxval h; ph_tupltype := ph_tupltype h |})
      else if bytes_eqb tok T_HEIGHT then
        set_once (ph_height h) v (fun n => {| ph_width := ph_width h; ph_height := Some n; ph_depth := ph_depth h;
                                              ph_maxval := ph_maxval h; ph_tupltype := ph_tupltype h |})
      else if bytes_eqb tok T_DEPTH then
        set_once (ph_depth h) v (fun n => {| ph_width := ph_width h; ph_height := ph_height h; ph_depth := Some n;
                                             ph_maxval := ph_maxval h; ph_tupltype := ph_tupltype h |})
      else if bytes_eqb tok T_MAXVAL then
        set_once (ph_maxval h) v (fun n => {| ph_width := ph_width h; ph_height := ph_height h; ph_depth := ph_depth h;
                                              ph_maxval := Some n; ph_tupltype := ph_tupltype h |})
      else if bytes_eqb tok T_TUPLTYPE then
        (* several TUPLTYPE lines are concatenated, separated by a blank *)
        LCont {| ph_width := ph_width h; ph_height := ph_height h; ph_depth := ph_depth h; ph_maxval := ph_maxval h;
                 ph_tupltype := match ph_tupltype h with [] => v | t => t ++ 32 :: v end |}
      else LBad
  end.

(* the header lines up to and including ENDHDR; the fuel is the number of remaining bytes *)
Fixpoint pam_header_lines (fuel : nat) (s : list Z) (h : pam_hdr) : option (pam_hdr * list Z) :=
  match fuel with
  | O => None
  | S f =>
      match split_line s with
      | None => None
      | Some (line, rest) =>
          match pam_line line h with
          | LCont h' => pam_header_lines f rest h'
          | LDone => Some (h, rest)
          | LBad => None
          end
      end
  end.

(* depth / maxval that pam(5) prescribes for the standard tuple types; other tuple types are not constrained *)
Definition TT_BLACKANDWHITE : list Z := [66; 76; 65; 67; 75; 65; 78; 68; 87; 72; 73; 84; 69].
Definition TT_GRAYSCALE : list Z := [71; 82; 65; 89; 83; 67; 65; 76; 69].
Definition TT_RGB : list Z := [82; 71; 66].
Definition TT_ALPHA_SUFFIX : list Z := [95; 65; 76; 80; 72; 65].
Definition tupltype_ok (tt : list Z) (depth maxval : Z) : bool :=
  if bytes_eqb tt TT_BLACKANDWHITE then (depth =? 1) && (maxval =? 1)
  else if bytes_eqb tt TT_GRAYSCALE then (depth =? 1)
  else if bytes_eqb tt TT_RGB then (depth =? 3)
  else if bytes_eqb tt (TT_BLACKANDWHITE ++ TT_ALPHA_SUFFIX) then (depth =? 2) && (maxval =? 1)
  else if bytes_eqb tt (TT_GRAYSCALE ++ TT_ALPHA_SUFFIX) then (depth =? 2)
  else if bytes_eqb tt (TT_RGB ++ TT_ALPHA_SUFFIX) then (depth =? 4)
  else true.

Definition read_pam_full (s : list Z) : option pam_image :=
  match s with
  | 80 :: 55 :: 10 :: r =>                                       (* "P7" newline *)
      match pam_header_lines (length r) r empty_hdr with
      | Some (h, data) =>
          match ph_width h, ph_height h, ph_depth h, ph_maxval h with
          | Some w, Some ht, Some d, Some mv =>
              if (0 <? w) && (0 <? ht) && (0 <? d) && (0 <? mv) && (mv <? 65536) && tupltype_ok (ph_tupltype h) d mv then
                match read_tuples w ht d mv data with
                | Some px => Some {| pi_width := w; pi_height := ht; pi_depth := d; pi_maxval := mv;
                                     pi_tupltype := ph_tupltype h; pi_pixels := px |}
                | None => None
                end
              else None
          | _, _, _, _ => None
          end
      | None => None
      end
  | _ => None
  end.

Definition read_pam (s : list Z) : option image :=
  match read_pam_full s with
  | Some i => Some (pi_width i, pi_height i, pi_pixels i)
  | None => None
  end.

(* ---------- what a PAM tuple denotes ---------- *)
(* pam(5): a sample v with maxval m is the intensity v/m.  [scale255 m v] is that intensity on the 0..255 scale
   when it is a whole number. *)
Definition scale255 (maxval v : Z) : option Z :=
  if (v * 255) mod maxval =? 0 then Some (v * 255 / maxval) else None.

Inductive tt_kind := KBW | KGray | KRGB | KBWA | KGrayA | KRGBA | KOther.
Definition tupltype_kind (tt : list Z) : tt_kind :=
  if bytes_eqb tt TT_BLACKANDWHITE then KBW
  else if bytes_eqb tt TT_GRAYSCALE then KGray
  else if bytes_eqb tt TT_RGB then KRGB
  else if bytes_eqb tt (TT_BLACKANDWHITE ++ TT_ALPHA_SUFFIX) then KBWA
  else if bytes_eqb tt (TT_GRAYSCALE ++ TT_ALPHA_SUFFIX) then KGrayA
  else if bytes_eqb tt (TT_RGB ++ TT_ALPHA_SUFFIX) then KRGBA
  else KOther.

(* the colour of a tuple as [R; G; B; A], each 0..255 (A = 255 opaque, 0 fully transparent), as pam(5) defines the
   standard tuple types: BLACKANDWHITE / GRAYSCALE: one grey sample (maxval = white); RGB: red, green, blue;
   *_ALPHA: an additional opacity sample (maxval = opaque) *)
Definition pam_pixel_rgba (tt : list Z) (maxval : Z) (px : pixel) : option (list Z) :=
  match tupltype_kind tt, px with
  | KBW, [v] | KGray, [v] =>
      match scale255 maxval v with Some g => Some [g; g; g; 255] | None => None end
  | KRGB, [r; g; b] =>
      match scale255 maxval r, scale255 maxval g, scale255 maxval b with
      | Some r', Some g', Some b' => Some [r'; g'; b'; 255]
      | _, _, _ => None end
  | KBWA, [v; a] | KGrayA, [v; a] =>
      match scale255 maxval v, scale255 maxval a with
      | Some g, Some a' => Some [g; g; g; a']
      | _, _ => None end
  | KRGBA, [r; g; b; a] =>
      match scale255 maxval r, scale255 maxval g, scale255 maxval b, scale255 maxval a with
      | Some r', Some g', Some b', Some a' => Some [r'; g'; b'; a']
      | _, _, _, _ => None end
  | _, _ => None
  end.
