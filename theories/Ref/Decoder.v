(* A reference reader for (Micro) QR symbols, written from ISO/IEC 18004:2015 clause 7 / 12 and
   independent of segno's encoder: format information -> data mask release -> codeword reading in the
   placement order of 7.7.3 -> block de-interleaving (Table 9) -> segment parsing (7.4).
   No error correction is performed here (symbols under test are exact); validity of the Reed-Solomon
   blocks is a separate oracle (Ref/Gf256.v). *)
From Coq Require Import ZArith List Bool Lia.
From Segno Require Import Base.PyLite Ref.IsoData Ref.Geometry Ref.MaskCond Ref.Bch.
Import ListNotations.
Open Scope Z_scope.

Definition cell (rows : list (list bool)) (i j : Z) : bool :=
  nth (Z.to_nat j) (nth (Z.to_nat i) rows []) false.

Definition word_of (bits_msb_first : list bool) : Z :=
  fold_left (fun a (b : bool) => 2 * a + (if b then 1 else 0)) bits_msb_first 0.

(* read a 15-bit word given the position of bit k *)
Definition read_word (rows : list (list bool)) (n : Z) (pos : Z -> Z * Z) : Z :=
  word_of (map (fun k => let '(i, j) := pos k in cell rows i j) (rev (zrange 0 n))).

(* ISO 7.9: two-bit error correction level indicator 01 L, 00 M, 11 Q, 10 H *)
Inductive level := LvL | LvM | LvQ | LvH.
Definition level_of_bits (b : Z) : level := match b with 1 => LvL | 0 => LvM | 3 => LvQ | _ => LvH end.
(* ISO Table 13: Micro QR symbol number -> (version, level) *)
Definition micro_symbol (n : Z) : Z * option level :=
  match n with
  | 0 => (-3, None) | 1 => (-2, Some LvL) | 2 => (-2, Some LvM) | 3 => (-1, Some LvL)
  | 4 => (-1, Some LvM) | 5 => (0, Some LvL) | 6 => (0, Some LvM) | _ => (0, Some LvQ) end.

(* exact lookup of the 5 data bits of a format word *)
Definition format_data (micro : bool) (w : Z) : option Z :=
  find (fun d => (if micro then format_word_micro d else format_word_qr d) =? w) (zrange 0 32).

Record fmt := { f_version : Z; f_level : option level; f_mask : Z }.

Definition read_format (rows : list (list bool)) : option fmt :=
  let size := lenZ rows in
  if is_micro_size size then
    match format_data true (read_word rows 15 format_pos_micro) with
    | Some d => let '(v, l) := micro_symbol (d / 4) in
                if size =? size_of_version v then Some {| f_version := v; f_level := l; f_mask := d mod 4 |} else None
    | None => None
    end
  else
    let w1 := read_word rows 15 format_pos_qr_1 in
    let w2 := read_word rows 15 (format_pos_qr_2 size) in
    if negb (w1 =? w2) then None else
    match format_data false w1 with
    | Some d => Some {| f_version := version_of_size size; f_level := Some (level_of_bits (d / 8)); f_mask := d mod 8 |}
    | None => None
    end.

(* version information (v >= 7): both copies must carry golay18_6 v *)
Definition version_info_ok (rows : list (list bool)) : bool :=
  let size := lenZ rows in
  let v := version_of_size size in
  if is_micro_size size || (v <? 7) then true else
  (read_word rows 18 (version_pos_ll size) =? golay18_6 v) && (read_word rows 18 (version_pos_ur size) =? golay18_6 v).

(* 7.7.3: two-module wide columns from the right, alternately upwards and downwards, skipping the
   vertical timing column of QR symbols; in each row the right module first *)
Fixpoint zigzag (n : nat) (size : Z) (micro : bool) (col : Z) (up : bool) : list (Z * Z) :=
  match n with
  | O => []
  | S k =>
      if col <? 1 then [] else
      let rows := if up then rev (zrange 0 size) else zrange 0 size in
      flat_map (fun i => [(i, col); (i, col - 1)]) rows
      ++ (let next := col - 2 in
          let next := if negb micro && (next =? 6) then 5 else next in
          zigzag k size micro next (negb up))
  end.
Definition placement_order (size : Z) : list (Z * Z) :=
  zigzag (Z.to_nat size) size (is_micro_size size) (size - 1) true.

Definition data_positions (size : Z) : list (Z * Z) :=
  let cs := align_centres (version_of_size size) in
  filter (fun '(i, j) => mtype_eqb (iso_type size cs i j) Data) (placement_order size).

(* the raw bit stream of the encoding region with the data mask released *)
Definition read_stream (rows : list (list bool)) (mask : Z) : list bool :=
  let size := lenZ rows in
  let micro := is_micro_size size in
  map (fun '(i, j) => xorb (cell rows i j) (iso_mask_for micro mask i j)) (data_positions size).

Definition level_code (l : option level) : option Z :=    (* key used by the frozen Table 9 *)
  match l with None => None | Some LvL => Some 1 | Some LvM => Some 0 | Some LvQ => Some 3 | Some LvH => Some 2 end.

Definition ec_blocks (v : Z) (l : option level) : list (Z * Z * Z) :=
  match assocZ v ECC with Some row => match assocOZ (level_code l) row with Some x => x | None => [] end | None => [] end.

(* expand Table 9 rows into one (total, data) pair per block *)
Definition block_shapes (v : Z) (l : option level) : list (Z * Z) :=
  flat_map (fun '(nb, tot, dat) => repeat (tot, dat) (Z.to_nat nb)) (ec_blocks v l).

Fixpoint chunks8 (fuel : nat) (bs : list bool) : list Z :=
  match fuel with O => [] | S f =>
    match bs with [] => [] | _ => word_of (firstn 8 bs) :: chunks8 f (skipn 8 bs) end end.

(* de-interleave: codeword k of the stream belongs to block (k mod nblocks) while that block still has room;
   implemented by distributing column by column *)
Fixpoint deal (fuel : nat) (lens : list Z) (cw : list Z) (acc : list (list Z)) : list (list Z) * list Z :=
  match fuel with O => (acc, cw) | S f =>
    if forallb (fun n => n <=? 0) lens then (acc, cw) else
    let step := fold_left (fun '(acc', cw', out, ls) '(n, blk) =>
                    if 0 <? n then match cw' with
                                   | c :: r => (acc', r, out ++ [blk ++ [c]], ls ++ [n - 1])
                                   | [] => (acc', [], out ++ [blk], ls ++ [0]) end
                    else (acc', cw', out ++ [blk], ls ++ [n]))
                 (combine lens acc) (acc, cw, [], []) in
    let '(_, cw2, out, ls) := step in
    deal f ls cw2 out
  end.
Definition deinterleave (lens : list Z) (cw : list Z) : list (list Z) * list Z :=
  deal (S (Z.to_nat (fold_left Z.max lens 0))) lens cw (map (fun _ => []) lens).

Record raw_blocks := { rb_data : list (list Z); rb_ec : list (list Z); rb_rest : list bool }.

(* codewords of the symbol, split into data and error correction blocks (M1/M3: last data codeword has 4 bits) *)
Definition read_blocks (v : Z) (l : option level) (stream : list bool) : raw_blocks :=
  let shapes := block_shapes v l in
  let ndata := fold_left (fun a '(t, d) => a + d) shapes 0 in
  let nec := fold_left (fun a '(t, d) => a + (t - d)) shapes 0 in
  let short := (v =? -3) || (v =? -1) in
  let data_bits := if short then ndata * 8 - 4 else ndata * 8 in
  let dbits := firstn (Z.to_nat data_bits) stream in
  let rest := skipn (Z.to_nat data_bits) stream in
  let dcw := chunks8 (S (length dbits)) (if short then dbits ++ [false; false; false; false] else dbits) in
  let ecw := chunks8 (S (length rest)) (firstn (Z.to_nat (nec * 8)) rest) in
  {| rb_data := fst (deinterleave (map snd shapes) dcw);
     rb_ec := fst (deinterleave (map (fun '(t, d) => t - d) shapes) ecw);
     rb_rest := skipn (Z.to_nat (nec * 8)) rest |}.

(* ---- segment parsing ---- *)
Inductive dmode := DNumeric | DAlnum | DByte | DKanji | DHanzi.
Record dsegment := { d_mode : dmode; d_eci : option Z; d_count : Z; d_bytes : list Z }.
Record decoded := { dec_version : Z; dec_level : option level; dec_mask : Z;
                    dec_sa : option (Z * Z * Z); dec_segments : list dsegment;
                    dec_data_codewords : list Z; dec_tail : list bool }.

Definition take (n : Z) (bs : list bool) : option (Z * list bool) :=
  if lenZ bs <? n then None else Some (word_of (firstn (Z.to_nat n) bs), skipn (Z.to_nat n) bs).

Definition alnum_char (k : Z) : Z := nth (Z.to_nat k) ALPHANUMERIC_CHARS 0.

Fixpoint read_numeric (fuel : nat) (count : Z) (bs : list bool) : option (list Z * list bool) :=
  match fuel with O => None | S f =>
    if count <=? 0 then Some ([], bs) else
    let g := Z.min count 3 in
    match take (3 * g + 1) bs with
    | None => None
    | Some (v, r) =>
        if (if g =? 3 then 1000 else if g =? 2 then 100 else 10) <=? v then None else
        let ds := if g =? 3 then [48 + v / 100; 48 + v / 10 mod 10; 48 + v mod 10]
                  else if g =? 2 then [48 + v / 10; 48 + v mod 10] else [48 + v] in
        match read_numeric f (count - g) r with Some (t, r') => Some (ds ++ t, r') | None => None end
    end end.
Fixpoint read_alnum (fuel : nat) (count : Z) (bs : list bool) : option (list Z * list bool) :=
  match fuel with O => None | S f =>
    if count <=? 0 then Some ([], bs) else
    if 2 <=? count then
      match take 11 bs with
      | None => None
      | Some (v, r) => if 45 * 45 <=? v then None else
          match read_alnum f (count - 2) r with Some (t, r') => Some (alnum_char (v / 45) :: alnum_char (v mod 45) :: t, r') | None => None end
      end
    else match take 6 bs with
         | None => None
         | Some (v, r) => if 45 <=? v then None else Some ([alnum_char v], r)
         end
  end.
Fixpoint read_fixed (fuel : nat) (count width : Z) (f : Z -> list Z) (bs : list bool) : option (list Z * list bool) :=
  match fuel with O => None | S fl =>
    if count <=? 0 then Some ([], bs) else
    match take width bs with
    | None => None
    | Some (v, r) => match read_fixed fl (count - 1) width f r with Some (t, r') => Some (f v ++ t, r') | None => None end
    end end.
Definition kanji_bytes (v : Z) : list Z :=
  let c := (v / 192) * 256 + v mod 192 in
  let code := if c + 33088 <=? 40956 then c + 33088 else c + 49472 in
  [code / 256; code mod 256].
Definition hanzi_bytes (v : Z) : list Z :=
  let c := (v / 96) * 256 + v mod 96 in
  let code := if v / 96 <? 10 then c + 41377 else c + 42657 in
  [code / 256; code mod 256].

Definition mode_key (m : dmode) : Z := match m with DNumeric => 1 | DAlnum => 2 | DByte => 4 | DKanji => 8 | DHanzi => 13 end.
Definition cci (m : dmode) (range_or_micro : Z) : option Z :=
  match assocZ (mode_key m) CHAR_COUNT_INDICATOR_LENGTH with Some row => assocZ range_or_micro row | None => None end.
Definition qr_range (v : Z) : Z := if v <=? 9 then 1 else if v <=? 26 then 2 else 3.

Definition read_payload (m : dmode) (count : Z) (bs : list bool) : option (list Z * list bool) :=
  let fuel := S (Z.to_nat count) in
  match m with
  | DNumeric => read_numeric fuel count bs
  | DAlnum => read_alnum fuel count bs
  | DByte => read_fixed fuel count 8 (fun v => [v]) bs
  | DKanji => read_fixed fuel count 13 kanji_bytes bs
  | DHanzi => read_fixed fuel count 13 hanzi_bytes bs
  end.

(* ECI designator: 0bbbbbbb | 10 + 14 bits | 110 + 21 bits *)
Definition read_eci (bs : list bool) : option (Z * list bool) :=
  match bs with
  | false :: _ => take 8 bs
  | true :: false :: _ => match take 16 bs with Some (v, r) => Some (v - 32768, r) | None => None end
  | true :: true :: false :: _ => match take 24 bs with Some (v, r) => Some (v - 12582912, r) | None => None end
  | _ => None
  end.

(* QR segments: stop on the terminator 0000 or when fewer than 4 bits remain *)
Fixpoint parse_qr (fuel : nat) (v : Z) (eci : option Z) (bs : list bool) (acc : list dsegment) : option (list dsegment * list bool) :=
  match fuel with O => None | S f =>
    match take 4 bs with
    | None => Some (rev acc, bs)
    | Some (ind, r) =>
        if ind =? 0 then Some (rev acc, bs) else
        if ind =? 7 then match read_eci r with Some (n, r') => parse_qr f v (Some n) r' acc | None => None end else
        let om := match ind with 1 => Some DNumeric | 2 => Some DAlnum | 4 => Some DByte | 8 => Some DKanji
                                | 13 => Some DHanzi | _ => None end in
        match om with
        | None => None
        | Some m =>
            let r1 := match m with DHanzi => match take 4 r with Some (1, x) => Some x | _ => None end | _ => Some r end in
            match r1 with None => None | Some r1 =>
              match cci m (qr_range v) with None => None | Some w =>
                match take w r1 with None => None | Some (count, r2) =>
                  match read_payload m count r2 with None => None | Some (bytes, r3) =>
                    parse_qr f v None r3 ({| d_mode := m; d_eci := eci; d_count := count; d_bytes := bytes |} :: acc)
                  end end end end
        end
    end end.

(* Micro QR: mode indicator of v+3 bits (M1 none: numeric only); the terminator is a numeric header with
   count 0; also stop when the remaining bits cannot hold an indicator and its count *)
Fixpoint parse_micro (fuel : nat) (v : Z) (bs : list bool) (acc : list dsegment) : option (list dsegment * list bool) :=
  match fuel with O => None | S f =>
    let mlen := v + 3 in
    match take mlen bs with
    | None => Some (rev acc, bs)
    | Some (ind, r) =>
        let om := match ind with 0 => Some DNumeric | 1 => Some DAlnum | 2 => Some DByte | _ => Some DKanji end in
        match om with None => None | Some m =>
          match cci m v with
          | None => None
          | Some w =>
              match take w r with
              | None => Some (rev acc, bs)
              | Some (count, r2) =>
                  if (ind =? 0) && (count =? 0) then Some (rev acc, bs) else
                  match read_payload m count r2 with None => None | Some (bytes, r3) =>
                    parse_micro f v r3 ({| d_mode := m; d_eci := None; d_count := count; d_bytes := bytes |} :: acc)
                  end
              end
          end end
    end end.

Definition bits_of_codewords (v : Z) (cws : list Z) : list bool :=
  let all := flat_map (fun c => map (fun k => Z.testbit c k) [7; 6; 5; 4; 3; 2; 1; 0]) cws in
  if (v =? -3) || (v =? -1) then firstn (length all - 4) all else all.

Definition decode_symbol (rows : list (list bool)) : option decoded :=
  match read_format rows with
  | None => None
  | Some f =>
      if negb (version_info_ok rows) then None else
      let v := f_version f in
      let rb := read_blocks v (f_level f) (read_stream rows (f_mask f)) in
      let dcw := concat (rb_data rb) in
      let bs := bits_of_codewords v dcw in
      (* optional Structured Append header (QR only) *)
      let '(sa, bs1) := if (0 <? v) then match take 4 bs with
                                          | Some (3, r) => match take 4 r with Some (idx, r1) =>
                                                             match take 4 r1 with Some (tot, r2) =>
                                                               match take 8 r2 with Some (par, r3) => (Some (idx, tot, par), r3)
                                                               | None => (None, bs) end | None => (None, bs) end | None => (None, bs) end
                                          | _ => (None, bs) end
                        else (None, bs) in
      match (if 0 <? v then parse_qr (S (length bs1)) v None bs1 [] else parse_micro (S (length bs1)) v bs1 []) with
      | None => None
      | Some (segs, tail) =>
          Some {| dec_version := v; dec_level := f_level f; dec_mask := f_mask f; dec_sa := sa;
                  dec_segments := segs; dec_data_codewords := dcw; dec_tail := tail |}
      end
  end.
