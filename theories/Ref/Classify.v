(* Specification-side helpers for C11 (module classification), independent of the source. *)
From Coq Require Import ZArith List Bool Lia.
From Segno Require Import Base.PyLite Ref.Geometry.
Import ListNotations.
Open Scope Z_scope.

(* what add_alignment_patterns leaves in an otherwise empty auxiliary matrix: 2 = untouched *)
Definition align_matrix (size : Z) (cs : list Z) (i j : Z) : Z :=
  if is_micro_size size then 2 else
  match in_align cs i j with Some d => if d then 1 else 0 | None => 2 end.

(* module values that can occur at a position of type t in a symbol *)
Definition allowed_vals (t : mtype) : list Z :=
  match t with Separator => [0] | DarkModule => [1] | Quiet => [0] | _ => [0; 1] end.

(* known finding D10: module (8, size-9) of every QR symbol is reported as format information *)
Definition kf_fmt_col (size i j : Z) : bool := negb (is_micro_size size) && (i =? 8) && (j =? size - 9).

(* oracle: expected verbose value of every cell of a (size+2b) square grid, given the module values *)
Definition classify_matrix (size border : Z) (rows : list (list bool)) : list (list Z) :=
  let cs := align_centres (version_of_size size) in
  map (fun i => map (fun j =>
        let dark := nth (Z.to_nat j) (nth (Z.to_nat i) rows []) false in
        code_of (iso_type size cs i j) dark) (zrange (- border) (size + border))) (zrange (- border) (size + border)).
Definition align_aux_matrix (size : Z) : list (list Z) :=
  let cs := align_centres (version_of_size size) in
  map (fun i => map (fun j => align_matrix size cs i j) (zrange 0 size)) (zrange 0 size).
